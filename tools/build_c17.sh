#!/bin/bash
# usage: tools/build_c17.sh [--real] <repo-dir> <out-binary>
#
# Builds the C17 (1 GiB lock page) variant of the lsmc harness binary (-tags "verif c17").
#
# Default (scaled geometry): the binary is built so that every party that knows where SQLite's lock-byte page
# lives agrees on 0x10000 instead of 0x40000000:
#   * github.com/superfly/ltx   - copy of the module from GOMODCACHE in harness/c17gen/ltx-scaled with the single
#                                 constant PENDING_BYTE changed (files under GOMODCACHE cannot be overlaid, hence a
#                                 -modfile with a replace directive);
#   * litestream                - build overlay for <repo-dir>/internal/lock_unix.go with sqlitePendingByte changed
#                                 (follow-mode file locks). No other litestream source is touched;
#   * SQLite                    - at run time, by `lsmc-c17 c17` itself (SQLITE_TESTCTRL_PENDING_BYTE).
# Both source edits are pattern matches on the exact constant definition; the script fails if a pattern is absent.
# In addition <out-binary>-real is built (same sources, same tags, NO scaling) for the thorough tier's real 1 GiB
# run (`c17real`); set C17_SKIP_REAL=1 to skip it.
#
# --real: build only the unscaled variant to <out-binary>.
#
# Generated files live in harness/c17gen (git-ignored); concurrent invocations are serialised with a lock file.
set -eu
real=0
if [ "${1:-}" = "--real" ]; then real=1; shift; fi
if [ $# -ne 2 ]; then echo "usage: $0 [--real] <repo-dir> <out-binary>" >&2; exit 2; fi
repo="$(readlink -f "$1")"
out="$(readlink -m "$2")"
here="$(cd "$(dirname "$0")" && pwd)"
harness="$(readlink -f "$here/../harness")"
gen="$harness/c17gen"
export GOFLAGS=-mod=mod GOPROXY=off
SCALED=0x10000

mkdir -p "$gen" "$(dirname "$out")"
[ -f "$gen/.gitignore" ] || printf '*\n!.gitignore\n' > "$gen/.gitignore"
exec 9>"$gen/.lock"
flock 9

die() { echo "build_c17.sh: $*" >&2; exit 2; }

# mkmod <modfile> <scaled:0|1> : harness go.mod + litestream replace pointing at <repo-dir> (+ ltx replace)
mkmod() {
  local mod="$1" scaled="$2"
  grep -q '^replace github.com/benbjohnson/litestream => ' "$harness/go.mod" || die "harness go.mod has no litestream replace line"
  sed "s|^replace github.com/benbjohnson/litestream => .*\$|replace github.com/benbjohnson/litestream => $repo|" "$harness/go.mod" > "$mod"
  if [ "$scaled" = 1 ]; then
    printf '\nreplace github.com/superfly/ltx => ./c17gen/ltx-scaled\n' >> "$mod"
  fi
  cp "$harness/go.sum" "${mod%.mod}.sum"
}

build_real() {
  local o="$1"
  mkmod "$gen/go.c17real.mod" 0
  ( cd "$harness" && go build -modfile=c17gen/go.c17real.mod -tags "verif c17" -o "$o" ./cmd/lsmc )
}

build_scaled() {
  local o="$1"
  # 1. ltx with the scaled constant
  local ltxver ltxsrc
  ltxver="$(sed -n 's|^[[:space:]]*github.com/superfly/ltx \(v[^ ]*\).*$|\1|p' "$harness/go.mod" | head -1)"
  [ -n "$ltxver" ] || die "cannot find the ltx version in $harness/go.mod"
  ltxsrc="$(go env GOMODCACHE)/github.com/superfly/ltx@$ltxver"
  [ -d "$ltxsrc" ] || die "ltx module not in the module cache: $ltxsrc"
  grep -q '^const PENDING_BYTE = 0x40000000$' "$ltxsrc/ltx.go" || die "pattern 'const PENDING_BYTE = 0x40000000' not found in $ltxsrc/ltx.go"
  [ "$(grep -c 'PENDING_BYTE *=' "$ltxsrc"/*.go | awk -F: '{s+=$2} END {print s}')" = 1 ] || die "PENDING_BYTE is assigned in more than one place in $ltxsrc"
  if [ ! -f "$gen/ltx-scaled/.src" ] || [ "$(cat "$gen/ltx-scaled/.src")" != "$ltxsrc $SCALED" ]; then
    rm -rf "$gen/ltx-scaled"
    mkdir -p "$gen/ltx-scaled"
    cp -r "$ltxsrc/." "$gen/ltx-scaled/"
    chmod -R u+w "$gen/ltx-scaled"
    sed -i "s/^const PENDING_BYTE = 0x40000000\$/const PENDING_BYTE = $SCALED/" "$gen/ltx-scaled/ltx.go"
    echo "$ltxsrc $SCALED" > "$gen/ltx-scaled/.src"
  fi
  grep -q "^const PENDING_BYTE = $SCALED\$" "$gen/ltx-scaled/ltx.go" || die "scaled ltx copy does not carry the scaled constant"
  # 2. litestream's own copy of the offset (internal/lock_unix.go), as a build overlay
  local lk="$repo/internal/lock_unix.go"
  grep -q '^[[:space:]]*sqlitePendingByte = 0x40000000$' "$lk" || die "pattern 'sqlitePendingByte = 0x40000000' not found in $lk"
  sed "s/^\([[:space:]]*\)sqlitePendingByte = 0x40000000\$/\1sqlitePendingByte = $SCALED/" "$lk" > "$gen/lock_unix.scaled.go"
  grep -q "sqlitePendingByte = $SCALED\$" "$gen/lock_unix.scaled.go" || die "overlay file does not carry the scaled constant"
  printf '{"Replace":{"%s":"%s"}}\n' "$lk" "$gen/lock_unix.scaled.go" > "$gen/overlay.json"
  # 3. module file
  mkmod "$gen/go.c17.mod" 1
  ( cd "$harness" && go build -modfile=c17gen/go.c17.mod -tags "verif c17" -overlay "$gen/overlay.json" -o "$o" ./cmd/lsmc )
}

if [ "$real" = 1 ]; then
  build_real "$out"
else
  build_scaled "$out"
  if [ "${C17_SKIP_REAL:-0}" != 1 ]; then
    build_real "$out-real"
  fi
fi
