#!/bin/bash
# usage: tools/build_c12.sh <repo-dir> <out-binary> [rewriter flags; default: -fs-points -sql-points]
# (the fs/sql points are compiled in and switched at run time by C12_FS / C12_SQL, see cmd/lsmc/c12.go)
# Builds the C12 (schedule exploration) binaries against <repo-dir> WITHOUT modifying it:
#   <out>       litestream's root package and file/ are compiled from mechanically rewritten copies
#               (tools/rewrite: sync -> lsverif/vsync, semaphore -> lsverif/vsync/vsem, io.Pipe -> vsync.Pipe,
#               go statements -> vsync.Go, optional fs/sql scheduling points) through go build -overlay;
#               tags "verif c12"
#   <out>-race  the UNREWRITTEN sources with the race detector; tags "verif c12race"
# The resumable-reader back-off overlay of tools/build.sh is merged into the same overlay.
# Exit status non-zero = build failed (the check then exits 2).
set -eu
repo="$(readlink -f "$1")"; out="$2"; shift; shift
flags=("$@")
[ ${#flags[@]} -eq 0 ] && flags=(-fs-points -sql-points)
export GOFLAGS=-mod=mod GOPROXY=off
here="$(cd "$(dirname "$0")" && pwd)"
harness="$(cd "$here/../harness" && pwd)"
mkdir -p /dev/shm/c12
work="$(mktemp -d /dev/shm/c12/build.XXXXXX)"
trap 'rm -rf "$work"' EXIT
export GOTMPDIR="$work"

# back-off overlay (same as tools/build.sh)
merge=()
src="$repo/internal/resumable_reader.go"
if grep -q '^const resumableReaderBackoff = 250 \* time.Millisecond$' "$src"; then
  sed 's/^const resumableReaderBackoff = 250 \* time.Millisecond$/const resumableReaderBackoff = 1 * time.Nanosecond/' "$src" > "$work/resumable_reader.go"
  printf '{"Replace":{"%s":"%s"}}\n' "$src" "$work/resumable_reader.go" > "$work/backoff.json"
  merge=(-merge "$work/backoff.json")
fi

modfile=()
if [ "$repo" != "/repo" ]; then
  sed "s|=> /repo\$|=> $repo|" "$harness/go.mod" > "$work/alt.mod"
  cp "$harness/go.sum" "$work/alt.sum"
  modfile=(-modfile "$work/alt.mod")
fi

( cd "$harness" && go build -o "$work/rewrite" "$here/rewrite/main.go" )
"$work/rewrite" -repo "$repo" -out "$work/ov" "${merge[@]}" "${flags[@]}"
( cd "$harness" && go build "${modfile[@]}" -tags "verif c12" -overlay "$work/ov/overlay.json" -o "$out" ./cmd/lsmc )
if [ "${C12_SKIP_RACE:-0}" != "1" ]; then
  race_overlay=()
  [ -f "$work/backoff.json" ] && race_overlay=(-overlay "$work/backoff.json")
  ( cd "$harness" && CGO_ENABLED=1 go build "${modfile[@]}" -race -tags "verif c12race" "${race_overlay[@]}" -o "$out-race" ./cmd/lsmc ) || {
    echo "build_c12.sh: race-detector build failed; the race pass will be reported as not run" >&2
    rm -f "$out-race"
  }
fi
