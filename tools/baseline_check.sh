#!/bin/bash
# Runs the repository's pinned suite with the verif guard OFF and compares with /root/.vp/BASELINE.json:
# every stable_pass test must pass. usage: tools/baseline_check.sh [repo-dir]
repo="${1:-/repo}"
export GOFLAGS=-mod=mod GOPROXY=off
out=/dev/shm/baseline-$$.json
( cd "$repo" && go test -json -vet=off -count=1 -timeout 25m ./... ) > $out 2>/dev/null
python3 - "$out" <<'PY'
import json,sys
res={}
for l in open(sys.argv[1]):
    try: e=json.loads(l)
    except: continue
    if e.get('Test') and e.get('Action') in ('pass','fail','skip'):
        res[e['Package']+'::'+e['Test']]=e['Action']
b=json.load(open('/root/.vp/BASELINE.json'))
bad=[t for t in b['stable_pass'] if res.get(t)!='pass']
print(f"tests seen={len(res)} stable_pass={len(b['stable_pass'])} not-passing={len(bad)}")
for t in bad[:20]: print("  NOT PASSING:",t,res.get(t))
sys.exit(1 if bad else 0)
PY
code=$?; rm -f $out; exit $code
