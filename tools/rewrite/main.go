// Command rewrite generates the build overlay of the C12 check: mechanically
// rewritten copies of litestream's package sources (root package and file/)
// whose blocking primitives are the scheduler-aware shims of lsverif/vsync.
//
//	rewrite -repo /repo -out /dev/shm/x [-fs-points] [-sql-points] [-merge other-overlay.json]
//
// Rewrites (no logic is changed):
//
//	(a) import "sync"                          -> sync "lsverif/vsync"
//	(b) import "golang.org/x/sync/semaphore"   -> semaphore "lsverif/vsync/vsem"
//	(c) io.Pipe / io.PipeReader / io.PipeWriter -> vsync.Pipe / vsync.PipeReader / vsync.PipeWriter
//	(d) go func() { ... }()                    -> vsync.Go(func() { ... })
//	(e) -fs-points:  os.Rename|Remove|RemoveAll|ReadDir|Open|OpenFile|Create|Stat(...) -> vsync.OsX(...)
//	(f) -sql-points: x.ExecContext|QueryRowContext|QueryContext|BeginTx|Exec|Rollback|Commit(...) -> vsync.P(x, "where").M(...)
//
// Any file that does not parse, any go statement that is not `go func(){...}()`
// and any use of a sync identifier the shims do not provide makes the command
// fail (non-zero exit), so the build script fails and the check exits 2.
package main

import (
	"bytes"
	"encoding/json"
	"flag"
	"fmt"
	"go/ast"
	"go/build"
	"go/parser"
	"go/printer"
	"go/token"
	"os"
	"path/filepath"
	"sort"
	"strconv"
	"strings"
)

var syncProvided = map[string]bool{"Mutex": true, "RWMutex": true, "WaitGroup": true, "Once": true, "Locker": true}
var semProvided = map[string]bool{"Weighted": true, "NewWeighted": true}
var fsFuncs = map[string]string{"Rename": "OsRename", "Remove": "OsRemove", "RemoveAll": "OsRemoveAll", "ReadDir": "OsReadDir",
	"Open": "OsOpen", "OpenFile": "OsOpenFile", "Create": "OsCreate", "Stat": "OsStat"}
var sqlMethods = map[string]bool{"ExecContext": true, "QueryRowContext": true, "QueryContext": true, "BeginTx": true, "Exec": true, "Rollback": true, "Commit": true}

type stats struct {
	Files      int            `json:"files"`
	SyncImport int            `json:"sync_imports"`
	SemImport  int            `json:"semaphore_imports"`
	Pipes      int            `json:"io_pipe_refs"`
	GoStmts    int            `json:"go_statements"`
	FSPoints   int            `json:"fs_points"`
	SQLPoints  int            `json:"sql_points"`
	SyncIdents map[string]int `json:"sync_identifiers"`
}

func fail(f string, a ...any) {
	fmt.Fprintf(os.Stderr, "rewrite: "+f+"\n", a...)
	os.Exit(1)
}

func main() {
	repo := flag.String("repo", "/repo", "litestream source tree")
	out := flag.String("out", "", "output directory")
	fsPoints := flag.Bool("fs-points", false, "insert scheduling points before file-system calls")
	sqlPoints := flag.Bool("sql-points", false, "insert scheduling points before SQL calls")
	merge := flag.String("merge", "", "existing overlay.json whose Replace map is merged in")
	flag.Parse()
	if *out == "" {
		fail("-out required")
	}
	abs, err := filepath.Abs(*repo)
	if err != nil {
		fail("%v", err)
	}
	if err := os.MkdirAll(*out, 0o755); err != nil {
		fail("%v", err)
	}
	st := &stats{SyncIdents: map[string]int{}}
	replace := map[string]string{}
	ctx := build.Default
	ctx.GOOS, ctx.GOARCH, ctx.CgoEnabled = "linux", "amd64", false
	ctx.BuildTags = []string{"verif"}
	for _, sub := range []string{"", "file"} {
		dir := filepath.Join(abs, sub)
		ents, err := os.ReadDir(dir)
		if err != nil {
			fail("%v", err)
		}
		for _, e := range ents {
			n := e.Name()
			if e.IsDir() || !strings.HasSuffix(n, ".go") || strings.HasSuffix(n, "_test.go") {
				continue
			}
			ok, err := ctx.MatchFile(dir, n)
			if err != nil {
				fail("%s: %v", filepath.Join(dir, n), err)
			}
			if !ok {
				continue // excluded by build constraints (e.g. vfs.go needs tag vfs)
			}
			src := filepath.Join(dir, n)
			dstDir := filepath.Join(*out, "src", sub)
			if err := os.MkdirAll(dstDir, 0o755); err != nil {
				fail("%v", err)
			}
			dst := filepath.Join(dstDir, n)
			if err := rewriteFile(src, dst, *fsPoints, *sqlPoints, st); err != nil {
				fail("%s: %v", src, err)
			}
			replace[src] = dst
			st.Files++
		}
	}
	if *merge != "" {
		b, err := os.ReadFile(*merge)
		if err != nil {
			fail("%v", err)
		}
		var o struct{ Replace map[string]string }
		if err := json.Unmarshal(b, &o); err != nil {
			fail("%s: %v", *merge, err)
		}
		for k, v := range o.Replace {
			if _, dup := replace[k]; dup {
				fail("overlay conflict on %s", k)
			}
			replace[k] = v
		}
	}
	if st.SyncImport == 0 || st.SemImport == 0 || st.GoStmts == 0 || st.Pipes == 0 {
		fail("nothing to rewrite (sync imports %d, semaphore imports %d, go statements %d, pipes %d): source layout changed?", st.SyncImport, st.SemImport, st.GoStmts, st.Pipes)
	}
	b, _ := json.MarshalIndent(map[string]any{"Replace": replace}, "", " ")
	if err := os.WriteFile(filepath.Join(*out, "overlay.json"), b, 0o644); err != nil {
		fail("%v", err)
	}
	sb, _ := json.MarshalIndent(st, "", " ")
	os.WriteFile(filepath.Join(*out, "rewrite-stats.json"), sb, 0o644)
	fmt.Printf("rewrite: %d files, %d sync imports, %d semaphore imports, %d io.Pipe refs, %d go statements, %d fs points, %d sql points\n",
		st.Files, st.SyncImport, st.SemImport, st.Pipes, st.GoStmts, st.FSPoints, st.SQLPoints)
}

func rewriteFile(src, dst string, fsPoints, sqlPoints bool, st *stats) error {
	fset := token.NewFileSet()
	f, err := parser.ParseFile(fset, src, nil, parser.ParseComments)
	if err != nil {
		return err
	}
	base := filepath.Base(src)
	imports := map[string]string{} // local name -> path
	var syncName, semName, ioName, osName string
	for _, im := range f.Imports {
		p, _ := strconv.Unquote(im.Path.Value)
		name := filepath.Base(p)
		if im.Name != nil {
			name = im.Name.Name
		}
		imports[name] = p
		switch p {
		case "sync":
			if name == "_" || name == "." {
				return fmt.Errorf("unsupported import form of sync")
			}
			syncName = name
			im.Name = ast.NewIdent(name)
			im.Path.Value = strconv.Quote("lsverif/vsync")
			st.SyncImport++
		case "golang.org/x/sync/semaphore":
			semName = name
			im.Name = ast.NewIdent(name)
			im.Path.Value = strconv.Quote("lsverif/vsync/vsem")
			st.SemImport++
		case "io":
			ioName = name
		case "os":
			osName = name
		case "sync/atomic":
			// left alone on purpose
		}
	}
	needVsync := false
	var rerr error
	vs := func(sel string) *ast.SelectorExpr {
		needVsync = true
		return &ast.SelectorExpr{X: ast.NewIdent("vsync"), Sel: ast.NewIdent(sel)}
	}
	// (d) go statements: replace in statement lists.
	replaceGo := func(list []ast.Stmt) {
		for i, s := range list {
			g, ok := s.(*ast.GoStmt)
			if !ok {
				continue
			}
			fl, ok := g.Call.Fun.(*ast.FuncLit)
			if !ok || len(g.Call.Args) != 0 || fl.Type.Params.NumFields() != 0 {
				rerr = fmt.Errorf("%s: go statement is not `go func(){...}()`; the rewriter does not handle argument evaluation", fset.Position(g.Pos()))
				return
			}
			list[i] = &ast.ExprStmt{X: &ast.CallExpr{Fun: vs("Go"), Args: []ast.Expr{fl}}}
			st.GoStmts++
		}
	}
	ast.Inspect(f, func(n ast.Node) bool {
		switch x := n.(type) {
		case *ast.BlockStmt:
			replaceGo(x.List)
		case *ast.CaseClause:
			replaceGo(x.Body)
		case *ast.CommClause:
			replaceGo(x.Body)
		case *ast.LabeledStmt:
			if _, ok := x.Stmt.(*ast.GoStmt); ok {
				rerr = fmt.Errorf("%s: labeled go statement", fset.Position(x.Pos()))
			}
		case *ast.IfStmt, *ast.ForStmt:
			// bodies are BlockStmts: handled above
		}
		return true
	})
	if rerr != nil {
		return rerr
	}
	// A go statement anywhere else (there is no other place in Go's grammar) would survive: assert none is left.
	ast.Inspect(f, func(n ast.Node) bool {
		if g, ok := n.(*ast.GoStmt); ok {
			rerr = fmt.Errorf("%s: go statement not rewritten", fset.Position(g.Pos()))
		}
		return true
	})
	if rerr != nil {
		return rerr
	}
	// (a)(b) audit identifiers used from sync / semaphore; (c) pipes; (e) fs points; (f) sql points.
	ioUses, osUses := 0, 0
	ast.Inspect(f, func(n ast.Node) bool {
		switch x := n.(type) {
		case *ast.CallExpr:
			sel, ok := x.Fun.(*ast.SelectorExpr)
			if !ok {
				return true
			}
			if id, ok := sel.X.(*ast.Ident); ok && id.Obj == nil && osName != "" && id.Name == osName && fsPoints {
				if w, ok := fsFuncs[sel.Sel.Name]; ok {
					x.Fun = vs(w)
					st.FSPoints++
					return true
				}
			}
			if sqlPoints && sqlMethods[sel.Sel.Name] {
				if id, ok := sel.X.(*ast.Ident); ok && id.Obj == nil {
					if _, isPkg := imports[id.Name]; isPkg {
						return true // package-level function, not a method
					}
				}
				pos := fset.Position(x.Pos())
				where := fmt.Sprintf("%s@%s:%d", sel.Sel.Name, base, pos.Line)
				sel.X = &ast.CallExpr{Fun: vs("P"), Args: []ast.Expr{sel.X, &ast.BasicLit{Kind: token.STRING, Value: strconv.Quote(where)}}}
				st.SQLPoints++
			}
		case *ast.SelectorExpr:
			id, ok := x.X.(*ast.Ident)
			if !ok || id.Obj != nil {
				return true
			}
			switch {
			case syncName != "" && id.Name == syncName:
				st.SyncIdents["sync."+x.Sel.Name]++
				if !syncProvided[x.Sel.Name] {
					rerr = fmt.Errorf("%s: sync.%s is not provided by lsverif/vsync", fset.Position(x.Pos()), x.Sel.Name)
				}
			case semName != "" && id.Name == semName:
				st.SyncIdents["semaphore."+x.Sel.Name]++
				if !semProvided[x.Sel.Name] {
					rerr = fmt.Errorf("%s: semaphore.%s is not provided by lsverif/vsync/vsem", fset.Position(x.Pos()), x.Sel.Name)
				}
			case ioName != "" && id.Name == ioName:
				switch x.Sel.Name {
				case "Pipe", "PipeReader", "PipeWriter":
					x.X = ast.NewIdent("vsync")
					needVsync = true
					st.Pipes++
				default:
					ioUses++
				}
			case osName != "" && id.Name == osName:
				osUses++
			}
		}
		return true
	})
	if rerr != nil {
		return rerr
	}
	// The fs rewrite replaced x.Fun before the SelectorExpr visit, so osUses counts only what is left.
	var extra []string
	if ioName != "" && ioUses == 0 {
		extra = append(extra, "var _ "+ioName+".Reader")
	}
	if osName != "" && osUses == 0 {
		extra = append(extra, "var _ "+osName+".FileMode")
	}
	if needVsync {
		if p, ok := imports["vsync"]; ok && p != "lsverif/vsync" {
			return fmt.Errorf("identifier vsync already names import %q", p)
		}
		spec := &ast.ImportSpec{Name: ast.NewIdent("vsync"), Path: &ast.BasicLit{Kind: token.STRING, Value: strconv.Quote("lsverif/vsync")}}
		added := false
		for _, d := range f.Decls {
			if gd, ok := d.(*ast.GenDecl); ok && gd.Tok == token.IMPORT {
				if !gd.Lparen.IsValid() {
					gd.Lparen = gd.Pos()
					gd.Rparen = gd.End()
				}
				gd.Specs = append(gd.Specs, spec)
				added = true
				break
			}
		}
		if !added {
			return fmt.Errorf("no import declaration to extend")
		}
	}
	var buf bytes.Buffer
	fmt.Fprintf(&buf, "// Code generated by /verif/tools/rewrite from %s; DO NOT EDIT.\n", src)
	// keep build constraints first: go/printer prints them from the AST's comments, and a
	// leading generated-comment line above //go:build is legal.
	if err := (&printer.Config{Mode: printer.UseSpaces | printer.TabIndent, Tabwidth: 8}).Fprint(&buf, fset, f); err != nil {
		return err
	}
	sort.Strings(extra)
	for _, e := range extra {
		buf.WriteString("\n" + e + "\n")
	}
	// The result must parse.
	if _, err := parser.ParseFile(token.NewFileSet(), dst, buf.Bytes(), 0); err != nil {
		return fmt.Errorf("rewritten file does not parse: %v", err)
	}
	return os.WriteFile(dst, buf.Bytes(), 0o644)
}
