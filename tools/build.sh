#!/bin/bash
# usage: tools/build.sh <repo-dir> <harness-dir> <output-binary>
# Builds the lsmc harness binary against <repo-dir> with hooks on (-tags verif) and with a build overlay,
# generated from the working tree, that shortens the resumable reader's retry back-off (250ms*2^n -> 1ns*2^n).
# Retry counts and control flow are untouched. If the pattern is absent the overlay is skipped (real delays).
set -eu
repo="$1"; harness="$2"; out="$3"
export GOFLAGS=-mod=mod GOPROXY=off
ov="$(mktemp -d /dev/shm/lsmc-overlay.XXXXXX)"
trap 'rm -rf "$ov"' EXIT
src="$repo/internal/resumable_reader.go"
overlay_arg=()
if grep -q '^const resumableReaderBackoff = 250 \* time.Millisecond$' "$src"; then
  sed 's/^const resumableReaderBackoff = 250 \* time.Millisecond$/const resumableReaderBackoff = 1 * time.Nanosecond/' "$src" > "$ov/resumable_reader.go"
  printf '{"Replace":{"%s":"%s"}}\n' "$src" "$ov/resumable_reader.go" > "$ov/overlay.json"
  overlay_arg=(-overlay "$ov/overlay.json")
else
  echo "build.sh: back-off constant not found in $src; building without overlay (read-fault enumeration will be slow)" >&2
fi
# Clock seam for the lease code (C20): leaser.go and s3/leaser.go are compiled from copies whose readings of the
# clock go through lsverif/vclock (identical to the time package unless the check freezes it). Nothing else changes.
entries=()
[ -f "$ov/resumable_reader.go" ] && entries+=("\"$src\":\"$ov/resumable_reader.go\"")
n=0
for f in "$repo/leaser.go" "$repo/s3/leaser.go"; do
  [ -f "$f" ] || continue
  n=$((n+1)); o="$ov/leaser$n.go"
  sed -E 's/\btime\.Now\(\)/vclock.Now()/g; s/\btime\.Until\(/vclock.Until(/g; s/\btime\.Since\(/vclock.Since(/g' "$f" \
    | awk 'BEGIN{d=0} { print } /^import \($/ && !d { print "\t\"lsverif/vclock\""; d=1 }' > "$o"
  if grep -q 'vclock\.' "$o" && grep -q '"lsverif/vclock"' "$o"; then
    printf '\nvar _ = time.Now // keeps the time import used\n' >> "$o"
    grep -q '^	"time"$' "$o" || sed -i 's|^\t"lsverif/vclock"$|\t"lsverif/vclock"\n\t"time"|' "$o"
    entries+=("\"$f\":\"$o\"")
  fi
done
if [ ${#entries[@]} -gt 0 ]; then
  ( IFS=,; printf '{"Replace":{%s}}\n' "${entries[*]}" ) > "$ov/overlay.json"
  overlay_arg=(-overlay "$ov/overlay.json")
fi
# LSMC_TAGS: extra build tags (e.g. "vfs" for the C18 binary)
( cd "$harness" && go build -tags "verif ${LSMC_TAGS:-}" "${overlay_arg[@]}" -o "$out" ./cmd/lsmc )
