#!/bin/bash
# usage: tools/build.sh <repo-dir> <harness-dir> <output-binary>
# Builds the lsmc harness binary against <repo-dir> with hooks on (-tags verif) and with a build overlay,
# generated from the working tree, that shortens the resumable reader's retry back-off (250ms*2^n -> 1ns*2^n).
# Retry counts and control flow are untouched. If the pattern is absent the overlay is skipped (real delays).
set -eu
repo="$1"; harness="$2"; out="$3"
export GOFLAGS=-mod=mod GOPROXY=off
ov="$(mktemp -d /dev/shm/lsmc-overlay.XXXXXX)"
trap 'rm -rf "$ov"' EXIT
src="$repo/internal/resumable_reader.go"
overlay_arg=()
if grep -q '^const resumableReaderBackoff = 250 \* time.Millisecond$' "$src"; then
  sed 's/^const resumableReaderBackoff = 250 \* time.Millisecond$/const resumableReaderBackoff = 1 * time.Nanosecond/' "$src" > "$ov/resumable_reader.go"
  printf '{"Replace":{"%s":"%s"}}\n' "$src" "$ov/resumable_reader.go" > "$ov/overlay.json"
  overlay_arg=(-overlay "$ov/overlay.json")
else
  echo "build.sh: back-off constant not found in $src; building without overlay (read-fault enumeration will be slow)" >&2
fi
# LSMC_TAGS: extra build tags (e.g. "vfs" for the C18 binary)
( cd "$harness" && go build -tags "verif ${LSMC_TAGS:-}" "${overlay_arg[@]}" -o "$out" ./cmd/lsmc )
