#!/usr/bin/env python3
"""Generates /verif/MANIFEST.json from the table below (single source of truth for the check registry)."""
import json, subprocess

props = [json.loads(l) for l in open('/verif/properties.jsonl')]

E1 = "E1-history-explorer"
E3 = "E3-kill-point-supervisor"
E5 = "E5-input-enumerator"
E2 = "E2-schedule-explorer"
E4 = "E4-fault-answer-enumerator"

# id -> (engine, category, technique, level text, level note, design ref, has_replay)
checks = {
 "C01": (E1, "model_checking",
         "explicit-state search over operation histories of the implementation (replay-from-root BFS: exact, seeded and state-merged layers)",
         "bounded exhaustive exploration of application x litestream operation histories on the real code, page-exact restore oracle at every acknowledged instant",
         "file replica only; databases of tens of pages; monitors replaced by explicit operations; harness source-state model cross-checked against real SQLite at every acknowledgement",
         "DESIGN.md §3 C01"),
 "C03": (E3, "fault_enumeration",
         "exhaustive kill-point enumeration: every file-system-mutating syscall of a recorded worker history is a SIGKILL point (ptrace supervisor), then restart and restore oracle",
         "every counted syscall of each scenario is a kill point; after the kill no final-named file is half written, acknowledged state is restorable, a fresh process resumes unaided and satisfies the C01 oracle",
         "syscall granularity (writes atomic per call); kernel crash is C11; scenarios are fixed histories covering every mutating code path",
         "DESIGN.md §3 C03"),
 "C04": (E1, "model_checking",
         "explicit-state search over histories with disturbance blocks (stop/start, kill, restart, reset, meta removal, db swap, application activity while down)",
         "bounded exhaustive exploration of disturbance histories on the real code; oracle: page-exact restore after the first acknowledgement, replica position equals local position, no old TXID rewritten",
         "in-process kill approximation (handles dropped without final sync); file replica only",
         "DESIGN.md §3 C04"),
 "C08": (E5, "exploration",
         "exhaustive small-scope enumeration of replica file sets x targets against a brute-force interval-reachability reference",
         "all file sets over TXIDs 1..3 (2^18) and bounded subsets for N=4,5, all targets and timestamp assignments; planner output compared with a reference chain solver",
         "in-memory ReplicaClient serving listings in filename order; N<=5",
         "DESIGN.md §3 C08"),
 "C11": (E3, "fault_enumeration",
         "syscall-trace monitoring: ordering rules R1-R4 evaluated at every rename/unlink of recorded worker histories",
         "every rename onto a final name and every unlink of an LTX file in the recorded traces is checked against flush-before-publish, publish-before-ack, supersede-before-delete, never-write-final-name",
         "POSIX durability model; operation boundaries marked in the trace by the worker; mmap stores invisible (SQLite -shm only)",
         "DESIGN.md §3 C11"),
 "C20": (E2, "model_checking",
         "explicit-state search over all interleavings of conditional storage requests under a cooperative scheduler, with state-key pruning; invariants + brute-force linearizability against a sequential lease register",
         "all interleavings (no preemption bound) of 2 clients x op lists <=3 and 3 clients x op lists <=2 over {acquire, renew, release} with live/born-expired TTLs, on the real s3.Leaser against an in-memory conditional-write store",
         "the in-memory store's conditional-write semantics (ETag counter, If-Match / If-None-Match:*, 412, NoSuchKey) are an assumption about S3; expiry is decided by TTL sign, not by a clock hook",
         "DESIGN.md §3 C20"),
 "C02": (E1, "model_checking",
         "explicit-state search over transaction-biased operation histories; every TXID restored and matched against a ledger of committed source states",
         "bounded exhaustive exploration of histories with multi-statement transactions (spilled uncommitted frames), rollbacks, chunked syncs, snapshots and compactions; every TXID 1..max restores to one committed state, in order; level-0 gapless from 1",
         "histories quantifier only in this check (schedules quantifier: see C12's schedule exploration); ledger computed by an independent from-spec WAL decoder after every operation",
         "DESIGN.md §3 C02"),
 "C06": (E1, "model_checking",
         "explicit-state search over histories with Compact(level)/Snapshot; differential oracle against a reference fold of archived level-0 files",
         "bounded exhaustive exploration for level layouts 1,2,3,8: every compacted file equals the fold of the level-0 files it covers (pages, size, timestamp), levels contiguous, every TXID restores to fold(1..n) whatever the mix of levels",
         "no storage faults and no snapshot retention in these histories; reference fold decodes archived files with the ltx library (trusted base)",
         "DESIGN.md §3 C06"),
 "C07": (E1, "model_checking",
         "explicit-state search over histories with retention passes plus an exhaustive fan-out over {old,young} age assignments at the end of every history",
         "bounded exhaustive exploration; after every age assignment x retention pass x RetentionEnabled: latest restorable and equal to the source, a snapshot remains, level-0 one run, delegated retention leaves the remote untouched; the next SyncAndWait works",
         "ages set by Chtimes relative to a 1h threshold; fan-out runs the real retention code of a fresh DB object on copies of the replica/local trees",
         "DESIGN.md §3 C07"),
 "C09": (E5, "exploration",
         "exhaustive mutation enumeration of real SQLite WALs (every truncation, every bit flip, frame dup/swap/edit/splice, both byte orders) x start offsets x byte budgets against a from-spec decoder validated against real SQLite recovery",
         "every mutated image is decoded by litestream's WALReader and by an independent reference; composition law for chunked reads; reference cross-validated against SQLite recovery",
         "SQLite cross-validation is budgeted (sqlite_validation_exhaustive reported); offset reads trust the previous frame's stored checksum, as the code documents",
         "DESIGN.md §3 C09"),
 "C05": (E4, "fault_enumeration",
         "deviation-bounded enumeration of storage-fault answers at every numbered ReplicaClient call (0, 1 and 2 deviations), oracle after every call",
         "every single deviation (quick, thorough) and every pair (thorough) over all client calls of fixed scenarios on the real code through a fault-injecting wrapper of the real file client",
         "faults at the ReplicaClient interface; the resumable reader's back-off is shortened by a generated build overlay; fixed scenarios",
         "DESIGN.md §3 C05"),
 "C10": (E4, "fault_enumeration",
         "exhaustive single-corruption enumeration (delete, every truncation length, every byte x 2 flip patterns) and read-fault enumeration (every byte offset x 1..4 repetitions) over the plan files of replicas built by real histories",
         "every corruption/fault of every plan file is restored with the real code in a worker subprocess; outcome must be an error (or a process crash) or byte-identical success; no partial/overwritten output",
         "single corruptions; process crash of the restoring process counts as a loud failure (recorded as its own outcome class); address-space limit on workers",
         "DESIGN.md §3 C10"),
 "C14": (E1, "model_checking",
         "explicit-state search over operation histories with a differential oracle: the same application history replayed on a database litestream never touches",
         "bounded exhaustive exploration; logical dump of user-visible schema/rows and header pragmas equals the litestream-free control run; bookkeeping tables as specified; integrity and WAL mode kept",
         "application operations are deterministic functions of a counter; control runs cached per application projection",
         "DESIGN.md §3 C14"),
 "C15": (E1, "model_checking",
         "explicit-state search over histories with compaction/retention; at every leaf all T at, +-1ms around and between the recorded replication times are restored and compared with the fold of archived level-0 files",
         "bounded exhaustive exploration; restore(T) equals the state of a TXID replicated strictly before T, monotone in T, exact when level-0 is complete, fails before the first backup",
         "replication time = LTX header timestamp read back from archived files; file-creating operations kept >=3ms apart by the driver; file replica (CreatedAt = mtime)",
         "DESIGN.md §3 C15"),
 "C16": (E1, "model_checking",
         "explicit-state search over primary histories with the follower opened and polled at every position (one follow-loop iteration per FPOLL), plus exhaustive kill-point enumeration of the real follow loop in a traced worker process",
         "bounded exhaustive exploration: after every poll the masked follower equals the restore of its sidecar TXID, sidecar monotone, fixpoint equals restore(latest); every counted syscall of the follower process is a kill point followed by replica advance and resume",
         "follow loop iteration driven through a hook mirroring the loop body; kill indices of the ticker-driven loop are not perfectly reproducible (each K run once, problems reported only if the same K reproduces them)",
         "DESIGN.md §3 C16"),
 "C17": (E5, "exploration",
         "exhaustive enumeration on a scaled lock-page geometry (SQLite test control PENDING_BYTE=0x10000, ltx constant patched in a module copy): 8 page sizes x 5 size classes x 9 paths x 2 auto_vacuum modes, plus direct growth-fill calls; one real 1 GiB run in the thorough tier",
         "every combination is executed on the real litestream code; no LTX file may contain the lock page, every sync/snapshot/compaction succeeds, restore equals the source with an empty lock page, integrity_check ok",
         "trusted base: SQLite and ltx consult the lock-page position only through the two scaled constants; litestream's own sources are unmodified (its lock offsets in internal/lock_unix.go are scaled by overlay)",
         "DESIGN.md §3 C17"),
 "C18": (E1, "model_checking",
         "explicit-state search over primary histories with VFS open/poll/lock operations at every position; every page and the file size compared with a full restore at the VFS position; time travel compared with timestamp restore",
         "bounded exhaustive exploration driving the real VFSFile through its Go methods (one poll iteration per VPOLL) with 1-page and default page caches",
         "VFS driven without a SQLite connection; separate binary built with -tags 'verif vfs' (cgo); four genuine VFS defects are listed as known findings",
         "DESIGN.md §3 C18"),
 "C19": (E5, "exploration",
         "exhaustive enumeration of legacy 0.3.x layouts generated from real histories (segment splits, snapshot placements, single removals, timestamps, mixed formats) against the generating history's ledger",
         "every layout x removal x timestamp is restored with the real code and compared byte-for-byte with the expected state (or an error is required)",
         "segments end at transaction boundaries; equal-size transactions force offset collisions; up to 2 generations x 3 indexes",
         "DESIGN.md §3 C19"),
 "C13": (E1, "model_checking",
         "explicit-state search over write/sync histories followed by 10 idle syncs, over a covering set of checkpoint configurations",
         "bounded exhaustive exploration of write/sync histories per configuration; oracle: live WAL generation below lowest threshold+1 after every successful sync, idle phase goes silent",
         "frames counted by an independent from-spec WAL decoder; time-based checkpoints decided by configuration (interval 0 or 1ns)",
         "DESIGN.md §3 C13"),
}

def entry(pid):
    eng, cat, tech, text, note, ref = checks[pid]
    c = pid.lower()
    return {
        "property_id": pid,
        "quick_cmd": f"./run.sh {c} quick",
        "thorough_cmd": f"./run.sh {c} thorough",
        "evidence_file": f"evidence/{pid}.json",
        "replay_cmd_template": f"./run.sh {c} quick --replay {{path}}",
        "engine": eng,
        "level_claimed": {"category": cat, "text": text, "design_ref": ref},
        "level_note": note,
        "technique": tech,
    }

hooks = subprocess.run(["git", "-C", "/repo", "log", "--format=%h %s"], capture_output=True, text=True).stdout.splitlines()
hook_commits = [l.split()[0] for l in hooks if l.split(maxsplit=1)[1].startswith("verif hooks")]

pending = {p['id'] for p in props} - set(checks)
m = {
 "version": 1,
 "setup_cmd": "./setup.sh",
 "hooks": {
  "guard": "verif",
  "enable": "go build -tags verif (run.sh passes it); hook files are /repo/verif_export*.go with //go:build verif",
  "baseline_off_cmd": "cd /repo && go test -vet=off -count=1 -timeout 25m ./...",
  "source_commits": hook_commits,
  "add_only": True,
 },
 "engines": [
  {"name": E1, "path": "harness/explore, harness/scn, harness/cmd/lsmc/hist.go", "serves_properties": sorted(k for k, v in checks.items() if v[0] == E1),
   "kind_free_text": "explicit-state BFS over operation histories; successor = replay of the history on a fresh scenario plus one operation, executed on the real litestream packages"},
  {"name": E3, "path": "killat/killat.c, harness/cmd/lsmc/worker.go, c03.go, c11.go", "serves_properties": sorted(k for k, v in checks.items() if v[0] == E3),
   "kind_free_text": "ptrace supervisor that records a worker's file-system-mutating syscalls and kills it before the K-th; trace monitor for ordering rules"},
  {"name": E2, "path": "harness/sched, harness/fakes3, harness/cmd/lsmc/c20.go", "serves_properties": sorted(k for k, v in checks.items() if v[0] == E2),
   "kind_free_text": "cooperative scheduler: one client goroutine runs at a time and yields before each storage request; DFS over all choices with visited-state pruning"},
  {"name": E4, "path": "harness/faultclient, harness/cmd/lsmc/c05.go, c10.go, c10w.go", "serves_properties": sorted(k for k, v in checks.items() if v[0] == E4),
   "kind_free_text": "fault-injecting ReplicaClient wrapper numbering every call; deviation-bounded DFS over (call index, answer); corruption/read-fault enumerators run in crash-isolated worker subprocesses"},
  {"name": E5, "path": "harness/cmd/lsmc/c08.go, c09.go, c19.go", "serves_properties": sorted(k for k, v in checks.items() if v[0] == E5),
   "kind_free_text": "exhaustive small-scope input enumerators with independent reference implementations"},
 ],
 "checks": [entry(p) for p in sorted(checks)],
 "not_applicable": [{"property_id": p, "reason": "check not yet built in this session (planned per DESIGN.md; not a statement that model checking cannot apply)"} for p in sorted(pending)],
 "notes": "See DESIGN.md. Genuine defects found and repaired are listed in known_findings.json (status fixed) with their 'fix:' commits in /repo.",
}
json.dump(m, open('/verif/MANIFEST.json', 'w'), indent=1)
print("claimed:", sorted(checks), "pending:", sorted(pending))
