package main

// C19 — "Legacy 0.3.x backups restore to the right state or fail".
//
// Bounded-exhaustive enumeration of v0.3.x replica layouts generated from real
// SQLite histories (generations x WAL indexes x transactions, every split of a
// WAL into segments at transaction boundaries, every snapshot placement, every
// single-file removal, every boundary timestamp), restored with the real
// file.ReplicaClient + (*Replica).Restore and judged by an oracle that only
// uses the generator's knowledge of the history (c19OracleV3 / c19OracleFormat).

import (
	"bytes"
	"context"
	"crypto/sha256"
	"database/sql"
	"encoding/binary"
	"encoding/json"
	"errors"
	"fmt"
	"io/fs"
	"math/bits"
	"os"
	"path/filepath"
	"runtime"
	"sort"
	"strconv"
	"strings"
	"sync"
	"sync/atomic"
	"time"

	"github.com/benbjohnson/litestream"
	"github.com/benbjohnson/litestream/file"
	_ "modernc.org/sqlite"

	"lsverif/ev"
	"lsverif/refwal"
	"lsverif/scn"
)

func init() { register("c19", c19) }

// ---------------------------------------------------------------------------
// History generator.

var c19Base = time.Unix(1700000000, 0).UTC()

// c19TimeUnit is the wall-clock length of one unit of the layouts' integer time axis (file k is created at 10k).
// One second by default; a phase may shrink it so that several files fall into the same wall-clock second (set
// by c19RunPhase before its workers start, phases run one after the other).
var c19TimeUnit = time.Second

func c19At(s int) time.Time { return c19Base.Add(time.Duration(s) * c19TimeUnit) }

// c19Hist are the parameters of one generating history.
type c19Hist struct {
	Mode     string  `json:"mode"`         // upd: 1-frame in-place updates (equal-size tx); upd2: 2-frame updates; ins: growing inserts
	PageSize int     `json:"page_size"`    // 512 or 1024
	Gens     [][]int `json:"tx_per_index"` // [generation][wal index] = number of transactions
}

func (h c19Hist) Key() string {
	var gs []string
	for _, g := range h.Gens {
		var is []string
		for _, n := range g {
			is = append(is, strconv.Itoa(n))
		}
		gs = append(gs, strings.Join(is, ","))
	}
	return fmt.Sprintf("%s/%d/%s", h.Mode, h.PageSize, strings.Join(gs, ";"))
}

type c19Idx struct {
	Snap   []byte   // main database file at the START of this WAL index (= v3 snapshot content)
	WAL    []byte   // complete WAL of this index
	Ends   []int64  // Ends[j] = WAL length after transaction j (Ends[0] = 0)
	States [][]byte // States[j] = database image after transaction j (States[0] = Snap)
	Frames []int    // frames written by transaction j (1-based; Frames[0] = 0)
}

type c19Data struct {
	H    c19Hist
	Gens [][]c19Idx
}

func c19Pay(tag string, n, size int) string {
	unit := fmt.Sprintf("%s%05d|", tag, n)
	var sb strings.Builder
	for sb.Len() < size {
		sb.WriteString(unit)
	}
	return sb.String()[:size]
}

// c19Generate runs the history on a real SQLite database (WAL mode,
// autocheckpoint off) and records every intermediate state.
func c19Generate(h c19Hist, dir string) (*c19Data, error) {
	ctx := context.Background()
	if err := os.MkdirAll(dir, 0o755); err != nil {
		return nil, err
	}
	dbPath := filepath.Join(dir, "src.db")
	for _, sfx := range []string{"", "-wal", "-shm"} {
		os.Remove(dbPath + sfx)
	}
	var db *sql.DB
	var conn *sql.Conn
	open := func() error {
		var err error
		if db, err = sql.Open("sqlite", "file:"+dbPath+"?_pragma=busy_timeout(0)"); err != nil {
			return err
		}
		db.SetMaxOpenConns(1)
		if conn, err = db.Conn(ctx); err != nil {
			return err
		}
		_, err = conn.ExecContext(ctx, "PRAGMA wal_autocheckpoint=0")
		return err
	}
	closeDB := func() {
		if conn != nil {
			conn.Close()
		}
		if db != nil {
			db.Close()
		}
		conn, db = nil, nil
	}
	defer closeDB()
	exec := func(q string, args ...any) error {
		_, err := conn.ExecContext(ctx, q, args...)
		return err
	}
	truncate := func() error {
		var busy, a, b int
		if err := conn.QueryRowContext(ctx, "PRAGMA wal_checkpoint(TRUNCATE)").Scan(&busy, &a, &b); err != nil {
			return err
		}
		if busy != 0 {
			return fmt.Errorf("generator: TRUNCATE checkpoint busy")
		}
		return nil
	}

	// Create and seed.
	if err := open(); err != nil {
		return nil, err
	}
	if err := exec(fmt.Sprintf("PRAGMA page_size=%d", h.PageSize)); err != nil {
		return nil, err
	}
	var mode string
	if err := conn.QueryRowContext(ctx, "PRAGMA journal_mode=wal").Scan(&mode); err != nil || mode != "wal" {
		return nil, fmt.Errorf("generator: journal_mode=%q err=%v", mode, err)
	}
	if err := exec("CREATE TABLE t (id INTEGER PRIMARY KEY, v TEXT)"); err != nil {
		return nil, err
	}
	for i := 1; i <= 6; i++ {
		if err := exec("INSERT INTO t (id, v) VALUES (?, ?)", i, c19Pay("seed", i, 200)); err != nil {
			return nil, err
		}
	}
	var ps int
	if err := conn.QueryRowContext(ctx, "PRAGMA page_size").Scan(&ps); err != nil || ps != h.PageSize {
		return nil, fmt.Errorf("generator: page size %d, wanted %d (%v)", ps, h.PageSize, err)
	}
	if err := truncate(); err != nil {
		return nil, err
	}
	closeDB()

	txn := 0
	doTx := func() error {
		txn++
		switch h.Mode {
		case "upd":
			return exec("UPDATE t SET v=? WHERE id=1", c19Pay("u", txn, 200))
		case "upd2":
			if err := exec("BEGIN IMMEDIATE"); err != nil {
				return err
			}
			if err := exec("UPDATE t SET v=? WHERE id=1", c19Pay("u", txn, 200)); err != nil {
				return err
			}
			if err := exec("UPDATE t SET v=? WHERE id=6", c19Pay("w", txn, 200)); err != nil {
				return err
			}
			return exec("COMMIT")
		case "ins":
			return exec("INSERT INTO t (v) VALUES (?)", c19Pay("i", txn, 200))
		}
		return fmt.Errorf("generator: unknown mode %q", h.Mode)
	}

	d := &c19Data{H: h}
	for g, idxs := range h.Gens {
		if g > 0 {
			// A write that no generation replicated: a new generation starts
			// from a database that is not the end state of the previous one.
			if err := open(); err != nil {
				return nil, err
			}
			if err := exec("UPDATE t SET v=? WHERE id=3", c19Pay("lost", g, 200)); err != nil {
				return nil, err
			}
			if err := truncate(); err != nil {
				return nil, err
			}
			closeDB()
		}
		var gen []c19Idx
		for i, ntx := range idxs {
			if ntx < 1 {
				return nil, fmt.Errorf("generator: index with no transaction")
			}
			snap, err := os.ReadFile(dbPath) // no connection is open here
			if err != nil {
				return nil, err
			}
			if err := open(); err != nil {
				return nil, err
			}
			ix := c19Idx{Snap: snap, Ends: []int64{0}, Frames: []int{0}}
			for j := 1; j <= ntx; j++ {
				if err := doTx(); err != nil {
					return nil, fmt.Errorf("generator: g%d i%d tx%d: %w", g, i, j, err)
				}
				wal, err := os.ReadFile(dbPath + "-wal")
				if err != nil {
					return nil, err
				}
				if int64(len(wal)) <= ix.Ends[j-1] {
					return nil, fmt.Errorf("generator: g%d i%d tx%d wrote nothing to the WAL", g, i, j)
				}
				ix.Ends = append(ix.Ends, int64(len(wal)))
				ix.WAL = wal
			}
			if err := truncate(); err != nil {
				return nil, err
			}
			closeDB()
			final, err := os.ReadFile(dbPath)
			if err != nil {
				return nil, err
			}
			fsz := int64(h.PageSize + refwal.FrameHeaderSize)
			ix.States = [][]byte{snap}
			for j := 1; j <= ntx; j++ {
				img, r, err := refwal.Apply(snap, ix.WAL[:ix.Ends[j]])
				if err != nil {
					return nil, err
				}
				if r.EndOffset != ix.Ends[j] {
					return nil, fmt.Errorf("generator: g%d i%d tx%d: WAL prefix does not end at a commit (%d != %d)", g, i, j, r.EndOffset, ix.Ends[j])
				}
				prev := ix.Ends[j-1]
				if prev == 0 {
					prev = refwal.HeaderSize
				}
				ix.Frames = append(ix.Frames, int((ix.Ends[j]-prev)/fsz))
				ix.States = append(ix.States, img)
			}
			// Oracle self-check: the reference image of the whole WAL is what SQLite's own checkpoint produced.
			if !bytes.Equal(ix.States[ntx], final) {
				return nil, fmt.Errorf("generator: g%d i%d: refwal image differs from SQLite's checkpoint result", g, i)
			}
			gen = append(gen, ix)
		}
		d.Gens = append(d.Gens, gen)
	}
	for _, sfx := range []string{"", "-wal", "-shm"} {
		os.Remove(dbPath + sfx)
	}
	return d, nil
}

// ---------------------------------------------------------------------------
// Current-format (LTX) replica built by the real litestream DB/replica code.

type c19LTXFile struct {
	Rel   string // ltx/<level>/<name>
	Level int
	Data  []byte
	order int64
}

func c19BuildLTX() ([]c19LTXFile, error) {
	cfg := scn.DefaultConfig()
	cfg.RetentionEnabled = false
	s, err := scn.New(cfg)
	if err != nil {
		return nil, err
	}
	defer s.Destroy()
	s.DistinctMS = true
	for _, op := range []string{"W1", "SW", "W1", "SW", "SNAP", "W1", "SW", "SNAP", "W1", "SW"} {
		if o := s.Do(op); o.Illegal || o.Err != nil {
			return nil, fmt.Errorf("ltx builder: %s: %v", op, o)
		}
	}
	var out []c19LTXFile
	root := filepath.Join(s.ReplicaDir, "ltx")
	err = filepath.WalkDir(root, func(p string, de fs.DirEntry, err error) error {
		if err != nil || de.IsDir() {
			return err
		}
		rel, _ := filepath.Rel(s.ReplicaDir, p)
		parts := strings.Split(rel, string(filepath.Separator))
		if len(parts) != 3 || !strings.HasSuffix(rel, ".ltx") {
			return nil
		}
		lvl, _ := strconv.Atoi(parts[1])
		b, err := os.ReadFile(p)
		if err != nil {
			return err
		}
		fi, err := de.Info()
		if err != nil {
			return err
		}
		out = append(out, c19LTXFile{Rel: rel, Level: lvl, Data: b, order: fi.ModTime().UnixNano()})
		return nil
	})
	if err != nil {
		return nil, err
	}
	// Creation order: by the timestamp litestream gave the file; a compacted
	// file carries the timestamp of its newest input and was written after it.
	sort.SliceStable(out, func(i, j int) bool {
		if out[i].order != out[j].order {
			return out[i].order < out[j].order
		}
		if out[i].Level != out[j].Level {
			return out[i].Level < out[j].Level
		}
		return out[i].Rel < out[j].Rel
	})
	nsnap := 0
	for _, f := range out {
		if f.Level == litestream.SnapshotLevel {
			nsnap++
		}
	}
	if len(out) < 4 || nsnap < 1 {
		return nil, fmt.Errorf("ltx builder: unexpected replica shape (%d files, %d snapshots)", len(out), nsnap)
	}
	return out, nil
}

// ---------------------------------------------------------------------------
// Layouts and cases (also the replay format).

type c19Layout struct {
	Hist   c19Hist `json:"history"`
	Splits [][]int `json:"split_masks"`    // [gen][index]: bit (j-1) set = a segment boundary after transaction j (1 <= j < ntx)
	Snaps  []int   `json:"snapshot_masks"` // [gen]: bit i set = snapshot at index i exists
	LTX    string  `json:"ltx_variant"`    // "" | older | interleaved | newer
}

func (l c19Layout) String() string {
	var sp []string
	for _, g := range l.Splits {
		var is []string
		for _, m := range g {
			is = append(is, strconv.Itoa(m))
		}
		sp = append(sp, strings.Join(is, ","))
	}
	var sn []string
	for _, m := range l.Snaps {
		sn = append(sn, strconv.Itoa(m))
	}
	lt := l.LTX
	if lt == "" {
		lt = "none"
	}
	return fmt.Sprintf("hist=%s|split=%s|snap=%s|ltx=%s", l.Hist.Key(), strings.Join(sp, ";"), strings.Join(sn, ";"), lt)
}

type c19Case struct {
	Layout  c19Layout `json:"layout"`
	Removed string    `json:"removed"` // "" or the path of the removed file relative to the replica root
	Latest  bool      `json:"latest"`  // no timestamp
	T       int       `json:"t_s"`     // requested timestamp = 2023-11-14T22:13:20Z + t_s seconds (if !latest)
	// AfterFailed: the restore is the SECOND attempt into the same output path; the first one (no timestamp)
	// failed on the same replica. What a failed attempt leaves behind must not change a later result.
	AfterFailed bool `json:"after_failed_attempt,omitempty"`
	// UnitMS: milliseconds per unit of the time axis when not 1000 (several files within one wall-clock second)
	UnitMS int `json:"time_unit_ms,omitempty"`
}

func (c c19Case) TString() string {
	if c.Latest {
		return "latest"
	}
	if c.AfterFailed {
		return strconv.Itoa(c.T) + "/after-failed-attempt"
	}
	return strconv.Itoa(c.T)
}

const (
	c19Snap = iota
	c19Seg
	c19LTX
)

type c19File struct {
	Rel   string
	Kind  int
	Gen   int
	Index int
	Part  int // segment number within its index, Parts segments in total
	Parts int
	TxTo  int // the segment ends after transaction TxTo
	Off   int64
	Len   int64 // uncompressed bytes
	Level int   // LTX level
	At    int   // mtime = c19Base + At seconds
	Data  []byte
}

var c19GenIDs = []string{"bbbbbbbbbbbbbbbb", "aaaaaaaaaaaaaaaa", "cccccccccccccccc"} // name order != creation order on purpose

// c19LZ4 writes an LZ4 frame (magic, FLG=0x60: version 1 + independent blocks,
// BD=0x40: 64 KiB blocks, header checksum, stored blocks, end mark). A direct
// import of pierrec/lz4 would make `go build -mod=mod` rewrite harness/go.mod,
// so the frame is produced here; it is DECODED by the real pierrec reader
// inside file.ReplicaClient.OpenSnapshotV3/OpenWALSegmentV3.
func c19LZ4(b []byte) []byte {
	out := []byte{0x04, 0x22, 0x4d, 0x18, 0x60, 0x40}
	out = append(out, byte(c19XXH32(out[4:6])>>8))
	for len(b) > 0 {
		n := min(len(b), 64<<10)
		out = binary.LittleEndian.AppendUint32(out, uint32(n)|0x80000000)
		out = append(out, b[:n]...)
		b = b[n:]
	}
	return append(out, 0, 0, 0, 0)
}

func c19XXH32(b []byte) uint32 {
	const p1, p2, p3, p4, p5 uint32 = 2654435761, 2246822519, 3266489917, 668265263, 374761393
	rotl := func(x uint32, r uint) uint32 { return x<<r | x>>(32-r) }
	var h uint32
	i, n := 0, len(b)
	if n >= 16 {
		v := [4]uint32{p1, p2, 0, 0}
		v[0] += p2
		v[3] -= p1
		for ; i+16 <= n; i += 16 {
			for k := 0; k < 4; k++ {
				v[k] = rotl(v[k]+binary.LittleEndian.Uint32(b[i+4*k:])*p2, 13) * p1
			}
		}
		h = rotl(v[0], 1) + rotl(v[1], 7) + rotl(v[2], 12) + rotl(v[3], 18)
	} else {
		h = p5
	}
	h += uint32(n)
	for ; i+4 <= n; i += 4 {
		h = rotl(h+binary.LittleEndian.Uint32(b[i:])*p3, 17) * p4
	}
	for ; i < n; i++ {
		h = rotl(h+uint32(b[i])*p5, 11) * p1
	}
	h ^= h >> 15
	h *= p2
	h ^= h >> 13
	h *= p3
	h ^= h >> 16
	return h
}

// c19Built is a layout materialised as a file list (creation order for v3 files, then LTX files).
type c19Built struct {
	L     c19Layout
	D     *c19Data
	Files []c19File
	NV3   int
	// state lookup: image hash -> label, and the time the state became available
	stateLabel map[[32]byte]string
}

func c19BuildLayout(l c19Layout, d *c19Data, ltx []c19LTXFile) (*c19Built, error) {
	b := &c19Built{L: l, D: d, stateLabel: map[[32]byte]string{}}
	if len(l.Splits) != len(d.Gens) || len(l.Snaps) != len(d.Gens) {
		return nil, fmt.Errorf("layout does not fit history")
	}
	at := 0
	for g, gen := range d.Gens {
		if len(l.Splits[g]) != len(gen) {
			return nil, fmt.Errorf("layout does not fit history")
		}
		for i, ix := range gen {
			if h := sha256.Sum256(ix.States[0]); b.stateLabel[h] == "" {
				b.stateLabel[h] = fmt.Sprintf("g%d/i%d/tx0", g, i)
			}
			if l.Snaps[g]&(1<<uint(i)) != 0 {
				at += 10
				b.Files = append(b.Files, c19File{
					Rel:  filepath.Join("generations", c19GenIDs[g], "snapshots", litestream.FormatSnapshotFilenameV3(i)),
					Kind: c19Snap, Gen: g, Index: i, At: at, Data: c19LZ4(ix.Snap), Len: int64(len(ix.Snap)),
				})
			}
			ntx := len(ix.Ends) - 1
			var cuts []int // transaction numbers at which a segment ends
			for j := 1; j < ntx; j++ {
				if l.Splits[g][i]&(1<<uint(j-1)) != 0 {
					cuts = append(cuts, j)
				}
			}
			cuts = append(cuts, ntx)
			from := 0
			for p, to := range cuts {
				at += 10
				off := ix.Ends[from]
				b.Files = append(b.Files, c19File{
					Rel:  filepath.Join("generations", c19GenIDs[g], "wal", litestream.FormatWALSegmentFilenameV3(i, off)),
					Kind: c19Seg, Gen: g, Index: i, Part: p, Parts: len(cuts), TxTo: to, Off: off, Len: ix.Ends[to] - off,
					At: at, Data: c19LZ4(ix.WAL[off:ix.Ends[to]]),
				})
				from = to
			}
			for j := 1; j <= ntx; j++ {
				b.stateLabel[sha256.Sum256(ix.States[j])] = fmt.Sprintf("g%d/i%d/tx%d", g, i, j)
			}
		}
	}
	b.NV3 = len(b.Files)
	if l.LTX != "" {
		n, m := b.NV3, len(ltx)
		slot := map[int]int{}
		for j, f := range ltx {
			var t int
			switch l.LTX {
			case "older":
				t = 5 - 10*(m-j) // all before the first v3 file (t=10), and >= 5-10m
			case "newer":
				t = 10*n + 10*(j+1)
			case "interleaved":
				p := j * n / m // after v3 file number p (0 = before the first)
				t = 10*p + 4 + slot[p]
				slot[p]++
			default:
				return nil, fmt.Errorf("unknown ltx variant %q", l.LTX)
			}
			b.Files = append(b.Files, c19File{Rel: f.Rel, Kind: c19LTX, Level: f.Level, At: t, Data: f.Data, Len: int64(len(f.Data))})
		}
	}
	return b, nil
}

func (b *c19Built) find(rel string) int {
	for i, f := range b.Files {
		if f.Rel == rel {
			return i
		}
	}
	return -1
}

// role classifies a removed file by its position in the generating layout.
func (b *c19Built) role(i int) string {
	if i < 0 {
		return "none"
	}
	f := b.Files[i]
	if f.Kind == c19Snap {
		return "snapshot"
	}
	if f.Kind == c19LTX {
		return "ltx-file"
	}
	last := f.Index == len(b.D.Gens[f.Gen])-1
	switch {
	case f.Parts == 1 && last:
		return "whole-final-index"
	case f.Parts == 1:
		return "whole-nonfinal-index"
	case f.Part == 0 && f.Index == 0:
		return "first-segment-of-index0"
	case f.Part == 0:
		return "first-segment-of-index>0"
	case f.Part == f.Parts-1 && last:
		return "tail-of-final-index"
	case f.Part == f.Parts-1:
		return "tail-of-nonfinal-index"
	}
	return "middle-segment"
}

// collide tells, for a removed first segment of index i>0, whether the next
// segment of that index starts at exactly the byte length of WAL index i-1.
func (b *c19Built) collide(i int) string {
	if i < 0 {
		return "n/a"
	}
	f := b.Files[i]
	if f.Kind != c19Seg || f.Part != 0 || f.Index == 0 || f.Parts < 2 {
		return "n/a"
	}
	prev := b.D.Gens[f.Gen][f.Index-1]
	next := b.Files[i+1] // creation order: the following segment of the same index
	if next.Kind != c19Seg || next.Index != f.Index || next.Gen != f.Gen {
		return "n/a"
	}
	if next.Off == int64(len(prev.WAL)) {
		return "offsets-collide"
	}
	return "offsets-differ"
}

// ---------------------------------------------------------------------------
// Oracle (uses only the generator's knowledge: file roles, times, recorded states).

type c19Exp struct {
	Err   string // "", "no-snapshot", "gap"
	State []byte
	Label string
	Why   string
	Shape string // snapshot-only | mid-index | end-of-index (for outcome classes)
}

func c19Eligible(f *c19File, latest bool, T int) bool { return latest || f.At <= T }

// c19OracleV3: start at the newest snapshot with CreatedAt <= T over all
// generations; follow that generation's segments in generation order from the
// snapshot's index while they are present and not newer than T; if any later
// present segment not newer than T lies beyond the first hole the restore must fail.
func c19OracleV3(b *c19Built, present []bool, latest bool, T int) c19Exp {
	best := -1
	for i := 0; i < b.NV3; i++ {
		f := &b.Files[i]
		if f.Kind == c19Snap && present[i] && c19Eligible(f, latest, T) && (best < 0 || f.At > b.Files[best].At) {
			best = i
		}
	}
	if best < 0 {
		return c19Exp{Err: "no-snapshot", Why: "no snapshot with CreatedAt <= T"}
	}
	sn := &b.Files[best]
	e := c19Exp{State: b.D.Gens[sn.Gen][sn.Index].States[0], Label: fmt.Sprintf("g%d/i%d/tx0", sn.Gen, sn.Index), Shape: "snapshot-only"}
	e.Why = "snapshot " + sn.Rel
	stopped, hole := false, ""
	for i := 0; i < b.NV3; i++ {
		f := &b.Files[i]
		if f.Kind != c19Seg || f.Gen != sn.Gen || f.Index < sn.Index {
			continue
		}
		ok := present[i] && c19Eligible(f, latest, T)
		if !stopped {
			if ok {
				e.State = b.D.Gens[f.Gen][f.Index].States[f.TxTo]
				e.Label = fmt.Sprintf("g%d/i%d/tx%d", f.Gen, f.Index, f.TxTo)
				if f.Part == f.Parts-1 {
					e.Shape = "end-of-index"
				} else {
					e.Shape = "mid-index"
				}
			} else {
				stopped, hole = true, f.Rel
			}
		} else if ok {
			return c19Exp{Err: "gap", Why: fmt.Sprintf("snapshot %s; segment %s is missing but the later segment %s (CreatedAt <= T) is present", sn.Rel, hole, f.Rel)}
		}
	}
	e.Why += "; contiguous run ends at " + e.Label
	return e
}

// c19OracleFormat: the rule of Restore's doc comment. With T: the format with
// the most recent eligible snapshot (v3: CreatedAt <= T; LTX level-9 file:
// CreatedAt < T, the planner's eligibility). Without T: the format holding the
// most recent file overall.
func c19OracleFormat(b *c19Built, present []bool, latest bool, T int) (string, string) {
	const none = -1 << 30
	v3, lx := none, none
	for i := range b.Files {
		f := &b.Files[i]
		if !present[i] {
			continue
		}
		if latest {
			if f.Kind == c19LTX {
				lx = max(lx, f.At)
			} else {
				v3 = max(v3, f.At)
			}
		} else {
			if f.Kind == c19LTX && f.Level == litestream.SnapshotLevel && f.At < T {
				lx = max(lx, f.At)
			} else if f.Kind == c19Snap && f.At <= T {
				v3 = max(v3, f.At)
			}
		}
	}
	why := fmt.Sprintf("newest eligible v3=%d ltx=%d", v3, lx)
	if v3 != none && (lx == none || v3 > lx) {
		return "v3", why
	}
	return "ltx", why
}

// ---------------------------------------------------------------------------
// Worker: materialises layouts in a private directory and runs the real restore.

type c19Stats struct {
	evals, restores, layouts int64
	restored, failed         int64
	violations               int64
	classes                  map[string]int64
	samples                  map[string]*c19Detail
	vioClasses               map[string]int64
	vioSample                map[string]string
}

func newC19Stats() *c19Stats {
	return &c19Stats{classes: map[string]int64{}, samples: map[string]*c19Detail{}, vioClasses: map[string]int64{}, vioSample: map[string]string{}}
}

func (s *c19Stats) merge(o *c19Stats) {
	s.evals += o.evals
	s.restores += o.restores
	s.layouts += o.layouts
	s.restored += o.restored
	s.failed += o.failed
	s.violations += o.violations
	for k, n := range o.classes {
		s.classes[k] += n
	}
	for k, d := range o.samples {
		if cur, ok := s.samples[k]; !ok || d.size() < cur.size() {
			s.samples[k] = d
		}
	}
	for k, n := range o.vioClasses {
		s.vioClasses[k] += n
	}
	for k, v := range o.vioSample {
		if cur, ok := s.vioSample[k]; !ok || len(v) < len(cur) || (len(v) == len(cur) && v < cur) {
			s.vioSample[k] = v
		}
	}
}

type c19Detail struct {
	Phase   string   `json:"phase,omitempty"`
	Case    c19Case  `json:"case"`
	Files   []string `json:"files"` // files present, "path@t_s"
	Frames  string   `json:"frames_per_tx"`
	Role    string   `json:"removed_role"`
	Collide string   `json:"offset_collision"`
	Format  string   `json:"expected_format"`
	Expect  string   `json:"expected"`
	Got     string   `json:"got"`
	Why     string   `json:"why"`
}

func (d *c19Detail) size() int { return len(d.Files)*1000 + len(d.Case.Layout.String()) }

type c19Verdict struct {
	Kind    string // "" = holds
	Sig     string
	Class   string
	Outcome string
	Detail  *c19Detail
}

type c19Worker struct {
	dir         string // private scratch
	repl        string // replica root
	ltxOnly     string // same LTX files alone (reference for the LTX side)
	seq         int
	st          *c19Stats
	rep         *ev.Reporter
	phase       string
	ltxExp      map[string]c19LTXExp
	afterFailed bool // restore() makes a failing attempt into the same output path first
}

type c19LTXExp struct {
	err error
	img []byte
}

func newC19Worker(root string, id int, rep *ev.Reporter) *c19Worker {
	w := &c19Worker{dir: filepath.Join(root, fmt.Sprintf("w%d", id)), st: newC19Stats(), rep: rep}
	w.repl = filepath.Join(w.dir, "replica")
	w.ltxOnly = filepath.Join(w.dir, "ltxonly")
	return w
}

func c19WriteFile(root string, f *c19File) error {
	p := filepath.Join(root, f.Rel)
	if err := os.MkdirAll(filepath.Dir(p), 0o755); err != nil {
		return err
	}
	if err := os.WriteFile(p, f.Data, 0o644); err != nil {
		return err
	}
	t := c19At(f.At)
	return os.Chtimes(p, t, t)
}

// load materialises the layout (all files present).
func (w *c19Worker) load(b *c19Built) error {
	os.RemoveAll(w.repl)
	os.RemoveAll(w.ltxOnly)
	w.ltxExp = map[string]c19LTXExp{}
	for i := range b.Files {
		f := &b.Files[i]
		if err := c19WriteFile(w.repl, f); err != nil {
			return err
		}
		if f.Kind == c19LTX {
			if err := c19WriteFile(w.ltxOnly, f); err != nil {
				return err
			}
		}
	}
	w.st.layouts++
	return nil
}

func (w *c19Worker) restore(root string, latest bool, T int) ([]byte, error) {
	w.seq++
	out := filepath.Join(w.dir, fmt.Sprintf("out-%d", w.seq))
	defer func() {
		for _, s := range []string{"", "-wal", "-shm", ".tmp", ".tmp-wal", ".tmp-shm"} {
			os.Remove(out + s)
		}
	}()
	c := file.NewReplicaClient(root)
	r := litestream.NewReplicaWithClient(nil, c)
	if w.afterFailed {
		first := litestream.NewRestoreOptions()
		first.OutputPath = out
		if err := r.Restore(context.Background(), first); err == nil {
			// the first attempt did not fail: nothing to follow up (the caller only asks when it should fail)
			os.Remove(out)
			os.Remove(out + "-wal")
			os.Remove(out + "-shm")
		}
		r = litestream.NewReplicaWithClient(nil, file.NewReplicaClient(root))
	}
	opt := litestream.NewRestoreOptions()
	opt.OutputPath = out
	if !latest {
		opt.Timestamp = c19At(T)
	}
	if err := r.Restore(context.Background(), opt); err != nil {
		return nil, err
	}
	return os.ReadFile(out)
}

func c19ErrClass(err error) string {
	s := err.Error()
	switch {
	case errors.Is(err, litestream.ErrNoSnapshots):
		return "err:no-snapshots"
	case strings.Contains(s, "missing WAL index"):
		return "err:missing-wal-index"
	case strings.Contains(s, "missing WAL segment"):
		return "err:missing-wal-segment"
	case errors.Is(err, litestream.ErrTxNotAvailable):
		return "err:ltx-tx-not-available"
	}
	return "err:other"
}

// eval runs one case on the loaded layout. removed = file number or -1.
func (w *c19Worker) eval(b *c19Built, removed int, latest bool, T int) (*c19Verdict, error) {
	present := make([]bool, len(b.Files))
	for i := range present {
		present[i] = i != removed
	}
	cs := c19Case{Layout: b.L, Latest: latest, T: T, AfterFailed: w.afterFailed && !latest}
	if c19TimeUnit != time.Second {
		cs.UnitMS = int(c19TimeUnit / time.Millisecond)
	}
	if removed >= 0 {
		cs.Removed = b.Files[removed].Rel
	}
	role, collide := b.role(removed), b.collide(removed)

	// Expected outcome.
	expV3 := c19OracleV3(b, present, latest, T)
	format, fwhy := "v3", ""
	exp := expV3
	var other, expL *c19Exp // other = the expectation of the format that must NOT be used
	if b.L.LTX != "" {
		key := cs.TString()
		le, ok := w.ltxExp[key]
		if !ok {
			le.img, le.err = w.restore(w.ltxOnly, latest, T)
			w.ltxExp[key] = le
		}
		expL = &c19Exp{State: le.img, Label: "ltx-state", Shape: "ltx", Why: "what the LTX files alone restore to for this T"}
		if le.err != nil {
			expL = &c19Exp{Err: "ltx-error", Why: "the LTX files alone do not restore for this T: " + le.err.Error()}
		}
		format, fwhy = c19OracleFormat(b, present, latest, T)
		if format == "ltx" {
			exp, other = *expL, &expV3
		} else {
			other = expL
		}
	}

	// Real restore.
	img, err := w.restore(w.repl, latest, T)
	w.st.restores++
	w.st.evals++

	got, outcome := "", ""
	gotLabel, gotKnown := "", false
	if err != nil {
		w.st.failed++
		got = "error: " + err.Error()
		outcome = c19ErrClass(err)
	} else {
		w.st.restored++
		h := sha256.Sum256(img)
		if gotLabel, gotKnown = b.stateLabel[h]; gotKnown {
			got = "database = state " + gotLabel
		} else if expL != nil && expL.Err == "" && bytes.Equal(img, expL.State) {
			got = "database = ltx-state"
		} else {
			got = fmt.Sprintf("database = unknown image (%d bytes, sha256 %x)", len(img), h[:6])
		}
	}

	v := &c19Verdict{}
	why := ""
	matches := func(e *c19Exp) bool {
		if e.Err != "" {
			return err != nil
		}
		return err == nil && bytes.Equal(img, e.State)
	}
	switch {
	case matches(&exp):
		if err == nil {
			outcome = "restored:" + exp.Shape
		}
	case other != nil && matches(other):
		v.Kind = "wrong-format-chosen"
		why = fmt.Sprintf("the rule selects %s (%s) but the result is what the other format yields", format, fwhy)
	case exp.Err == "gap" && err == nil:
		v.Kind = "missing-segment-not-detected"
		if role == "tail-of-nonfinal-index" {
			v.Kind = "missing-tail-not-detected"
		}
		why = "a database was produced although " + exp.Why
	case exp.Err != "" && err == nil:
		v.Kind = "restored-without-eligible-backup"
		why = "a database was produced although " + exp.Why
	case err != nil:
		v.Kind = "error-but-restorable"
		why = "restore failed although the layout restores to " + exp.Label
	default:
		v.Kind = "wrong-state"
		if gotKnown && !latest {
			// is the produced state only reachable through a file newer than T?
			if at, ok := b.stateTime(gotLabel, present); ok && at > T {
				v.Kind = "newer-than-T"
			}
		}
		why = "restored image differs from state " + exp.Label
	}
	if v.Kind != "" {
		outcome = "VIOLATION:" + v.Kind
	}
	tk := "ts"
	if latest {
		tk = "latest"
	}
	lt := b.L.LTX
	if lt == "" {
		lt = "none"
	}
	v.Outcome = outcome
	v.Class = fmt.Sprintf("gens=%d/idx=%d/rm=%s/T=%s/ltx=%s -> %s", len(b.D.Gens), c19MaxIdx(b.L.Hist), role, tk, lt, outcome)
	d := &c19Detail{Phase: w.phase, Case: cs, Role: role, Collide: collide, Format: format, Got: got, Why: why, Frames: c19FramesString(b.D)}
	if exp.Err != "" {
		d.Expect = "error (" + exp.Err + "): " + exp.Why
	} else {
		d.Expect = "database = state " + exp.Label + " (" + exp.Why + ")"
	}
	if fwhy != "" {
		d.Format = format + " (" + fwhy + ")"
	}
	for i, f := range b.Files {
		if present[i] {
			d.Files = append(d.Files, fmt.Sprintf("%s@%d", f.Rel, f.At))
		}
	}
	v.Detail = d
	if w.st.classes[v.Class]++; w.st.classes[v.Class] == 1 {
		w.st.samples[v.Class] = d
	}
	if v.Kind != "" {
		w.st.violations++
		v.Sig = fmt.Sprintf("%s|removed=%s|%s|%s|rm=%s|T=%s", v.Kind, role, collide, b.L.String(), cs.Removed, cs.TString())
		if cs.UnitMS > 0 {
			v.Sig += fmt.Sprintf("|unit=%dms", cs.UnitMS)
		}
		vc := fmt.Sprintf("%s|removed=%s|%s|ltx=%s", v.Kind, role, collide, lt)
		w.st.vioClasses[vc]++
		if cur, ok := w.st.vioSample[vc]; !ok || len(v.Sig) < len(cur) {
			w.st.vioSample[vc] = v.Sig
		}
		if w.rep != nil && w.rep.Unknown() < c19MaxStored {
			w.rep.Report(&ev.Violation{Kind: v.Kind, Signature: v.Sig, Detail: d})
		}
	}
	return v, nil
}

const c19MaxStored = 300

// stateTime: the mtime of the present file that ends at the labelled state.
func (b *c19Built) stateTime(label string, present []bool) (int, bool) {
	for i := 0; i < b.NV3; i++ {
		f := &b.Files[i]
		if !present[i] {
			continue
		}
		if f.Kind == c19Seg && fmt.Sprintf("g%d/i%d/tx%d", f.Gen, f.Index, f.TxTo) == label {
			return f.At, true
		}
		if f.Kind == c19Snap && fmt.Sprintf("g%d/i%d/tx0", f.Gen, f.Index) == label {
			return f.At, true
		}
	}
	return 0, false
}

func c19MaxIdx(h c19Hist) int {
	m := 0
	for _, g := range h.Gens {
		m = max(m, len(g))
	}
	return m
}

func c19FramesString(d *c19Data) string {
	var gs []string
	for _, g := range d.Gens {
		var is []string
		for _, ix := range g {
			var fs []string
			for _, n := range ix.Frames[1:] {
				fs = append(fs, strconv.Itoa(n))
			}
			is = append(is, strings.Join(fs, "+"))
		}
		gs = append(gs, strings.Join(is, ","))
	}
	return strings.Join(gs, ";")
}

// withRemoved runs f with file i moved out of the replica.
func (w *c19Worker) withRemoved(b *c19Built, i int, f func() error) error {
	if i < 0 {
		return f()
	}
	p := filepath.Join(w.repl, b.Files[i].Rel)
	stash := filepath.Join(w.dir, "stash")
	if err := os.Rename(p, stash); err != nil {
		return err
	}
	err := f()
	if e := os.Rename(stash, p); e != nil && err == nil {
		err = e
	}
	return err
}

// ---------------------------------------------------------------------------
// Enumeration.

// c19Times lists the timestamps for a layout. mode "all": latest + (t-1, t,
// t+1) of every file; "exact": latest + t of every file + (first-1) + (last+1).
func c19Times(b *c19Built, mode string) (ts []int) {
	seen := map[int]bool{}
	add := func(t int) {
		if !seen[t] {
			seen[t] = true
			ts = append(ts, t)
		}
	}
	first, last := 1<<30, -1<<30
	for _, f := range b.Files {
		first = min(first, f.At)
		if mode == "all" {
			add(f.At - 1)
			add(f.At)
			add(f.At + 1)
		} else {
			add(f.At)
		}
		last = max(last, f.At)
	}
	add(first - 1)
	add(last + 1)
	sort.Ints(ts)
	return ts
}

type c19Unit struct { // one layout with its removal/timestamp product
	L       c19Layout
	Times   string // all | exact
	Removal string // all | v3 | none
}

type c19Phase struct {
	Name   string
	Desc   string
	Units  []c19Unit
	UnitMS int // 0 = 1000: milliseconds per unit of the time axis
}

type c19PhaseResult struct {
	Name        string  `json:"name"`
	Desc        string  `json:"what"`
	Layouts     int     `json:"layouts_total"`
	LayoutsDone int     `json:"layouts_done"`
	Evaluations int64   `json:"evaluations"`
	Violations  int64   `json:"violations"`
	Exhaustive  bool    `json:"exhaustive"`
	WallS       float64 `json:"wall_s"`
}

// c19Splits returns every split-mask combination for one generation's tx counts.
func c19Splits(tx []int) [][]int {
	out := [][]int{{}}
	for _, n := range tx {
		var nxt [][]int
		for _, pre := range out {
			for m := 0; m < 1<<uint(n-1); m++ {
				nxt = append(nxt, append(append([]int{}, pre...), m))
			}
		}
		out = nxt
	}
	return out
}

// c19LayoutsFor enumerates split x snapshot-set combinations of a history.
// allowEmptySnap: a generation may have no snapshot at all as long as one generation has one.
func c19LayoutsFor(h c19Hist, ltx string, allowEmptySnap bool) []c19Layout {
	var perGenSplits [][][]int
	var perGenSnaps [][]int
	for _, tx := range h.Gens {
		perGenSplits = append(perGenSplits, c19Splits(tx))
		var sn []int
		lo := 1
		if allowEmptySnap {
			lo = 0
		}
		for m := lo; m < 1<<uint(len(tx)); m++ {
			sn = append(sn, m)
		}
		perGenSnaps = append(perGenSnaps, sn)
	}
	var out []c19Layout
	var rec func(g int, sp [][]int, sn []int)
	rec = func(g int, sp [][]int, sn []int) {
		if g == len(h.Gens) {
			any := false
			for _, m := range sn {
				if m != 0 {
					any = true
				}
			}
			if any {
				out = append(out, c19Layout{Hist: h, Splits: append([][]int{}, sp...), Snaps: append([]int{}, sn...), LTX: ltx})
			}
			return
		}
		for _, s := range perGenSplits[g] {
			for _, m := range perGenSnaps[g] {
				rec(g+1, append(sp, s), append(sn, m))
			}
		}
	}
	rec(0, nil, nil)
	return out
}

func c19Hists(mode string, ps int, gens ...[][]int) []c19Hist {
	var out []c19Hist
	for _, g := range gens {
		out = append(out, c19Hist{Mode: mode, PageSize: ps, Gens: g})
	}
	return out
}

func c19Units(hs []c19Hist, ltx []string, allowEmpty bool, times, removal string) []c19Unit {
	var out []c19Unit
	for _, h := range hs {
		for _, lv := range ltx {
			for _, l := range c19LayoutsFor(h, lv, allowEmpty) {
				out = append(out, c19Unit{L: l, Times: times, Removal: removal})
			}
		}
	}
	return out
}

func c19Phases(thorough bool) []*c19Phase {
	g := func(idx ...int) [][]int { return [][]int{idx} }
	var ps []*c19Phase
	// 1. The full product on one generation, <=2 indexes, <=2 tx each (equal-size transactions => colliding offsets).
	ps = append(ps, &c19Phase{Name: "g1-i2-tx2-full",
		Desc:  "1 generation; tx per index in {(1),(2),(1,1),(1,2),(2,1),(2,2)}; mode upd (1 frame per tx, page 512); every split; every non-empty snapshot set; removal of none / every single file; T in latest + (t-1,t,t+1) of every file",
		Units: c19Units(c19Hists("upd", 512, g(1), g(2), g(1, 1), g(1, 2), g(2, 1), g(2, 2)), []string{""}, false, "all", "all")})
	// 2. Format arbitration.
	ps = append(ps, &c19Phase{Name: "arbitration",
		Desc:  "1 generation tx (1,2) and (2,1), every split and snapshot set, combined with the LTX replica placed older than / interleaved with / newer than the v3 files; removal of none / every single v3 file; T in latest + (t-1,t,t+1) of every v3 and LTX file",
		Units: c19Units(c19Hists("upd", 512, g(1, 2), g(2, 1)), []string{"older", "interleaved", "newer"}, false, "all", "v3")})
	// 2b. Format arbitration across two legacy generations (directory names sort opposite to creation order, so
	// "the newest legacy file" is not in the last-listed generation).
	ps = append(ps, &c19Phase{Name: "arbitration-g2",
		Desc:  "2 generations tx ((1),(1)) and ((2),(1,1)), every split and snapshot set incl. a generation without snapshot, combined with the LTX replica placed older than / interleaved with / newer than the v3 files; removal of none / every single v3 file; T in latest + exact mtime of every file + first-1 + last+1",
		Units: c19Units(c19Hists("upd", 512, [][]int{{1}, {1}}, [][]int{{2}, {1, 1}}), []string{"older", "interleaved", "newer"}, true, "exact", "v3")})
	// 2c. The same two-generation layouts with and without LTX files on a 10 ms time axis: all files of a layout are
	// created within one or two wall-clock seconds (ordering decisions must not depend on a coarser clock).
	ps = append(ps, &c19Phase{Name: "g2-subsecond", UnitMS: 10,
		Desc: "as arbitration-g2 plus the same histories without LTX files, 10 ms per time unit (files 100 ms apart); removal of none / every single v3 file; T in latest + exact mtime of every file + first-1 + last+1",
		Units: append(c19Units(c19Hists("upd", 512, [][]int{{1}, {1}}, [][]int{{2}, {1, 1}}), []string{"interleaved", "newer"}, true, "exact", "v3"),
			c19Units(c19Hists("upd", 512, [][]int{{1}, {1}}, [][]int{{2}, {1, 1}}), []string{""}, true, "exact", "v3")...)})
	// 3. Three transactions / three indexes, reduced timestamps.
	ps = append(ps, &c19Phase{Name: "g1-i3-tx3-reduced",
		Desc:  "1 generation; tx per index in {(3),(1,3),(2,3),(1,1,1),(1,1,2),(1,2,3)}; mode upd; every split; every non-empty snapshot set; removal of none / every single file; T in latest + exact mtime of every file + first-1 + last+1",
		Units: c19Units(c19Hists("upd", 512, g(3), g(1, 3), g(2, 3), g(1, 1, 1), g(1, 1, 2), g(1, 2, 3)), []string{""}, false, "exact", "all")})
	// 4. Two generations.
	ps = append(ps, &c19Phase{Name: "g2-reduced",
		Desc:  "2 generations (a lost write in between; generation directory names sort opposite to creation order); tx ((1,2),(1,2)) and ((2),(2,1)); every split; every snapshot set incl. a generation without snapshot; removal of none / every single file; T in latest + exact mtime of every file + first-1 + last+1",
		Units: c19Units(c19Hists("upd", 512, [][]int{{1, 2}, {1, 2}}, [][]int{{2}, {2, 1}}), []string{""}, true, "exact", "all")})
	// 5. Other transaction shapes.
	ps = append(ps, &c19Phase{Name: "shapes",
		Desc:  "1 generation tx (1,2),(2,2) with mode ins (growing table, 1-3 frames per tx, page 512) and mode upd2 (2 frames per tx, page 1024); every split, snapshot set, single removal; T in latest + exact mtime of every file + first-1 + last+1",
		Units: append(c19Units(c19Hists("ins", 512, g(1, 2), g(2, 2)), []string{""}, false, "exact", "all"), c19Units(c19Hists("upd2", 1024, g(1, 2), g(2, 2)), []string{""}, false, "exact", "all")...)})
	if thorough {
		ps = append(ps, &c19Phase{Name: "T-arbitration-full",
			Desc:  "every 1-generation tx vector in {1,2}^n, n<=2 and 2-generation ((1,2),(1,2)) x 3 LTX placements; every split, snapshot set (incl. empty per generation); single v3 removals; all timestamps (t-1,t,t+1)",
			Units: c19Units(append(c19AllVectors("upd", 512, 2, 2), c19Hist{Mode: "upd", PageSize: 512, Gens: [][]int{{1, 2}, {1, 2}}}), []string{"older", "interleaved", "newer"}, true, "all", "v3")})
		ps = append(ps, &c19Phase{Name: "T-shapes-full",
			Desc:  "modes ins (page 512) and upd2 (page 1024), every 1-generation tx vector in {1,2}^n, n<=3; every split, snapshot set, single removal; all timestamps",
			Units: append(c19Units(c19AllVectors("ins", 512, 3, 2), []string{""}, false, "all", "all"), c19Units(c19AllVectors("upd2", 1024, 3, 2), []string{""}, false, "all", "all")...)})
		ps = append(ps, &c19Phase{Name: "T-g2-full",
			Desc:  "2 generations, each every tx vector in {1,2}^n, n<=2; mode upd; every split, snapshot set (incl. empty per generation), single removal; all timestamps",
			Units: c19Units(c19TwoGen("upd", 512), []string{""}, true, "all", "all")})
		ps = append(ps, &c19Phase{Name: "T-g1-i3-full",
			Desc:  "1 generation; every tx vector in {1,2,3}^n, n<=3; mode upd; every split, snapshot set, single removal; all timestamps",
			Units: c19Units(c19AllVectors("upd", 512, 3, 3), []string{""}, false, "all", "all")})
	}
	return ps
}

func c19AllVectors(mode string, ps, maxIdx, maxTx int) []c19Hist {
	var out []c19Hist
	for n := 1; n <= maxIdx; n++ {
		v := make([]int, n)
		for i := range v {
			v[i] = 1
		}
		for {
			out = append(out, c19Hist{Mode: mode, PageSize: ps, Gens: [][]int{append([]int{}, v...)}})
			i := n - 1
			for i >= 0 && v[i] == maxTx {
				v[i] = 1
				i--
			}
			if i < 0 {
				break
			}
			v[i]++
		}
	}
	return out
}

func c19TwoGen(mode string, ps int) []c19Hist {
	one := c19AllVectors(mode, ps, 2, 2)
	var out []c19Hist
	for _, a := range one {
		for _, b := range one {
			out = append(out, c19Hist{Mode: mode, PageSize: ps, Gens: [][]int{a.Gens[0], b.Gens[0]}})
		}
	}
	return out
}

// ---------------------------------------------------------------------------
// Shared, lazily generated histories.

type c19Gen struct {
	mu    sync.Mutex
	dir   string
	cache map[string]*c19Data
	ltx   []c19LTXFile
	n     int
}

func (g *c19Gen) get(h c19Hist) (*c19Data, error) {
	g.mu.Lock()
	defer g.mu.Unlock()
	if d, ok := g.cache[h.Key()]; ok {
		return d, nil
	}
	g.n++
	d, err := c19Generate(h, filepath.Join(g.dir, fmt.Sprintf("gen%d", g.n)))
	if err != nil {
		return nil, err
	}
	g.cache[h.Key()] = d
	return d, nil
}

func (w *c19Worker) runUnit(g *c19Gen, u c19Unit) error {
	d, err := g.get(u.L.Hist)
	if err != nil {
		return err
	}
	b, err := c19BuildLayout(u.L, d, g.ltx)
	if err != nil {
		return err
	}
	if err := w.load(b); err != nil {
		return err
	}
	ts := c19Times(b, u.Times)
	rem := []int{-1}
	switch u.Removal {
	case "all":
		for i := range b.Files {
			rem = append(rem, i)
		}
	case "v3":
		for i := 0; i < b.NV3; i++ {
			rem = append(rem, i)
		}
	}
	for _, r := range rem {
		err := w.withRemoved(b, r, func() error {
			var latestFailed bool
			if v, err := w.eval(b, r, true, 0); err != nil {
				return err
			} else {
				latestFailed = strings.HasPrefix(v.Detail.Got, "error:")
			}
			for _, t := range ts {
				if _, err := w.eval(b, r, false, t); err != nil {
					return err
				}
			}
			// second attempts: when the restore without timestamp fails on this replica, every timestamped restore
			// is repeated into an output path on which that failing attempt has just been made
			if latestFailed && u.L.LTX == "" {
				w.afterFailed = true
				defer func() { w.afterFailed = false }()
				for _, t := range ts {
					if _, err := w.eval(b, r, false, t); err != nil {
						return err
					}
				}
				w.afterFailed = false
			}
			return nil
		})
		if err != nil {
			return err
		}
	}
	return nil
}

func c19RunPhase(p *c19Phase, g *c19Gen, root string, rep *ev.Reporter, deadline time.Time, total *c19Stats) (c19PhaseResult, error) {
	t0 := time.Now()
	c19TimeUnit = time.Second
	if p.UnitMS > 0 {
		c19TimeUnit = time.Duration(p.UnitMS) * time.Millisecond
	}
	defer func() { c19TimeUnit = time.Second }()
	nw := min(runtime.GOMAXPROCS(0), 8)
	var next, done int64
	var mu sync.Mutex
	var wg sync.WaitGroup
	var firstErr error
	st := newC19Stats()
	for i := 0; i < nw; i++ {
		wg.Add(1)
		go func(id int) {
			defer wg.Done()
			w := newC19Worker(root, id, rep)
			w.phase = p.Name
			for {
				if time.Now().After(deadline) {
					break
				}
				c := int(atomic.AddInt64(&next, 1) - 1)
				if c >= len(p.Units) {
					break
				}
				if err := w.runUnit(g, p.Units[c]); err != nil {
					mu.Lock()
					if firstErr == nil {
						firstErr = fmt.Errorf("%s: %s: %w", p.Name, p.Units[c].L, err)
					}
					mu.Unlock()
					break
				}
				atomic.AddInt64(&done, 1)
			}
			mu.Lock()
			st.merge(w.st)
			mu.Unlock()
			os.RemoveAll(w.dir)
		}(i)
	}
	wg.Wait()
	total.merge(st)
	return c19PhaseResult{Name: p.Name, Desc: p.Desc, Layouts: len(p.Units), LayoutsDone: int(done), Evaluations: st.evals, Violations: st.violations,
		Exhaustive: int(done) == len(p.Units), WallS: float64(time.Since(t0).Milliseconds()) / 1000}, firstErr
}

// ---------------------------------------------------------------------------

const c19Rule = "Every case = (generating history, split masks, snapshot set, LTX placement, one removed file or none, T) restored with the real file.ReplicaClient + Replica.Restore into a fresh path. " +
	"GENERATOR: a real SQLite database (page 512/1024, WAL, wal_autocheckpoint=0, table t(id,v) seeded with 6 rows) runs, per generation and per WAL index, 1-3 transactions (mode upd: one in-place UPDATE = 1 frame, so all transactions have equal WAL length and segment offsets of different indexes coincide; upd2: 2 frames; ins: INSERT into a growing table, 1-3 frames); after each transaction the WAL length is recorded and the database state is computed with the spec-derived refwal.Apply(main file at index start, WAL prefix); the index ends with PRAGMA wal_checkpoint(TRUNCATE) and the refwal image of the whole WAL is asserted byte-equal to SQLite's own checkpoint result; between generations one unreplicated write is made. " +
	"LAYOUT: v3 snapshot i = LZ4 frame of the main database file at the start of WAL index i (generations/<id>/snapshots/<%08x>.snapshot.lz4), WAL index i cut into segments at the transaction boundaries chosen by the split mask (generations/<id>/wal/<%08x index>_<%08x offset>.wal.lz4); mtimes strictly increasing by 10 s in creation order (snapshot i, then its segments; generation 0 before generation 1, whose directory name sorts first). LTX placement: the ltx/ tree written by a real litestream DB (ops W1 SW W1 SW SNAP W1 SW SNAP W1 SW; the resulting level-0 files and level-9 snapshot file(s) are listed in ltx_files in creation order) is copied next to generations/ with mtimes all older / interleaved / all newer. " +
	"ORACLE (generator knowledge only): pick the newest present snapshot with mtime <= T (any generation; none => error expected); walk that generation's segments of index >= snapshot index in generation order while present and mtime <= T; expected database = recorded state at the end of the last such segment (snapshot state if none); if a present segment with mtime <= T lies beyond the first hole an error is expected instead of a database. The restored file is compared BYTE FOR BYTE with the expected image (RestoreV3 checkpoints through SQLite, which yields exactly the image of a full checkpoint; no header exception was needed). " +
	"ARBITRATION: with T the format holding the newer eligible snapshot must be used (v3 snapshot mtime <= T, LTX level-9 file mtime < T as in the planner), without T the format holding the newest file; the LTX side's expected result is what the same LTX files restore to alone for that T; result must equal the chosen format's expectation, a result equal to the other format's is 'wrong-format-chosen'. " +
	"KINDS: missing-segment-not-detected (database although a later segment lies beyond a hole; signature carries removed=<role> and offsets-collide/offsets-differ = whether the segment following a removed first segment of index i>0 starts exactly at the byte length of WAL index i-1), missing-tail-not-detected (the removed file is the LAST segment of a non-final index: the file names of the layout are then those of a legitimate shorter history, so no implementation can see the hole from names; reported separately), restored-without-eligible-backup, error-but-restorable, wrong-state, newer-than-T, wrong-format-chosen. " +
	"distinct_nontrivial = number of distinct (layout class = generations/max indexes/removed-file role/latest-or-timestamp/LTX placement, outcome class = restored:snapshot-only|mid-index|end-of-index|ltx, err:<which error>, VIOLATION:<kind>) pairs observed, counted with a map; samples = smallest case of each class (capped). Enumerations run in a fixed order, smallest phase first; a phase cut by the time budget is reported with exhaustive=false."

// c19UnitEvals counts the cases of a unit without running them (nltx = number of LTX files).
func c19UnitEvals(u c19Unit, nltx int) int64 {
	nv3 := 0
	for g := range u.L.Hist.Gens {
		nv3 += bits.OnesCount(uint(u.L.Snaps[g]))
		for _, m := range u.L.Splits[g] {
			nv3 += bits.OnesCount(uint(m)) + 1
		}
	}
	n := nv3
	if u.L.LTX != "" {
		n += nltx
	}
	ts := 1 + n + 2 // latest, exact, first-1, last+1
	if u.Times == "all" {
		ts = 1 + 3*n // upper bound: neighbouring LTX times may coincide
	}
	rm := 1
	switch u.Removal {
	case "all":
		rm += n
	case "v3":
		rm += nv3
	}
	return int64(ts) * int64(rm)
}

func c19(args []string) int {
	if p := replayArg(args); p != "" {
		return c19Replay(p)
	}
	for _, a := range args {
		if a == "--count" { // size of every phase of both tiers, nothing is run
			for _, p := range c19Phases(true) {
				var n int64
				for _, u := range p.Units {
					n += c19UnitEvals(u, 6)
				}
				fmt.Printf("c19: phase %-22s layouts=%-6d evaluations<=%d\n", p.Name, len(p.Units), n)
			}
			return 0
		}
	}
	timer := ev.Start()
	budget := ev.Budget(80*time.Second, 25*time.Minute)
	deadline := time.Now().Add(budget)
	rep := ev.NewReporter("C19")
	thorough := ev.Tier() == "thorough"

	root := filepath.Join(scn.ScratchRoot, fmt.Sprintf("lsmc-%d", os.Getpid()), "c19")
	os.RemoveAll(root)
	if err := os.MkdirAll(root, 0o755); err != nil {
		fmt.Fprintln(os.Stderr, "c19:", err)
		return 2
	}
	defer os.RemoveAll(filepath.Dir(root))

	ltx, err := c19BuildLTX()
	if err != nil {
		fmt.Fprintln(os.Stderr, "c19:", err)
		os.RemoveAll(filepath.Dir(root))
		return 2
	}
	g := &c19Gen{dir: root, cache: map[string]*c19Data{}, ltx: ltx}

	total := newC19Stats()
	var results []c19PhaseResult
	exhaustive := true
	for _, p := range c19Phases(thorough) {
		r, err := c19RunPhase(p, g, root, rep, deadline, total)
		if err != nil {
			fmt.Fprintln(os.Stderr, "c19: harness error:", err)
			os.RemoveAll(filepath.Dir(root))
			return 2
		}
		results = append(results, r)
		fmt.Printf("c19: phase %-20s layouts %d/%d evaluations=%d violations=%d %.1fs\n", r.Name, r.LayoutsDone, r.Layouts, r.Evaluations, r.Violations, r.WallS)
		if !r.Exhaustive {
			exhaustive = false
		}
	}
	if total.evals == 0 {
		fmt.Fprintln(os.Stderr, "c19: nothing evaluated")
		os.RemoveAll(filepath.Dir(root))
		return 2
	}

	keys := make([]string, 0, len(total.classes))
	for k := range total.classes {
		keys = append(keys, k)
	}
	sort.Strings(keys)
	samples := []any{}
	step := max((len(keys)+29)/30, 1)
	for i := 0; i < len(keys); i += step {
		d := total.samples[keys[i]]
		samples = append(samples, map[string]any{"class": keys[i], "layout": d.Case.Layout.String(), "removed": d.Case.Removed, "T": d.Case.TString(),
			"files": d.Files, "expected": d.Expect, "got": d.Got})
	}
	covered := []string{}
	for _, r := range results {
		if r.Exhaustive {
			covered = append(covered, r.Name+": complete")
		} else {
			covered = append(covered, fmt.Sprintf("%s: first %d of %d layouts (budget ran out)", r.Name, r.LayoutsDone, r.Layouts))
		}
	}
	vk := make([]string, 0, len(total.vioClasses))
	for k := range total.vioClasses {
		vk = append(vk, k)
	}
	sort.Strings(vk)
	for _, k := range vk {
		fmt.Printf("c19: violation class %-90s n=%-5d e.g. %s\n", k, total.vioClasses[k], total.vioSample[k])
	}
	var ltxNames []string
	for _, f := range ltx {
		ltxNames = append(ltxNames, f.Rel)
	}
	e := &ev.Evidence{
		PropertyID: "C19", Tier: ev.Tier(), Seed: ev.Seed(), Level: "exploration",
		WallS: timer.S(), Violations: rep.Unknown(),
		Coverage: map[string]any{
			"evaluations":           total.evals,
			"distinct_nontrivial":   len(total.classes),
			"rule":                  c19Rule,
			"samples":               samples,
			"exhaustive":            exhaustive,
			"covered":               covered,
			"phases":                results,
			"layouts":               total.layouts,
			"restores_run":          total.restores,
			"databases_produced":    total.restored,
			"errors_returned":       total.failed,
			"violating_evaluations": total.violations,
			"violation_classes":     total.vioClasses,
			"classes":               total.classes,
			"histories_generated":   len(g.cache),
			"ltx_files":             ltxNames,
			"budget_s":              budget.Seconds(),
		},
		Assumptions: []string{
			"segment boundaries lie at transaction commits only (0.3.x wrote a segment per sync, which ends at a committed frame)",
			"file mtimes are strictly increasing in creation order (10 s apart); equal mtimes between v3 and LTX files are not generated",
			"only single-file removals; the removed LAST segment of a non-final index is judged under its own kind (missing-tail-not-detected) because the remaining file names form a legitimate layout of a shorter history",
			"the LTX side of the arbitration cases is judged against what the same LTX files restore to alone (LTX restore correctness is the subject of C03/C08)",
			"VERIF_SEED is not used: every enumeration is complete and in a fixed order",
		},
	}
	if err := ev.Write(e); err != nil {
		fmt.Fprintln(os.Stderr, "c19: write evidence:", err)
		os.RemoveAll(filepath.Dir(root))
		return 2
	}
	fmt.Printf("c19: tier=%s evaluations=%d layouts=%d histories=%d classes=%d databases=%d errors=%d violating=%d exhaustive=%v wall=%.1fs\n",
		ev.Tier(), total.evals, total.layouts, len(g.cache), len(total.classes), total.restored, total.failed, total.violations, exhaustive, timer.S())
	code := rep.Finish()
	os.RemoveAll(filepath.Dir(root))
	return code
}

// c19Replay regenerates the single layout of a replay file and re-evaluates it.
func c19Replay(path string) int {
	b, err := os.ReadFile(path)
	if err != nil {
		fmt.Fprintln(os.Stderr, "c19:", err)
		return 2
	}
	var doc struct {
		Kind      string    `json:"kind"`
		Signature string    `json:"signature"`
		Detail    c19Detail `json:"detail"`
	}
	if err := json.Unmarshal(b, &doc); err != nil {
		fmt.Fprintln(os.Stderr, "c19: bad replay file:", err)
		return 2
	}
	cs := doc.Detail.Case
	root := filepath.Join(scn.ScratchRoot, fmt.Sprintf("lsmc-%d", os.Getpid()), "c19")
	os.RemoveAll(root)
	if err := os.MkdirAll(root, 0o755); err != nil {
		fmt.Fprintln(os.Stderr, "c19:", err)
		return 2
	}
	defer os.RemoveAll(filepath.Dir(root))
	fail := func(err error) int {
		fmt.Fprintln(os.Stderr, "c19: replay:", err)
		os.RemoveAll(filepath.Dir(root))
		return 2
	}
	var ltx []c19LTXFile
	if cs.Layout.LTX != "" {
		if ltx, err = c19BuildLTX(); err != nil {
			return fail(err)
		}
	}
	d, err := c19Generate(cs.Layout.Hist, filepath.Join(root, "gen"))
	if err != nil {
		return fail(err)
	}
	bl, err := c19BuildLayout(cs.Layout, d, ltx)
	if err != nil {
		return fail(err)
	}
	w := newC19Worker(root, 0, nil)
	w.phase = "replay"
	if err := w.load(bl); err != nil {
		return fail(err)
	}
	rm := -1
	if cs.Removed != "" {
		if rm = bl.find(cs.Removed); rm < 0 {
			return fail(fmt.Errorf("removed file %q is not part of the layout", cs.Removed))
		}
	}
	var v *c19Verdict
	err = w.withRemoved(bl, rm, func() error {
		var err error
		w.afterFailed = cs.AfterFailed
		if cs.UnitMS > 0 {
			c19TimeUnit = time.Duration(cs.UnitMS) * time.Millisecond
		}
		v, err = w.eval(bl, rm, cs.Latest, cs.T)
		return err
	})
	if err != nil {
		return fail(err)
	}
	dd := v.Detail
	fmt.Printf("layout:   %s\nframes:   %s (per tx; ';' generations, ',' indexes)\nfiles:    %s\nremoved:  %s (%s, %s)\nT:        %s\nformat:   %s\nexpected: %s\ngot:      %s\n",
		cs.Layout, dd.Frames, strings.Join(dd.Files, " "), cs.Removed, dd.Role, dd.Collide, cs.TString(), dd.Format, dd.Expect, dd.Got)
	os.RemoveAll(filepath.Dir(root))
	if v.Kind != "" {
		fmt.Printf("verdict:  VIOLATES C19: %s: %s (recorded kind: %s)\n", v.Kind, dd.Why, doc.Kind)
		return 1
	}
	fmt.Println("verdict:  holds")
	return 0
}
