//go:build c12

package main

// C12: systematic schedule exploration (CHESS style: stateless depth-first search
// with replay, iterative preemption bounding) of litestream's real daemon operations.
// The binary is built by tools/build_c12.sh: litestream's packages are compiled from
// mechanically rewritten copies in which sync / semaphore / io.Pipe / go statements are
// the scheduler-aware shims of lsverif/vsync, so every lock acquisition is a scheduling
// point controlled by lsverif/vsched.
//
//	lsmc-c12 c12                      explore (parent: one worker subprocess per scenario), then the race pass
//	lsmc-c12 c12 --replay <file>      re-execute one recorded schedule step by step; exit 1 if it still violates
//	lsmc-c12 c12 --race-pass          only the free-running -race pass (needs <binary>-race next to the binary)
//	lsmc-c12 c12 --list               scenario table
//	lsmc-c12 c12worker <scn> <seconds> <min-bound> <max-bound>   (internal)
//
// Environment: C12_ONLY (comma-separated names/globs over ALL scenarios), C12_MAXBOUND (2), C12_PAR (6),
// C12_FS=off|mut|all, C12_SQL=on|off, C12_PIPE=handoff|prefer|preempt, C12_LEAF (non-preemptible objects),
// C12_NO_RACE=1, LSMC_BUDGET_S (exploration budget; the race pass adds 25 s quick / 5 min thorough).
//
// Violation kinds: deadlock, livelock-horizon, panic, lock-leaked, duplicate-upload, lock-discipline,
// instance-count, close-incomplete, handles-leaked-after-close, unmanaged-instance-open, replication-wedged,
// final-sync-hangs, final-close-hangs, handles-leaked-after-final-close, read-lock-leaked, the C01 kinds of
// scn.AckOracle (restore-differs, restore-failed, integrity-check-failed), the C02 kinds of c02Oracle,
// snapshot-invalid, snapshot-content-mismatch, data-race (race pass). Signature: kind|scenario|results|class.

import (
	"bytes"
	"context"
	"crypto/sha256"
	"database/sql"
	"encoding/hex"
	"encoding/json"
	"fmt"
	"os"
	"os/exec"
	"path/filepath"
	"reflect"
	"sort"
	"strconv"
	"strings"
	"sync"
	"syscall"
	"time"
	"unsafe"

	"github.com/benbjohnson/litestream"
	"github.com/superfly/ltx"

	"lsverif/ev"
	"lsverif/scn"
	"lsverif/vsched"
	"lsverif/vsync"
	"lsverif/vsync/vsem"
)

func init() {
	register("c12", c12)
	register("c12worker", c12worker)
}

// ---------------------------------------------------------------------------
// naming of shim objects (reflection over the unexported fields)

var (
	tMutex   = reflect.TypeOf(vsync.Mutex{})
	tRWMutex = reflect.TypeOf(vsync.RWMutex{})
	tWG      = reflect.TypeOf(vsync.WaitGroup{})
	tOnce    = reflect.TypeOf(vsync.Once{})
	tSem     = reflect.TypeOf(&vsem.Weighted{})
)

func c12NameStruct(prefix string, v reflect.Value, depth int) int {
	n := 0
	t := v.Type()
	for i := 0; i < t.NumField(); i++ {
		f, fv := t.Field(i), v.Field(i)
		name := prefix + "." + f.Name
		if f.Anonymous {
			name = prefix
		}
		switch {
		case f.Type == tMutex:
			vsync.NameMutex(unsafe.Pointer(fv.UnsafeAddr()), name)
			n++
		case f.Type == tRWMutex:
			vsync.NameRWMutex(unsafe.Pointer(fv.UnsafeAddr()), name)
			n++
		case f.Type == tWG || f.Type == tOnce:
			vsched.SetName(unsafe.Pointer(fv.UnsafeAddr()), name)
			n++
		case f.Type == tSem:
			if !fv.IsNil() {
				vsem.Name((*vsem.Weighted)(fv.UnsafePointer()), name)
				n++
			}
		case f.Type.Kind() == reflect.Struct && depth < 2 && f.Type.PkgPath() != "time":
			n += c12NameStruct(name, fv, depth+1)
		}
	}
	return n
}

// c12Steps is the running managed thread's own step counter (0 outside managed threads).
func c12Steps() int {
	if t := vsched.CurQuiet(); t != nil {
		return t.Steps()
	}
	return 0
}

func c12NameInstance(prefix string, db *litestream.DB) {
	c12NameStruct(prefix, reflect.ValueOf(db).Elem(), 0)
	if db.Replica != nil {
		c12NameStruct(strings.Replace(prefix, "DB", "Replica", 1), reflect.ValueOf(db.Replica).Elem(), 0)
	}
}

// c12Leaf lists the objects on which a thread yields only when it cannot proceed
// ("non-preemptible"): leaf mutexes that guard a single cached value or diagnostics and
// are never held across another acquisition, a file-system call of another thread's
// concern or a SQL statement. Collapsing their acquisition with the preceding step of
// the same thread removes only interleavings that differ in the order of two
// independent critical sections.
var c12Leaf = map[string]bool{}

func c12SetLeaf() []string {
	def := "DB.lastSuccessfulSyncMu,DB.syncDiag,Replica.muf"
	if v, ok := os.LookupEnv("C12_LEAF"); ok {
		def = v
	}
	var out []string
	for _, n := range strings.Split(def, ",") {
		if n = strings.TrimSpace(n); n != "" {
			c12Leaf[n] = true
			for i := 2; i <= 4; i++ {
				c12Leaf[strings.Replace(strings.Replace(n, "DB.", fmt.Sprintf("DB%d.", i), 1), "Replica.", fmt.Sprintf("Replica%d.", i), 1)] = true
			}
			out = append(out, n)
		}
	}
	return out
}

// Pipe rendezvous (snapshot / compaction streaming between a producer goroutine and its
// consumer): C12_PIPE=handoff (default in the quick tier) lets the peer continue without a
// scheduling decision when one end blocks (the pair is one coroutine); C12_PIPE=prefer
// (default in the thorough tier) records the point, and switching to a third thread there
// costs a preemption; C12_PIPE=preempt makes every pipe operation an ordinary point.
var c12PipeMode = func() string {
	if v := os.Getenv("C12_PIPE"); v != "" {
		return v
	}
	if ev.Tier() == "thorough" {
		return "prefer"
	}
	return "handoff"
}()
var c12PipePreempt = c12PipeMode == "preempt"

// File-system and SQL points are compiled in (tools/build_c12.sh passes -fs-points
// -sql-points to the rewriter) and switched at run time: C12_FS=off|mut|all (mut: only
// rename/remove/removeall/readdir, the calls that publish, delete or list files),
// C12_SQL=on|off. Defaults: quick fs=mut sql=on, thorough fs=all sql=on.
var c12FSMode = func() string {
	if v := os.Getenv("C12_FS"); v != "" {
		return v
	}
	if ev.Tier() == "thorough" {
		return "all"
	}
	return "mut"
}()
var c12SQLPoints = os.Getenv("C12_SQL") != "off"

func c12Policy(kind, obj string) bool {
	switch {
	case strings.HasPrefix(kind, "pipe."):
		return c12PipePreempt
	case kind == "sql":
		return c12SQLPoints
	case kind == "fs":
		switch c12FSMode {
		case "all":
			return true
		case "mut":
			return strings.HasPrefix(obj, "re") // rename, remove, removeall, readdir
		}
		return false
	}
	return !c12Leaf[obj]
}

// ---------------------------------------------------------------------------
// one execution

type c12Problem struct {
	Kind   string `json:"kind"`
	Detail string `json:"detail"`
	Class  string `json:"class"` // canonical part of the detail that enters the signature
}

type c12Outcome struct {
	Results   [][]string   `json:"results"`
	Shape     string       `json:"replica_shape"`
	Instances []string     `json:"instances"`
	Problems  []c12Problem `json:"problems,omitempty"`
	LockTable []string     `json:"lock_table,omitempty"`
	Harness   string       `json:"harness_error,omitempty"`
}

func (o *c12Outcome) Class() string {
	var rs []string
	for _, r := range o.Results {
		rs = append(rs, strings.Join(r, ","))
	}
	return strings.Join(rs, " || ") + " => " + o.Shape + " " + strings.Join(o.Instances, " ")
}

func (o *c12Outcome) ResultVector() string {
	var rs []string
	for _, r := range o.Results {
		rs = append(rs, strings.Join(r, ","))
	}
	return strings.Join(rs, "||")
}

var c12Abandoned int

// c12Exec runs one execution of a scenario from scratch under the given choices.
func c12Exec(sc *c12Scenario, choices []int, expect [][]int) (*vsched.Execution, *c12Outcome, error) {
	vsched.Reset()
	vsync.ResetTable()
	vsched.SetPolicy(c12Policy)
	w, err := c12NewWorld(sc)
	if err != nil {
		return nil, nil, err
	}
	vsync.SetPathRoot(w.S.Dir)
	c12NameInstance("DB", w.S.DB)
	c12NameStruct("Store", reflect.ValueOf(w.S.Store).Elem(), 0)
	for i := range sc.Threads {
		i := i
		vsched.Spawn(fmt.Sprintf("t%d[%s]", i, strings.Join(sc.Threads[i], ",")), func() { w.ThreadBody(i, true) })
	}
	x := vsched.Run(vsched.Options{Choices: choices, Expect: expect, MaxSteps: 50000, ForcedHandoff: c12PipeMode == "handoff"})
	o := &c12Outcome{Results: w.Results}
	if x.Deadlock || x.Horizon || x.Stuck || x.Diverged != "" {
		o.LockTable = vsync.LockTable()
		switch {
		case x.Diverged != "":
			o.Harness = "divergence: " + x.Diverged
		case x.Stuck:
			o.Harness = "a thread did not reach a scheduling point (blocked outside the shims)"
		case x.Deadlock:
			o.Problems = append(o.Problems, c12Problem{Kind: "deadlock", Detail: x.Blocked() + " | held: " + strings.Join(o.LockTable, "; "), Class: c12DeadlockClass(x, o.LockTable)})
		case x.Horizon:
			o.Problems = append(o.Problems, c12Problem{Kind: "livelock-horizon", Detail: fmt.Sprintf("%d scheduling points without completion", len(x.Points)), Class: "horizon"})
		}
		// parked threads keep the scenario's objects: leave them, remove the directory
		c12Abandoned++
		os.RemoveAll(w.S.Dir)
		return x, o, nil
	}
	c12Oracle(w, x, o)
	w.Destroy()
	return x, o, nil
}

func c12DeadlockClass(x *vsched.Execution, table []string) string {
	var ws []string
	for _, t := range x.Threads {
		if !t.Finished {
			ws = append(ws, t.Pending)
		}
	}
	sort.Strings(ws)
	return strings.Join(ws, "+")
}

func c12Handles(db *litestream.DB) (string, bool, bool) {
	sqlOpen, fileOpen, rtx, opened := db.VerifHandles()
	return fmt.Sprintf("opened=%v sql=%v file=%v rtx=%v", opened, sqlOpen, fileOpen, rtx), opened, sqlOpen || fileOpen || rtx
}

func withTimeout(d time.Duration, f func()) bool {
	done := make(chan struct{})
	go func() { defer close(done); f() }()
	select {
	case <-done:
		return true
	case <-time.After(d):
		return false
	}
}

// c12Oracle evaluates the per-execution invariants at quiescence (all threads finished).
func c12Oracle(w *c12World, x *vsched.Execution, o *c12Outcome) {
	s, sc := w.S, w.Sc
	add := func(kind, class, detail string) {
		o.Problems = append(o.Problems, c12Problem{Kind: kind, Detail: detail, Class: class})
	}
	// (b) every operation returned, no panic
	for _, t := range x.Threads {
		if t.Panic != "" {
			add("panic", scn.ErrClass(fmt.Errorf("%s", t.Panic)), fmt.Sprintf("thread %s: %s\n%s", t.Name, t.Panic, t.Stack))
		}
	}
	o.Shape = scn.Shape(s.ReplicaDir)
	// (c) lock table empty
	if tbl := vsync.LockTable(); len(tbl) > 0 {
		o.LockTable = tbl
		var names []string
		for _, l := range tbl {
			names = append(names, strings.Fields(l)[0])
		}
		add("lock-leaked", strings.Join(names, "+"), "held at quiescence: "+strings.Join(tbl, "; "))
	}
	// duplicate level-0 uploads: "only one Sync can run at a time to prevent concurrent uploads of the same file"
	var dups []string
	for n, c := range w.Uploads {
		if c > 1 {
			dups = append(dups, fmt.Sprintf("%s x%d", n, c))
		}
	}
	if len(dups) > 0 {
		sort.Strings(dups)
		add("duplicate-upload", strings.Join(dups, ","), "level-0 files uploaded more than once in the concurrent phase: "+strings.Join(dups, ", "))
	}
	// lock discipline of the mechanism the property names: a WAL sync that wrote a level-0 file
	// held execSem and read-locked chkMu; an upload pass entered through syncSem
	for ti, ms := range w.Marks {
		for _, m := range ms {
			var ops []string
			k := 0
			for _, p := range x.Points {
				if p.Thread != ti {
					continue
				}
				k++
				if k > m.From && k <= m.To {
					ops = append(ops, p.Kind+"@"+p.Obj)
				}
			}
			has := func(sub string) bool {
				for _, o := range ops {
					if strings.HasSuffix(o, sub) {
						return true
					}
				}
				return false
			}
			wroteL0 := false // the thread itself published a local level-0 file during this operation
			for _, o := range ops {
				if strings.HasPrefix(o, "fs@rename:.db-litestream/ltx/0/") {
					wroteL0 = true
				}
			}
			switch m.Op {
			case "SYNC", "SW", "SYNCDB", "CKP", "CKT":
				if wroteL0 && !(has("acquire@DB.execSem") && (has("rlock@DB.chkMu") || has("trywlock@DB.chkMu"))) {
					add("lock-discipline", m.Op+":wal-sync-without-execSem+chkMu", fmt.Sprintf("thread %d op %s wrote a level-0 file without holding execSem and chkMu (its steps: %v)", ti, m.Op, ops))
				}
			}
			switch m.Op {
			case "RSYNC", "SW", "SYNCDB":
				uploaded := false
				for _, o := range ops {
					if strings.HasPrefix(o, "replica@write:L0/") {
						uploaded = true
					}
				}
				if uploaded && !has("acquire@Replica.syncSem") {
					add("lock-discipline", m.Op+":upload-without-syncSem", fmt.Sprintf("thread %d op %s uploaded level-0 files without taking syncSem (its steps: %v)", ti, m.Op, ops))
				}
			}
		}
	}
	// instances
	insts := append([]*litestream.DB{s.DB}, w.Extra...)
	names := []string{"DB"}
	for i := range w.Extra {
		names = append(names, fmt.Sprintf("DB%d", i+2))
	}
	reg := s.Store.DBs()
	inStore := map[*litestream.DB]bool{}
	nPath := 0
	for _, d := range reg {
		inStore[d] = true
		if d.Path() == s.DBPath {
			nPath++
		}
	}
	for i, d := range insts {
		h, _, _ := c12Handles(d)
		o.Instances = append(o.Instances, fmt.Sprintf("%s{registered=%v %s}", names[i], inStore[d], h))
	}
	if len(o.Problems) > 0 {
		return
	}
	// registry: one managed instance per path
	hasUnreg := false
	for _, t := range sc.Threads {
		for _, op := range t {
			if op == "UNREG" {
				hasUnreg = true
			}
		}
	}
	if nPath > 1 || (nPath == 0 && !hasUnreg) {
		add("instance-count", fmt.Sprintf("n=%d", nPath), fmt.Sprintf("%d managed instances for the path (%s)", nPath, strings.Join(o.Instances, " ")))
	}
	// (d) closed means closed
	for i, d := range insts {
		h, opened, held := c12Handles(d)
		switch {
		case i == 0 && sc.ExpectClosed && opened:
			add("close-incomplete", names[i], fmt.Sprintf("a close operation returned but %s is still open: %s", names[i], h))
		case !opened && held:
			add("handles-leaked-after-close", names[i]+":"+h, fmt.Sprintf("%s is closed but still holds handles: %s", names[i], h))
		case opened && !inStore[d]:
			add("unmanaged-instance-open", names[i], fmt.Sprintf("%s is not registered in the store but open: %s", names[i], h))
		}
	}
	if len(o.Problems) > 0 {
		return
	}
	// (e) C01 / C02 on what the concurrent phase left
	ctx := context.Background()
	var live *litestream.DB
	for _, d := range reg {
		if d.Path() == s.DBPath && d.IsOpen() {
			live = d
		}
	}
	if live != nil {
		for _, op := range sc.Suffix {
			var res string
			if !withTimeout(20*time.Second, func() { res = w.Op(-1, op) }) {
				add("suffix-op-hangs", op, "sequential "+op+" after the concurrent phase did not return in 20s")
				return
			}
			if strings.HasPrefix(res, "err:") {
				add("suffix-op-failed", op+":"+res, "sequential "+op+" after the concurrent phase: "+res)
				return
			}
		}
		if len(sc.Suffix) > 0 {
			s.RecordLedgerNow()
		}
	}
	// (the suffix comes BEFORE the closing SyncAndWait below: a sync with nothing to copy would repair a stale cached
	// position before the suffix's own commit could be lost to it)
	if live != nil {
		// A sync that fails is not an acknowledgement; the daemon retries on its next tick. The
		// oracle retries like it (3 attempts) and reports only a failure that persists.
		var err error
		attempts := 0
		for attempts < 3 {
			attempts++
			if !withTimeout(20*time.Second, func() { err = live.SyncAndWait(ctx) }) {
				add("final-sync-hangs", "", "sequential SyncAndWait after the concurrent phase did not return in 20s")
				return
			}
			s.RecordLedgerNow()
			if err == nil {
				break
			}
		}
		if err != nil {
			add("replication-wedged", scn.ErrClass(err), "3 sequential SyncAndWait attempts after the concurrent phase all failed, last: "+err.Error())
			return
		}
		if attempts > 1 {
			o.Instances = append(o.Instances, fmt.Sprintf("final-sync-attempts=%d", attempts))
		}
	}
	// The C01/C02/snapshot verdicts are functions of the decoded replica files, the ledger and
	// the source image: executions that end in the same state share one evaluation.
	key := c12StateKey(s, live != nil)
	probs, cached := c12OracleCache[key]
	if !cached || key == "" {
		probs = nil
		padd := func(kind, class, detail string) {
			probs = append(probs, c12Problem{Kind: kind, Detail: detail, Class: class})
		}
		if live != nil {
			p, err := s.AckOracle(false)
			if err != nil {
				o.Harness = "ack oracle: " + err.Error()
				return
			}
			if p != nil {
				padd(p.Kind, strings.Fields(p.Detail + " -")[0], p.Detail)
			}
		}
		for _, p := range c02Oracle(s, !sc.Retention && !c12HasOp(sc, "RSET")) {
			padd(p.Kind, "", p.Detail)
		}
		// (f) snapshot content == the position it advertises (through level-0 files alone)
		c12SnapshotOracle(s, padd)
		// (g) every compaction level is one gapless, non-overlapping sequence of TXID ranges
		for lvl, fs := range scn.AllLevels(s.ReplicaDir) {
			if lvl == 0 || lvl == litestream.SnapshotLevel {
				continue
			}
			for i := 1; i < len(fs); i++ {
				if fs[i].Min != fs[i-1].Max+1 {
					padd("level-not-contiguous", fmt.Sprintf("L%d", lvl), fmt.Sprintf("level %d: %s follows %s (gap or overlap)", lvl, fs[i], fs[i-1]))
				}
			}
		}
		if key != "" {
			c12OracleCache[key] = probs
		}
		c12OracleEvals++
	} else {
		c12OracleHits++
	}
	o.Problems = append(o.Problems, probs...)
	o.Shape = scn.Shape(s.ReplicaDir)
	if len(o.Problems) > 0 {
		return
	}
	// (d) final sequential close leaves nothing behind
	var cerr error
	if !withTimeout(20*time.Second, func() { cerr = s.Store.Close(ctx) }) {
		add("final-close-hangs", "", "sequential Store.Close did not return in 20s; held: "+strings.Join(vsync.LockTable(), "; "))
		return
	}
	_ = cerr
	s.LSOpen = false
	for i, d := range insts {
		if h, opened, held := c12Handles(d); (opened || held) && (inStore[d] || i == 0) {
			add("handles-leaked-after-final-close", names[i]+":"+h, fmt.Sprintf("%s after a sequential Store.Close: %s", names[i], h))
		}
	}
	if tbl := vsync.LockTable(); len(tbl) > 0 {
		add("lock-leaked", "after-final-close", "held after the final close: "+strings.Join(tbl, "; "))
	}
	if len(o.Problems) > 0 {
		return
	}
	if w.txDB != nil {
		w.txDB.Close()
		w.txDB = nil
	}
	// the read lock is gone: an independent connection can truncate the WAL (evaluated once
	// per outcome class: it re-confirms the handle check through SQLite itself)
	if cls := o.Class(); c12ProbeSeen[cls] {
		return
	} else {
		c12ProbeSeen[cls] = true
	}
	c, err := sql.Open("sqlite", "file:"+s.DBPath+"?_pragma=busy_timeout(0)&_pragma=wal_autocheckpoint(0)")
	if err != nil {
		o.Harness = "probe open: " + err.Error()
		return
	}
	defer c.Close()
	var busy, lg, ck int
	if err := c.QueryRow("PRAGMA wal_checkpoint(TRUNCATE)").Scan(&busy, &lg, &ck); err != nil {
		add("read-lock-leaked", "error", "independent wal_checkpoint(TRUNCATE) after close failed: "+err.Error())
	} else if busy != 0 {
		add("read-lock-leaked", "busy", fmt.Sprintf("independent wal_checkpoint(TRUNCATE) after close reports busy=%d log=%d checkpointed=%d", busy, lg, ck))
	}
}

func c12HasOp(sc *c12Scenario, op string) bool {
	for _, t := range sc.Threads {
		for _, o := range t {
			if o == op {
				return true
			}
		}
	}
	return false
}

var (
	c12OracleCache = map[string][]c12Problem{}
	c12OracleEvals int64
	c12OracleHits  int64
	c12ProbeSeen   = map[string]bool{}
)

// c12StateKey digests everything the replica oracles depend on: every replica file decoded
// (header without its wall-clock timestamp, pages), the ledger and the source's committed image.
func c12StateKey(s *scn.Scn, acked bool) string {
	h := sha256.New()
	fmt.Fprintf(h, "acked=%v;", acked)
	for l := 0; l <= litestream.SnapshotLevel; l++ {
		for _, f := range scn.ListLevel(s.ReplicaDir, l) {
			b, err := readReplicaFile(s, f)
			if err != nil {
				return ""
			}
			lf, err := decodeLTX(b)
			if err != nil {
				return ""
			}
			hd := lf.Hdr
			hd.Timestamp, hd.WALSalt1, hd.WALSalt2 = 0, 0, 0
			fmt.Fprintf(h, "L%d:%d-%d:%+v;", l, f.Min, f.Max, hd)
			pgs := make([]int, 0, len(lf.Pages))
			for p := range lf.Pages {
				pgs = append(pgs, int(p))
			}
			sort.Ints(pgs)
			for _, p := range pgs {
				fmt.Fprintf(h, "p%d:", p)
				h.Write(lf.Pages[uint32(p)])
			}
		}
	}
	fmt.Fprintf(h, "ledger=%s;roots=%v;", strings.Join(s.Ledger, ","), s.LedgerRoot)
	s.RefreshSeqRoot()
	im, _, err := s.SourceImage()
	if err != nil {
		return ""
	}
	fmt.Fprintf(h, "src=%s/%d", scn.Digest(im, s.SeqRoot), s.SeqRoot)
	return hex.EncodeToString(h.Sum(nil))
}

// c12SnapshotOracle: every level-9 file [1,n] must decode to exactly the database that
// the level-0 chain 1..n alone restores to (when that chain is still complete).
func c12SnapshotOracle(s *scn.Scn, add func(kind, class, detail string)) {
	snaps := scn.ListLevel(s.ReplicaDir, litestream.SnapshotLevel)
	if len(snaps) == 0 {
		return
	}
	l0 := scn.ListLevel(s.ReplicaDir, 0)
	if len(l0) == 0 || l0[0].Min != 1 {
		return
	}
	tmp := filepath.Join(s.Dir, "l0only")
	os.RemoveAll(tmp)
	dst := filepath.Join(tmp, "ltx", "0")
	if err := os.MkdirAll(dst, 0o755); err != nil {
		return
	}
	defer os.RemoveAll(tmp)
	var have ltx.TXID
	for _, f := range l0 {
		if f.Min != have+1 {
			break
		}
		b, err := os.ReadFile(s.ReplicaFilePath(f))
		if err != nil {
			break
		}
		if err := os.WriteFile(filepath.Join(dst, ltx.FormatFilename(f.Min, f.Max)), b, 0o644); err != nil {
			return
		}
		have = f.Max
	}
	for _, f := range snaps {
		if f.Max > have {
			continue
		}
		b, err := readReplicaFile(s, f)
		if err != nil {
			continue
		}
		lf, err := decodeLTX(b)
		if err != nil {
			add("snapshot-invalid", "", fmt.Sprintf("%s: %v", f, err))
			continue
		}
		im := &scn.Image{PageSize: s.Cfg.PageSize, Data: make([]byte, int(lf.Hdr.Commit)*s.Cfg.PageSize)}
		for p, d := range lf.Pages {
			if p <= lf.Hdr.Commit {
				copy(im.Data[int(p-1)*s.Cfg.PageSize:], d)
			}
		}
		want, err := scn.RestoreFrom(tmp, s.Dir, s.Cfg.PageSize, scn.RestoreOpt{TXID: f.Max})
		if err != nil {
			continue // the level-0 chain alone is not restorable (first file is not a full image)
		}
		if d := scn.Compare(want, im, 0); d != nil {
			add("snapshot-content-mismatch", d.Kind, fmt.Sprintf("snapshot %s does not equal the database at TXID %d restored from level 0 alone: %s", f, f.Max, d))
		}
	}
}

// ---------------------------------------------------------------------------
// worker: explores one scenario

type c12Violation struct {
	Kind        string      `json:"kind"`
	Signature   string      `json:"signature"`
	Scenario    string      `json:"scenario"`
	Choices     []int       `json:"choices"`
	Preemptions int         `json:"preemptions"`
	Schedule    []string    `json:"schedule"`
	Outcome     *c12Outcome `json:"outcome"`
	Count       int64       `json:"count"` // executions with this signature
	Confirmed   bool        `json:"confirmed"`
}

type c12Sample struct {
	Scenario    string   `json:"scenario"`
	Choices     []int    `json:"choices"`
	Preemptions int      `json:"preemptions"`
	Schedule    []string `json:"schedule"`
	Outcome     string   `json:"outcome"`
}

type c12BoundStat struct {
	Bound      int     `json:"bound"`
	Executions int64   `json:"executions"`
	Complete   bool    `json:"complete"`
	WallS      float64 `json:"wall_s"`
}

type c12ScnResult struct {
	Scenario         string           `json:"scenario"`
	Spec             string           `json:"spec"`
	Executions       int64            `json:"executions"`
	Transitions      int64            `json:"transitions"`
	States           int64            `json:"states"`
	PointsMin        int              `json:"points_per_execution_min"`
	PointsMax        int              `json:"points_per_execution_max"`
	PointsAvg        float64          `json:"points_per_execution_avg"`
	BoundCompleted   int              `json:"bound_completed"` // -1: not even bound 0
	Bounds           []c12BoundStat   `json:"bounds"`
	Outcomes         map[string]int64 `json:"outcomes"`
	Deadlocks        int64            `json:"deadlocks"`
	Violations       []*c12Violation  `json:"violations,omitempty"`
	Samples          []c12Sample      `json:"samples,omitempty"`
	HarnessErrors    []string         `json:"harness_errors,omitempty"`
	Unconfirmed      []string         `json:"unconfirmed_violations,omitempty"` // outcome differed when the schedule was replayed: not reported
	Collapsed        int64            `json:"collapsed_points"`
	UnmanagedTouches int64            `json:"unmanaged_touches"`
	UnmanagedSample  []string         `json:"unmanaged_sample,omitempty"`
	MaxThreads       int              `json:"max_threads"`
	OracleEvals      int64            `json:"replica_oracle_evaluations"`
	OracleCacheHits  int64            `json:"replica_oracle_cache_hits"`
	WallS            float64          `json:"wall_s"`
	Stopped          string           `json:"stopped,omitempty"`
}

func c12Signature(sc *c12Scenario, p c12Problem, o *c12Outcome) string {
	sig := p.Kind + "|" + sc.Name + "|" + o.ResultVector()
	if p.Class != "" {
		sig += "|" + p.Class
	}
	return sig
}

// c12Explore explores one scenario up to maxBound within the time budget.
func c12Explore(sc *c12Scenario, budget time.Duration, minBound, maxBound int) *c12ScnResult {
	t0 := time.Now()
	res := &c12ScnResult{Scenario: sc.Name, Spec: sc.String(), BoundCompleted: -1, Outcomes: map[string]int64{}, PointsMin: 1 << 30}
	bySig := map[string]*c12Violation{}
	deadline := t0.Add(budget)
	var fatal string
	if minBound > 0 {
		res.BoundCompleted = minBound - 1 // completed by an earlier worker of the same run
	}
	for b := minBound; b <= maxBound && fatal == ""; b++ {
		e := &vsched.Explorer{Bound: b, Deadline: deadline}
		sampleEvery := int64(1)
		e.Exec = func(prefix []int, expect [][]int) *vsched.Execution {
			x, o, err := c12Exec(sc, prefix, expect)
			if err != nil {
				fatal = "setup: " + err.Error()
				return &vsched.Execution{Diverged: fatal}
			}
			res.Executions++
			res.Transitions += int64(len(x.Points))
			nn := len(x.Points) - len(prefix) + 1
			if len(prefix) == 0 {
				nn = len(x.Points) + 1
			}
			res.States += int64(nn)
			if len(x.Points) < res.PointsMin {
				res.PointsMin = len(x.Points)
			}
			if len(x.Points) > res.PointsMax {
				res.PointsMax = len(x.Points)
			}
			if len(x.Threads) > res.MaxThreads {
				res.MaxThreads = len(x.Threads)
			}
			res.Collapsed += x.Collapsed
			res.UnmanagedTouches += x.UnmanagedTouches
			if len(res.UnmanagedSample) == 0 && len(x.UnmanagedSample) > 0 {
				res.UnmanagedSample = x.UnmanagedSample
			}
			if o.Harness != "" {
				fatal = o.Harness + fmt.Sprintf(" (choices %v)", x.Choices)
				x.Diverged = fatal
				return x
			}
			if x.Deadlock {
				res.Deadlocks++
			}
			cls := o.Class()
			if len(o.Problems) > 0 {
				cls = "VIOLATION " + o.Problems[0].Kind + ": " + cls
			}
			res.Outcomes[cls]++
			if res.Outcomes[cls] == 1 || res.Executions%sampleEvery == 0 {
				if len(res.Samples) < 6 && res.Outcomes[cls] == 1 {
					res.Samples = append(res.Samples, c12Sample{Scenario: sc.Name, Choices: x.Choices, Preemptions: x.Preemptions(), Schedule: x.Describe(), Outcome: cls})
				}
			}
			for _, p := range o.Problems {
				sig := c12Signature(sc, p, o)
				v := bySig[sig]
				if v == nil {
					v = &c12Violation{Kind: p.Kind, Signature: sig, Scenario: sc.Name, Choices: x.Choices, Preemptions: x.Preemptions(), Schedule: x.Describe(), Outcome: o}
					bySig[sig] = v
				} else if x.Preemptions() < v.Preemptions || (x.Preemptions() == v.Preemptions && len(x.Choices) < len(v.Choices)) {
					v.Choices, v.Preemptions, v.Schedule, v.Outcome = x.Choices, x.Preemptions(), x.Describe(), o
				}
				v.Count++
			}
			return x
		}
		e.Check = func(x *vsched.Execution) bool {
			if c12Abandoned >= 40 {
				res.Stopped = "40 executions ended in deadlock/horizon: their parked threads are abandoned, the exploration of this scenario stops here"
				return false
			}
			return fatal == ""
		}
		tb := time.Now()
		complete := e.Explore()
		res.Bounds = append(res.Bounds, c12BoundStat{Bound: b, Executions: e.Execs, Complete: complete, WallS: time.Since(tb).Seconds()})
		if !complete {
			if res.Stopped == "" && fatal == "" {
				res.Stopped = fmt.Sprintf("time budget of %v reached during bound %d", budget, b)
			}
			break
		}
		res.BoundCompleted = b
	}
	if fatal != "" {
		res.HarnessErrors = append(res.HarnessErrors, fatal)
	}
	if res.Executions > 0 {
		res.PointsAvg = float64(res.Transitions) / float64(res.Executions)
	} else {
		res.PointsMin = 0
	}
	// confirm every violation by replaying its schedule twice
	var sigs []string
	for s := range bySig {
		sigs = append(sigs, s)
	}
	sort.Strings(sigs)
	for _, sg := range sigs {
		v := bySig[sg]
		ok := true
		if strings.Contains(fatal, "did not reach a scheduling point") {
			break // a thread of the stuck execution is still running somewhere: no further executions in this process
		}
		for i := 0; i < 2 && ok && c12Abandoned < 60; i++ {
			_, o, err := c12Exec(sc, v.Choices, nil)
			if err != nil || o.Harness != "" {
				ok = false
				res.HarnessErrors = append(res.HarnessErrors, fmt.Sprintf("replay of %s failed: %v %s", sg, err, o.Harness))
				break
			}
			found := false
			for _, p := range o.Problems {
				if c12Signature(sc, p, o) == sg {
					found = true
				}
			}
			if !found {
				ok = false
				var got []string
				for _, p := range o.Problems {
					got = append(got, c12Signature(sc, p, o))
				}
				res.Unconfirmed = append(res.Unconfirmed, fmt.Sprintf("%s: replaying its schedule (%d choices, %d preemptions) gave %v instead; not reported (the outcome depends on something outside the schedule, e.g. wall-clock timestamps inside file contents)", sg, len(v.Choices), v.Preemptions, got))
			}
		}
		v.Confirmed = ok
		if ok {
			res.Violations = append(res.Violations, v)
		}
	}
	res.WallS = time.Since(t0).Seconds()
	res.OracleEvals, res.OracleCacheHits = c12OracleEvals, c12OracleHits
	return res
}

// c12worker <scenario> <budget-seconds> <min-bound> <max-bound>: explores one scenario for the
// preemption bounds min..max in turn, prints the result as JSON.
func c12worker(args []string) int {
	if len(args) < 4 {
		fmt.Fprintln(os.Stderr, "usage: lsmc c12worker <scenario> <budget-seconds> <min-bound> <max-bound>")
		return 2
	}
	sc := c12FindScenario(args[0])
	if sc == nil {
		fmt.Fprintf(os.Stderr, "unknown scenario %q\n", args[0])
		return 2
	}
	sec, _ := strconv.ParseFloat(args[1], 64)
	lb, _ := strconv.Atoi(args[2])
	mb, _ := strconv.Atoi(args[3])
	c12SetLeaf()
	vsched.SetWatchdog(30 * time.Second)
	res := c12Explore(sc, time.Duration(sec*float64(time.Second)), lb, mb)
	b, _ := json.Marshal(res)
	os.Stdout.Write(append(b, '\n'))
	os.RemoveAll(filepath.Join(scn.ScratchRoot, fmt.Sprintf("lsmc-%d", os.Getpid())))
	return 0
}

// ---------------------------------------------------------------------------
// parent

func c12RunWorker(self string, sc *c12Scenario, budget time.Duration, minBound, maxBound int, kill time.Duration) (*c12ScnResult, string) {
	cmd := exec.Command("bash", "-c", `ulimit -v 8000000; exec "$0" "$@"`, self, "c12worker", sc.Name, fmt.Sprintf("%.1f", budget.Seconds()), strconv.Itoa(minBound), strconv.Itoa(maxBound))
	cmd.SysProcAttr = &syscall.SysProcAttr{Setpgid: true}
	cmd.Env = append(os.Environ(), sc.Env...)
	var out, errb bytes.Buffer
	cmd.Stdout, cmd.Stderr = &out, &errb
	if err := cmd.Start(); err != nil {
		return nil, "start: " + err.Error()
	}
	done := make(chan error, 1)
	go func() { done <- cmd.Wait() }()
	var werr error
	select {
	case werr = <-done:
	case <-time.After(kill):
		syscall.Kill(-cmd.Process.Pid, syscall.SIGKILL)
		<-done
		os.RemoveAll(filepath.Join(scn.ScratchRoot, fmt.Sprintf("lsmc-%d", cmd.Process.Pid)))
		return nil, fmt.Sprintf("watchdog: worker killed after %v; stderr tail: %s", kill, tail(errb.String(), 600))
	}
	os.RemoveAll(filepath.Join(scn.ScratchRoot, fmt.Sprintf("lsmc-%d", cmd.Process.Pid)))
	var res c12ScnResult
	line := bytes.TrimSpace(out.Bytes())
	if i := bytes.LastIndexByte(line, '\n'); i >= 0 {
		line = line[i+1:]
	}
	if err := json.Unmarshal(line, &res); err != nil {
		return nil, fmt.Sprintf("worker failed (%v): %s", werr, tail(errb.String(), 1200))
	}
	return &res, ""
}

func head(s string, n int) string {
	if len(s) > n {
		return s[:n] + "..."
	}
	return s
}

func tail(s string, n int) string {
	if len(s) > n {
		return "..." + s[len(s)-n:]
	}
	return s
}

func c12(args []string) int {
	for i, a := range args {
		if a == "--replay" && i+1 < len(args) {
			return c12Replay(args[i+1])
		}
		if a == "--race-pass" {
			return c12RacePassOnly()
		}
		if a == "--list" {
			for _, sc := range c12Pairs {
				fmt.Println(sc.String(), map[bool]string{true: "[thorough]", false: "[quick]"}[sc.Thorough])
			}
			return 0
		}
	}
	tm := ev.Start()
	thorough := ev.Tier() == "thorough"
	leaf := c12SetLeaf()
	self, err := os.Executable()
	if err != nil {
		fmt.Fprintln(os.Stderr, "c12:", err)
		return 2
	}
	var scs []*c12Scenario
	only := os.Getenv("C12_ONLY")
	for _, sc := range c12Pairs {
		if only != "" {
			// C12_ONLY: comma-separated names or globs; selects from ALL scenarios (also thorough-tier ones)
			hit := false
			for _, pat := range strings.Split(only, ",") {
				if m, _ := filepath.Match(strings.TrimSpace(pat), sc.Name); m {
					hit = true
				}
			}
			if !hit {
				continue
			}
		} else if sc.Thorough && !thorough {
			continue
		}
		scs = append(scs, sc)
	}
	if len(scs) == 0 {
		fmt.Fprintln(os.Stderr, "c12: no scenario selected")
		return 2
	}
	budget := ev.Budget(80*time.Second, 45*time.Minute)
	raceBudget := 25 * time.Second
	if thorough {
		raceBudget = 5 * time.Minute
	}
	par := 6
	if v := os.Getenv("C12_PAR"); v != "" {
		par, _ = strconv.Atoi(v)
	}
	maxBound := 2
	if v := os.Getenv("C12_MAXBOUND"); v != "" {
		maxBound, _ = strconv.Atoi(v)
	}
	// Phase A: bounds 0 and 1 for every scenario (cap per scenario: a third of the budget, at most
	// 5 minutes). Phase B: the remaining budget is split evenly over the scenarios for bound 2
	// (and above, up to C12_MAXBOUND). Workers run `par` at a time.
	results := make([]*c12ScnResult, len(scs))
	failures := make([]string, len(scs))
	runPhase := func(idx []int, per time.Duration, lo, hi int) {
		var wg sync.WaitGroup
		sem := make(chan struct{}, par)
		for _, i := range idx {
			wg.Add(1)
			sem <- struct{}{}
			go func(i int) {
				defer wg.Done()
				defer func() { <-sem }()
				r, f := c12RunWorker(self, scs[i], per, lo, hi, per+120*time.Second)
				if r == nil {
					if failures[i] == "" {
						failures[i] = f
					}
					return
				}
				results[i] = c12Merge(results[i], r)
			}(i)
		}
		wg.Wait()
	}
	var all []int
	for i := range scs {
		all = append(all, i)
	}
	capA := budget / 3
	if capA > 5*time.Minute {
		capA = 5 * time.Minute
	}
	hiA := 1
	if maxBound < 1 {
		hiA = maxBound
	}
	runPhase(all, capA, 0, hiA)
	per := capA
	if maxBound >= 2 {
		var idx []int
		for i := range scs {
			if results[i] != nil && results[i].BoundCompleted >= 1 && len(results[i].HarnessErrors) == 0 && results[i].Stopped == "" {
				idx = append(idx, i)
			}
		}
		// regression scenarios of repaired defects first, with a fixed generous slice (they are few)
		var prio, rest []int
		for _, i := range idx {
			if len(scs[i].Env) > 0 || scs[i].Name == "3:reset-sync-rsync" {
				prio = append(prio, i)
			} else {
				rest = append(rest, i)
			}
		}
		if len(prio) > 0 && budget-tm.Since() > 20*time.Second {
			pp := (budget - tm.Since()) / 3
			if pp > 20*time.Second && !thorough {
				pp = 20 * time.Second
			}
			runPhase(prio, pp, 2, maxBound)
			idx = rest
		}
		left := budget - tm.Since()
		rounds := (len(idx) + par - 1) / par
		if rounds > 0 && left > 5*time.Second {
			per = time.Duration(float64(left) / float64(rounds) * 0.9)
			if per > 15*time.Minute {
				per = 15 * time.Minute
			}
			runPhase(idx, per, 2, maxBound)
		}
	}
	exploreWall := tm.S()

	rep := ev.NewReporter("C12")
	var (
		totExec, totTrans, totStates, totDead, totUnm, totColl int64
		distinct                                               int
		perScn                                                 []map[string]any
		samples                                                []any
		nonColliding, incomplete, harnessErrs, unconfirmed     []string
		minBound                                               = 99
		allBound1                                              = true
	)
	for i, sc := range scs {
		r := results[i]
		if r == nil {
			incomplete = append(incomplete, sc.Name+": "+failures[i])
			perScn = append(perScn, map[string]any{"scenario": sc.Name, "executions": 0, "bound_completed": -1, "worker_failure": failures[i], "exhaustive": false})
			allBound1 = false
			minBound = -1
			continue
		}
		totExec += r.Executions
		totTrans += r.Transitions
		totStates += r.States
		totDead += r.Deadlocks
		totUnm += r.UnmanagedTouches
		totColl += r.Collapsed
		distinct += len(r.Outcomes)
		if len(r.Outcomes) <= 1 {
			nonColliding = append(nonColliding, sc.Name)
		}
		if r.BoundCompleted < minBound {
			minBound = r.BoundCompleted
		}
		if r.BoundCompleted < 1 {
			allBound1 = false
		}
		for _, h := range r.HarnessErrors {
			harnessErrs = append(harnessErrs, sc.Name+": "+h)
		}
		unconfirmed = append(unconfirmed, r.Unconfirmed...)
		var outs []string
		for k, n := range r.Outcomes {
			outs = append(outs, fmt.Sprintf("%dx %s", n, k))
		}
		sort.Strings(outs)
		perScn = append(perScn, map[string]any{
			"scenario": sc.Name, "spec": r.Spec, "executions": r.Executions, "bound_completed": r.BoundCompleted, "bounds": r.Bounds,
			"scheduling_points_per_execution": map[string]any{"min": r.PointsMin, "max": r.PointsMax, "avg": r.PointsAvg},
			"distinct_outcomes":               len(r.Outcomes), "outcomes": outs, "deadlocks": r.Deadlocks, "max_threads": r.MaxThreads,
			"collapsed_points": r.Collapsed, "unmanaged_touches": r.UnmanagedTouches, "stopped": r.Stopped, "wall_s": r.WallS,
			"violation_signatures": len(r.Violations),
		})
		for j, sm := range r.Samples {
			if j < 2 && len(samples) < 40 {
				samples = append(samples, sm)
			}
		}
		for _, v := range r.Violations {
			rep.Report(&ev.Violation{Kind: v.Kind, Signature: v.Signature, Detail: map[string]any{
				"scenario": v.Scenario, "spec": r.Spec, "choices": v.Choices, "preemptions": v.Preemptions, "schedule": v.Schedule,
				"outcome": v.Outcome, "executions_with_this_signature": v.Count,
				"replay": "lsmc-c12 c12 --replay <this file>",
			}})
		}
	}
	// race pass (free-running, race detector, separate binary)
	race := c12RacePass(self, scs, raceBudget, rep)

	if len(harnessErrs) > 0 {
		for _, h := range harnessErrs {
			fmt.Fprintln(os.Stderr, "c12: harness error:", h)
		}
	}
	if totExec == 0 {
		fmt.Fprintln(os.Stderr, "c12: no execution completed:", incomplete)
		return 2
	}
	exhaustive := len(incomplete) == 0 && allBound1 && len(harnessErrs) == 0
	evd := &ev.Evidence{PropertyID: "C12", Tier: ev.Tier(), Seed: ev.Seed(), Level: "model_checking", WallS: tm.S(),
		Coverage: map[string]any{
			"states":                        totStates,
			"transitions":                   totTrans,
			"traces_validated_against_impl": totExec,
			"evaluations":                   totExec,
			"distinct_nontrivial":           distinct,
			"rule": "scenario = sequential prefix + N threads of 1-2 real daemon operations on one Store/DB with live application writers; " +
				"for each scenario ALL schedules with at most b preemptions are executed for b = 0,1,2 in turn (stateless DFS, every execution from a fresh database; a scheduling point before every lock/semaphore/waitgroup/once acquisition, pipe rendezvous and application statement; switching away from a runnable thread is a preemption, switches at blocking points are free); " +
				"evaluations = complete executions of the real code; states = distinct nodes of the schedule trees (choice prefixes), transitions = scheduling steps executed; " +
				"distinct_nontrivial = number of distinct (scenario, per-operation results, final replica shape, final instance states) outcome classes observed",
			"exhaustive":                 exhaustive,
			"exhaustive_scope":           fmt.Sprintf("every selected scenario completed preemption bound >= %d; see per_scenario.bound_completed", minBound),
			"scenarios":                  len(scs),
			"min_bound_completed":        minBound,
			"per_scenario":               perScn,
			"non_colliding_scenarios":    nonColliding,
			"incomplete_scenarios":       incomplete,
			"deadlocks":                  totDead,
			"samples":                    samples,
			"collapsed_points":           totColl,
			"unmanaged_shim_touches":     totUnm,
			"non_preemptible_objects":    leaf,
			"pipe_mode":                  c12PipeMode,
			"fs_points":                  c12FSMode,
			"sql_points":                 c12SQLPoints,
			"race_pass":                  race,
			"harness_errors":             harnessErrs,
			"unconfirmed_violations":     unconfirmed,
			"exploration_wall_s":         exploreWall,
			"parallel_workers":           par,
			"phase_a_cap_per_scenario_s": capA.Seconds(),
			"phase_b_cap_per_scenario_s": per.Seconds(),
			"known_finding_detections":   rep.KnownCount(),
		},
		Assumptions: []string{
			"cooperative scheduling serialises the threads: data races are invisible to the exploration (hand-offs are happens-before edges); the separate race pass (free-running, -race) is not exhaustive",
			"scheduling points: shim operations (sync.Mutex/RWMutex/WaitGroup/Once, semaphore.Weighted, io.Pipe, go statements), every replica-client request (list/open/write/delete, through a wrapping client), application statements, SQL calls issued by litestream (C12_SQL=" + fmt.Sprint(c12SQLPoints) + ") and os-level file calls in packages litestream and litestream/file (C12_FS=" + c12FSMode + ": off = none, mut = rename/remove/removeall/readdir, all = also open/openfile/create/stat); code between two points runs atomically, so reads/writes through already-open *os.File handles interleave only at the surrounding points",
			"releases are not scheduling points (a release is a left mover); non-preemptible (leaf) objects yield only when blocked: " + strings.Join(leaf, ", ") + "; pipe mode " + c12PipeMode + " (handoff: a blocked pipe end hands over to its peer without a scheduling decision; prefer: the hand-over is a recorded point and choosing a third thread there costs a preemption; preempt: every pipe operation is an ordinary point)",
			"Mutex/semaphore FIFO hand-off is not modelled (any waiter may win); RWMutex writer preference is modelled",
			"background monitors are off (MonitorInterval=0, MonitorEnabled=false, CompactionMonitorEnabled=false, ShutdownSyncTimeout=0): their loops' selects on tickers/ctx.Done are not reached; the operations they would call are the explored thread operations",
			"preemption bound: schedules needing more preemptions than bound_completed of a scenario are not covered",
		},
	}
	code := rep.Finish()
	evd.Violations = rep.Unknown()
	if err := ev.Write(evd); err != nil {
		fmt.Fprintln(os.Stderr, "c12:", err)
		return 2
	}
	fmt.Printf("C12 %s: %d scenarios, %d executions, %d scheduling steps, %d outcome classes, min bound completed %d, %d deadlocks, %d non-colliding, race pass: %v, wall %.1fs\n",
		ev.Tier(), len(scs), totExec, totTrans, distinct, minBound, totDead, len(nonColliding), race["status"], tm.S())
	if code == 0 && len(harnessErrs) > 0 {
		return 2
	}
	return code
}

// c12Merge adds the result of a later worker (higher bounds) of the same scenario to an earlier one.
func c12Merge(a, b *c12ScnResult) *c12ScnResult {
	if a == nil {
		return b
	}
	a.Executions += b.Executions
	a.Transitions += b.Transitions
	a.States += b.States
	if b.PointsMin < a.PointsMin && b.Executions > 0 {
		a.PointsMin = b.PointsMin
	}
	if b.PointsMax > a.PointsMax {
		a.PointsMax = b.PointsMax
	}
	if a.Executions > 0 {
		a.PointsAvg = float64(a.Transitions) / float64(a.Executions)
	}
	if b.BoundCompleted > a.BoundCompleted {
		a.BoundCompleted = b.BoundCompleted
	}
	a.Bounds = append(a.Bounds, b.Bounds...)
	for k, n := range b.Outcomes {
		a.Outcomes[k] += n
	}
	a.Deadlocks += b.Deadlocks
	have := map[string]*c12Violation{}
	for _, v := range a.Violations {
		have[v.Signature] = v
	}
	for _, v := range b.Violations {
		if o := have[v.Signature]; o != nil {
			o.Count += v.Count
			continue
		}
		a.Violations = append(a.Violations, v)
	}
	if len(a.Samples) < 6 {
		a.Samples = append(a.Samples, b.Samples...)
	}
	a.HarnessErrors = append(a.HarnessErrors, b.HarnessErrors...)
	a.Unconfirmed = append(a.Unconfirmed, b.Unconfirmed...)
	a.Collapsed += b.Collapsed
	a.UnmanagedTouches += b.UnmanagedTouches
	if len(a.UnmanagedSample) == 0 {
		a.UnmanagedSample = b.UnmanagedSample
	}
	if b.MaxThreads > a.MaxThreads {
		a.MaxThreads = b.MaxThreads
	}
	a.OracleEvals += b.OracleEvals
	a.OracleCacheHits += b.OracleCacheHits
	a.WallS += b.WallS
	if b.Stopped != "" {
		a.Stopped = b.Stopped
	}
	return a
}

// ---------------------------------------------------------------------------
// race pass via the second binary

func c12RacePass(self string, scs []*c12Scenario, budget time.Duration, rep *ev.Reporter) map[string]any {
	bin := self + "-race"
	info := map[string]any{"mode": "free-running, not exhaustive: real goroutines, unrewritten sources, Go race detector (-race), GOMAXPROCS=16"}
	if _, err := os.Stat(bin); err != nil {
		info["status"] = "not run: " + bin + " missing (build_c12.sh could not build the -race binary)"
		return info
	}
	if os.Getenv("C12_NO_RACE") == "1" {
		info["status"] = "not run: C12_NO_RACE=1"
		return info
	}
	var names []string
	for _, sc := range scs {
		names = append(names, sc.Name)
	}
	cmd := exec.Command(bin, "c12race", fmt.Sprintf("%.0f", budget.Seconds()), strings.Join(names, ","))
	cmd.Env = append(os.Environ(), "GOMAXPROCS=16", "GORACE=halt_on_error=0 exitcode=66")
	cmd.SysProcAttr = &syscall.SysProcAttr{Setpgid: true}
	var out, errb bytes.Buffer
	cmd.Stdout, cmd.Stderr = &out, &errb
	if err := cmd.Start(); err != nil {
		info["status"] = "not run: " + err.Error()
		return info
	}
	done := make(chan error, 1)
	go func() { done <- cmd.Wait() }()
	select {
	case <-done:
	case <-time.After(budget + 90*time.Second):
		syscall.Kill(-cmd.Process.Pid, syscall.SIGKILL)
		<-done
		info["status"] = "killed by watchdog"
		return info
	}
	os.RemoveAll(filepath.Join(scn.ScratchRoot, fmt.Sprintf("lsmc-%d", cmd.Process.Pid)))
	var summary map[string]any
	for _, l := range strings.Split(out.String(), "\n") {
		if strings.HasPrefix(l, "{") {
			json.Unmarshal([]byte(l), &summary)
		}
	}
	for k, v := range summary {
		info[k] = v
	}
	races := c12ParseRaces(errb.String())
	info["race_reports"] = len(races)
	info["status"] = fmt.Sprintf("ran: %d race reports", len(races))
	seen := map[string]bool{}
	var harnessRaces []string
	for _, r := range races {
		if seen[r.sig] {
			continue
		}
		seen[r.sig] = true
		if strings.Count(r.sig, "litestream") < 2 {
			// at least one access has no litestream frame: a race inside the harness, not a finding
			harnessRaces = append(harnessRaces, r.sig)
			info["harness_races"] = harnessRaces
			continue
		}
		rep.Report(&ev.Violation{Kind: "data-race", Signature: "data-race|" + r.sig, Detail: map[string]any{"report": r.text, "note": "found by the free-running race pass (lsmc-c12-race c12race); not replayable by schedule"}})
	}
	return info
}

type c12Race struct{ sig, text string }

// c12ParseRaces extracts "WARNING: DATA RACE" blocks and the top litestream frames of both accesses.
func c12ParseRaces(stderr string) []c12Race {
	var out []c12Race
	blocks := strings.Split(stderr, "WARNING: DATA RACE")
	for _, b := range blocks[1:] {
		if i := strings.Index(b, "=================="); i >= 0 {
			b = b[:i]
		}
		var tops []string
		for _, sec := range strings.Split(b, "\n\n") {
			lines := strings.Split(strings.TrimSpace(sec), "\n")
			if len(lines) < 2 {
				continue
			}
			h := strings.TrimSpace(lines[0])
			if !(strings.HasPrefix(h, "Read at") || strings.HasPrefix(h, "Write at") || strings.HasPrefix(h, "Previous read") || strings.HasPrefix(h, "Previous write")) {
				continue
			}
			top := ""
			for i, l := range lines[1:] {
				l = strings.TrimSpace(l)
				if strings.HasPrefix(l, "github.com/benbjohnson/litestream") {
					fn := l
					if j := strings.LastIndex(fn, "("); j > 0 {
						fn = fn[:j]
					}
					fn = strings.TrimPrefix(fn, "github.com/benbjohnson/")
					loc := ""
					if i+2 < len(lines) {
						loc = strings.Fields(strings.TrimSpace(lines[i+2]) + " -")[0]
						loc = filepath.Base(loc)
					}
					top = fn + "@" + loc
					break
				}
			}
			if top == "" && len(lines) > 1 {
				top = strings.TrimSpace(lines[1])
			}
			hw := strings.Fields(h)
			acc := hw[0]
			if acc == "Previous" && len(hw) > 1 {
				acc = "previous-" + hw[1]
			}
			tops = append(tops, strings.ToLower(acc)+":"+top)
		}
		sort.Strings(tops)
		out = append(out, c12Race{sig: strings.Join(tops, "|"), text: "WARNING: DATA RACE" + head(b, 8000)})
	}
	return out
}

func c12RacePassOnly() int {
	self, _ := os.Executable()
	rep := ev.NewReporter("C12")
	var scs []*c12Scenario
	for _, sc := range c12Pairs {
		if !sc.Thorough || ev.Tier() == "thorough" {
			scs = append(scs, sc)
		}
	}
	info := c12RacePass(self, scs, ev.Budget(60*time.Second, 10*time.Minute), rep)
	b, _ := json.MarshalIndent(info, "", " ")
	fmt.Println(string(b))
	return rep.Finish()
}

// ---------------------------------------------------------------------------
// replay

func c12Replay(path string) int {
	b, err := os.ReadFile(path)
	if err != nil {
		fmt.Fprintln(os.Stderr, "c12:", err)
		return 2
	}
	var v struct {
		Kind      string `json:"kind"`
		Signature string `json:"signature"`
		Detail    struct {
			Scenario string `json:"scenario"`
			Choices  []int  `json:"choices"`
		} `json:"detail"`
	}
	if err := json.Unmarshal(b, &v); err != nil {
		fmt.Fprintln(os.Stderr, "c12:", err)
		return 2
	}
	if v.Kind == "data-race" {
		fmt.Println("data-race findings come from the free-running race pass and cannot be replayed by schedule; rerun: lsmc-c12 c12 --race-pass")
		return 2
	}
	sc := c12FindScenario(v.Detail.Scenario)
	if sc == nil {
		fmt.Fprintf(os.Stderr, "c12: unknown scenario %q\n", v.Detail.Scenario)
		return 2
	}
	if len(sc.Env) > 0 && os.Getenv("C12_REPLAY_ENV") == "" {
		// the exploration settings are read at start-up: re-execute with the scenario's own
		cmd := exec.Command(os.Args[0], os.Args[1:]...)
		cmd.Env = append(append(os.Environ(), sc.Env...), "C12_REPLAY_ENV=1")
		cmd.Stdout, cmd.Stderr = os.Stdout, os.Stderr
		if err := cmd.Run(); err != nil {
			if ee, ok := err.(*exec.ExitError); ok {
				return ee.ExitCode()
			}
			return 2
		}
		return 0
	}
	c12SetLeaf()
	defer os.RemoveAll(filepath.Join(scn.ScratchRoot, fmt.Sprintf("lsmc-%d", os.Getpid())))
	fmt.Println("scenario:", sc.String())
	x, o, err := c12Exec(sc, v.Detail.Choices, nil)
	if err != nil {
		fmt.Fprintln(os.Stderr, "c12:", err)
		return 2
	}
	for i, p := range x.Points {
		m := " "
		if p.RunningEnabled && p.Chosen != 0 {
			m = "*"
		}
		fmt.Printf("%4d %s T%d %-12s %-28s enabled=%v\n", i, m, p.Thread, p.Kind, p.Obj, p.Enabled)
	}
	for _, t := range x.Threads {
		fmt.Printf("thread T%d %s finished=%v %s\n", t.ID, t.Name, t.Finished, t.Pending)
	}
	fmt.Println("results:", o.ResultVector())
	fmt.Println("replica:", o.Shape)
	fmt.Println("instances:", strings.Join(o.Instances, " "))
	if o.Harness != "" {
		fmt.Println("harness error:", o.Harness)
		return 2
	}
	if len(o.Problems) == 0 {
		fmt.Println("verdict: all oracles hold")
		return 0
	}
	still := false
	for _, p := range o.Problems {
		sig := c12Signature(sc, p, o)
		fmt.Printf("VIOLATION kind=%s signature=%s\n  %s\n", p.Kind, sig, p.Detail)
		if sig == v.Signature {
			still = true
		}
	}
	if !still {
		fmt.Println("(the recorded signature did not reproduce; other violations did)")
	}
	return 1
}
