package main

import (
	"encoding/json"
	"errors"
	"fmt"
	"os"
	"sort"
	"strings"
	"sync"
	"time"

	"lsverif/ev"
	"lsverif/explore"
	"lsverif/scn"
)

// Layer is one exhaustive search: a configuration, an alphabet, a depth, seeds.
type Layer struct {
	Name     string
	Cfg      scn.Config
	Alphabet []string
	Depth    int
	Seeds    [][]string
	Merge    bool
	MaxRuns  int64
	Filter   func(hist []string) bool
}

// HistCheck is a history-exploring check (engine E1).
type HistCheck struct {
	ID      string
	Level   string
	Prepare func(s *scn.Scn)
	// AfterOp, if set, is called after every legal op (mid-history oracle).
	AfterOp func(s *scn.Scn, op string, o scn.Outcome) *scn.Problem
	// Final is called at the end of a legal history; it returns the problems found and an outcome class.
	Final func(s *scn.Scn) (problems []*scn.Problem, outcome string, err error)

	// ExtraCoverage is merged into the evidence's coverage map (checks with a second half, e.g. C16).
	ExtraCoverage map[string]any

	rep            *ev.Reporter
	harnessErr     error
	hmu            sync.Mutex
	unconfirmed    int
	unconfirmedMsg string
}

// Detail is what a violation replay file contains.
type Detail struct {
	Config  scn.Config `json:"config"`
	History []string   `json:"history"`
	Trace   []string   `json:"trace"`
	Problem string     `json:"problem"`
	Layer   string     `json:"layer"`
}

func cfgClass(c scn.Config) string {
	s := fmt.Sprintf("ps%d/%s/min%d/tr%d/ci%d/ch%d/L%v/re%v/st%v", c.PageSize, c.AutoVacuum, c.MinCheckpointPageN, c.TruncatePageN, c.CheckpointInterval, c.MaxSyncWALFrames, c.Levels, c.RetentionEnabled, c.UseStore)
	if c.MetaInDBDir {
		s += "/meta-in-db-dir"
	}
	return s
}

// exec runs one history once and returns problems, outcome, trace.
func (hc *HistCheck) exec(cfg scn.Config, hist []string) (legal bool, probs []*scn.Problem, outcome, key string, trace []string, err error) {
	s, err := scn.New(cfg)
	if err != nil {
		return false, nil, "", "", nil, err
	}
	defer s.Destroy()
	if hc.Prepare != nil {
		hc.Prepare(s)
	}
	for _, op := range hist {
		o := s.Do(op)
		if o.Illegal {
			return false, nil, "", "", nil, nil
		}
		if hc.AfterOp != nil {
			if p := hc.AfterOp(s, op, o); p != nil {
				probs = append(probs, p)
			}
		}
	}
	key = s.Key()
	p2, outcome, err := hc.Final(s)
	probs = append(probs, p2...)
	return true, probs, outcome, key, s.Trace, err
}

func (hc *HistCheck) setHarnessErr(err error) {
	hc.hmu.Lock()
	if hc.harnessErr == nil {
		hc.harnessErr = err
	}
	hc.hmu.Unlock()
}

// RunFunc adapts the check to the explorer for one layer.
func (hc *HistCheck) RunFunc(l Layer) explore.RunFunc {
	return func(hist []string) explore.Result {
		legal, probs, outcome, key, trace, err := hc.exec(l.Cfg, hist)
		if err != nil {
			hc.setHarnessErr(fmt.Errorf("%s: %v: %w", l.Name, hist, err))
			return explore.Result{Legal: false}
		}
		if !legal {
			return explore.Result{Legal: false}
		}
		if len(probs) > 0 {
			// Replay-twice rule: identical observations required before reporting.
			for i := 0; i < 2; i++ {
				_, p2, _, _, t2, err2 := hc.exec(l.Cfg, hist)
				if err2 != nil || !sameProblems(probs, p2) || strings.Join(t2, ";") != strings.Join(trace, ";") {
					// Not reproducible: never reported as a violation. Remembered; if the run ends without
					// any confirmed violation the check ends as a harness error (exit 2), not as a pass.
					hc.hmu.Lock()
					hc.unconfirmed++
					if hc.unconfirmedMsg == "" {
						hc.unconfirmedMsg = fmt.Sprintf("%s: nondeterministic replay of %v: first=%v again=%v err=%v", l.Name, hist, probs, p2, err2)
					}
					hc.hmu.Unlock()
					return explore.Result{Legal: true, Key: key, Outcome: "nondeterministic"}
				}
			}
			for _, p := range probs {
				hc.rep.Report(&ev.Violation{
					Kind:      p.Kind,
					Signature: p.Kind + "|" + cfgClass(l.Cfg) + "|" + strings.Join(hist, " "),
					Detail:    Detail{Config: l.Cfg, History: hist, Trace: trace, Problem: p.String(), Layer: l.Name},
				})
			}
			outcome = "VIOLATION:" + probs[0].Kind
		}
		return explore.Result{Legal: true, Key: key, Outcome: outcome}
	}
}

// sameProblems compares the kinds of problems of two executions of the same
// history (details may embed wall-clock-relative text such as millisecond offsets).
func sameProblems(a, b []*scn.Problem) bool {
	ka, kb := map[string]bool{}, map[string]bool{}
	for _, p := range a {
		ka[p.Kind] = true
	}
	for _, p := range b {
		kb[p.Kind] = true
	}
	if len(ka) != len(kb) {
		return false
	}
	for k := range ka {
		if !kb[k] {
			return false
		}
	}
	return true
}

// LayerReport is the per-layer part of the evidence.
type LayerReport struct {
	Name     string   `json:"name"`
	Config   string   `json:"config"`
	Alphabet []string `json:"alphabet"`
	Depth    int      `json:"depth"`
	Seeds    int      `json:"seeds"`
	Merge    bool     `json:"merged"`
	*explore.Stats
	Outcomes []string `json:"top_outcomes"`
}

// RunLayers executes all layers within the budget and writes evidence. Returns the exit code.
func (hc *HistCheck) RunLayers(layers []Layer, budget time.Duration, assumptions []string, rule string) int {
	t := ev.Start()
	if hc.rep == nil {
		hc.rep = ev.NewReporter(hc.ID)
	}
	total, reports := hc.runLayers(layers, budget)
	if hc.harnessErr != nil {
		fmt.Fprintf(os.Stderr, "HARNESS ERROR (no verdict): %v\n", hc.harnessErr)
		return 2
	}
	return hc.finish(t, total, reports, assumptions, rule)
}

// RunLayersPart runs layers as one phase of a check that writes its own evidence (the caller supplies the
// reporter): it returns the coverage of the phase; ok=false means a harness error or an unconfirmed oracle
// failure (already printed) and the caller must end with exit 2.
func (hc *HistCheck) RunLayersPart(rep *ev.Reporter, layers []Layer, budget time.Duration) (cov map[string]any, ok bool) {
	hc.rep = rep
	total, reports := hc.runLayers(layers, budget)
	if hc.harnessErr != nil {
		fmt.Fprintf(os.Stderr, "HARNESS ERROR (no verdict): %v\n", hc.harnessErr)
		return nil, false
	}
	if hc.unconfirmed > 0 && rep.Unknown() == 0 {
		fmt.Fprintf(os.Stderr, "HARNESS ERROR (no verdict): %d oracle failures did not reproduce on replay, e.g. %s\n", hc.unconfirmed, hc.unconfirmedMsg)
		return nil, false
	}
	return map[string]any{
		"states": total.States, "transitions": total.Transitions, "traces_validated_against_impl": total.LegalRuns,
		"evaluations": total.Runs, "distinct_nontrivial": total.DistinctOutcome, "exhaustive": total.Exhaustive,
		"cap_hit": total.CapHit, "layers": reports, "top_outcomes": total.OutcomeList(12),
	}, true
}

func (hc *HistCheck) runLayers(layers []Layer, budget time.Duration) (*explore.Stats, []LayerReport) {
	deadline := time.Now().Add(budget)
	total := &explore.Stats{Exhaustive: true, Outcomes: map[string]int{}}
	var reports []LayerReport
	for li, l := range layers {
		// No layer may eat the budget of the ones after it: each gets at most its even share of what is left
		// (time a layer does not use is inherited by the later ones; a factor above 1 starves the last layers
		// geometrically: with 14 layers and factor 2 the last two were left 1% of the budget).
		ld := deadline
		if left := time.Until(deadline); left > 0 {
			if share := time.Now().Add(left / time.Duration(len(layers)-li)); share.Before(ld) {
				ld = share
			}
		}
		o := explore.Options{
			Alphabet: l.Alphabet, Depth: l.Depth, Seed: l.Seeds, Merge: l.Merge,
			Deadline: ld, MaxRuns: l.MaxRuns, Shuffle: ev.Seed(), Filter: l.Filter,
		}
		st := explore.BFS(o, hc.RunFunc(l))
		total.Add(st)
		reports = append(reports, LayerReport{Name: l.Name, Config: cfgClass(l.Cfg), Alphabet: l.Alphabet, Depth: l.Depth,
			Seeds: len(l.Seeds), Merge: l.Merge, Stats: st, Outcomes: st.OutcomeList(8)})
		fmt.Printf("[%s] layer %-28s runs=%d legal=%d states=%d depth=%d/%d outcomes=%d exhaustive=%v %s\n", hc.ID, l.Name, st.Runs, st.LegalRuns, st.States, st.CompletedDepth, l.Depth, st.DistinctOutcome, st.Exhaustive, st.CapHit)
		if hc.harnessErr != nil {
			break
		}
	}
	return total, reports
}

func (hc *HistCheck) finish(t ev.Timer, total *explore.Stats, reports []LayerReport, assumptions []string, rule string) int {
	samples := []any{}
	for _, s := range total.Samples {
		samples = append(samples, s)
	}
	if len(samples) == 0 {
		samples = append(samples, "(no legal history executed)")
	}
	// every outcome class in which an operation of the closing oracle failed, however rare (top_outcomes only shows
	// the most frequent ones): a failing closing sync must be explainable by the history, see DESIGN §10.16
	var errOutcomes []string
	for o, n := range total.Outcomes {
		lo := strings.ToLower(o)
		if strings.Contains(lo, "err:") || strings.Contains(lo, "failed") {
			errOutcomes = append(errOutcomes, fmt.Sprintf("%s ×%d", o, n))
		}
	}
	sort.Strings(errOutcomes)
	if len(errOutcomes) > 40 {
		errOutcomes = errOutcomes[:40]
	}
	e := &ev.Evidence{
		PropertyID: hc.ID, Tier: ev.Tier(), Seed: ev.Seed(), Level: hc.Level, WallS: t.S(),
		Violations:  hc.rep.Unknown(),
		Assumptions: assumptions,
		Coverage: map[string]any{
			"states":                          maxInt(total.States, 1),
			"transitions":                     maxInt64(total.Transitions, 1),
			"traces_validated_against_impl":   total.LegalRuns,
			"samples":                         samples,
			"evaluations":                     total.Runs,
			"distinct_nontrivial":             total.DistinctOutcome,
			"rule":                            rule,
			"exhaustive":                      total.Exhaustive,
			"cap_hit":                         total.CapHit,
			"layers":                          reports,
			"known_finding_reproductions":     hc.rep.KnownCount(),
			"top_outcomes":                    total.OutcomeList(12),
			"outcomes_with_failed_operations": errOutcomes,
		},
	}
	for k, v := range hc.ExtraCoverage {
		e.Coverage[k] = v
	}
	if err := ev.Write(e); err != nil {
		fmt.Fprintln(os.Stderr, "write evidence:", err)
		return 2
	}
	code := hc.rep.Finish()
	if code == 0 && hc.unconfirmed > 0 {
		fmt.Fprintf(os.Stderr, "HARNESS ERROR (no verdict): %d oracle failures did not reproduce on replay, e.g. %s\n", hc.unconfirmed, hc.unconfirmedMsg)
		return 2
	}
	fmt.Printf("[%s] %s tier: runs=%d transitions=%d states=%d distinct_outcomes=%d exhaustive=%v wall=%.1fs exit=%d\n",
		hc.ID, ev.Tier(), total.Runs, total.Transitions, total.States, total.DistinctOutcome, total.Exhaustive, t.S(), code)
	return code
}

func maxInt(a, b int) int {
	if a > b {
		return a
	}
	return b
}
func maxInt64(a, b int64) int64 {
	if a > b {
		return a
	}
	return b
}

// Replay re-executes the history of a replay file (no explorer involved).
func (hc *HistCheck) Replay(path string) int {
	b, err := os.ReadFile(path)
	if err != nil {
		fmt.Fprintln(os.Stderr, err)
		return 2
	}
	var v struct {
		Detail Detail `json:"detail"`
	}
	if err := json.Unmarshal(b, &v); err != nil {
		fmt.Fprintln(os.Stderr, err)
		return 2
	}
	legal, probs, outcome, _, trace, err := hc.exec(v.Detail.Config, v.Detail.History)
	fmt.Printf("history: %s\nconfig: %s\nlegal=%v outcome=%s err=%v\n", strings.Join(v.Detail.History, " "), cfgClass(v.Detail.Config), legal, outcome, err)
	for _, t := range trace {
		fmt.Println("  ", t)
	}
	var he *scn.HarnessError
	if errors.As(err, &he) {
		return 2
	}
	for _, p := range probs {
		fmt.Println("PROBLEM:", p)
	}
	if len(probs) > 0 {
		return 1
	}
	return 0
}

// replayArg extracts "--replay path" from args.
func replayArg(args []string) string {
	for i, a := range args {
		if a == "--replay" && i+1 < len(args) {
			return args[i+1]
		}
	}
	return ""
}

// histArg extracts "--history 'op op op'" from args.
func histArg(args []string) []string {
	for i, a := range args {
		if a == "--history" && i+1 < len(args) {
			return strings.Fields(args[i+1])
		}
	}
	return nil
}
