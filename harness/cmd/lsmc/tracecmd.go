package main

import (
	"fmt"
	"os"
	"strings"

	"lsverif/scn"
)

// lsmc trace <config-name> "<history>": runs one history and prints, after every operation, the outcome,
// the canonical state key and the newest local level-0 header (debugging aid, not a check).
func init() { register("trace", traceCmd) }

func traceCmd(args []string) int {
	if len(args) < 2 {
		fmt.Fprintln(os.Stderr, "usage: lsmc trace <config> \"<ops>\"")
		return 2
	}
	cfg, ok := c01Configs()[args[0]]
	if !ok {
		fmt.Fprintln(os.Stderr, "unknown config", args[0])
		return 2
	}
	s, err := scn.New(cfg)
	if err != nil {
		fmt.Fprintln(os.Stderr, err)
		return 2
	}
	defer s.Destroy()
	for _, op := range strings.Fields(args[1]) {
		o := s.Do(op)
		hdr, ok := s.L0Header()
		fmt.Printf("%-12s %-8s %s\n             l0 ok=%v %d-%d off=%d size=%d snapshot=%v | %s\n", op, o.String(), s.Key(), ok, hdr.MinTXID, hdr.MaxTXID, hdr.WALOffset, hdr.WALSize, hdr.IsSnapshot(), scn.Shape(s.ReplicaDir))
	}
	return 0
}
