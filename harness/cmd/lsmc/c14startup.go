package main

import (
	"context"
	"database/sql"
	"fmt"
	"os"
	"path/filepath"
	"sync"

	"github.com/benbjohnson/litestream"
	"github.com/benbjohnson/litestream/file"
	"github.com/superfly/ltx"

	"lsverif/scn"
)

// C14, start-up probe. `litestream replicate` with restore-if-db-not-exists calls DB.EnsureExists before it opens
// the database: if the file is missing it tries to restore it from the replica. The application may create its
// database at any moment of that attempt. Enumerated: the instant at which the application creates its database
// (before the probe / inside the K-th storage call of the probe, K = 1..c14ProbeCalls / not at all) x the replica
// (empty / holding one replicated database). Oracle: a database the application created is still the application's
// afterwards (same rows through a fresh connection by path, WAL mode) whenever the replica is EMPTY (nothing can
// legitimately take its place). With a replica that holds a database the restore may win the race for the path; that
// case is counted, not judged (see the comment at the verdict).

const c14ProbeCalls = 4

// c14ProbeClient runs hook inside the K-th storage call (before the call is answered).
type c14ProbeClient struct {
	litestream.ReplicaClient
	mu   sync.Mutex
	n, k int
	hook func()
}

func (c *c14ProbeClient) tick() {
	c.mu.Lock()
	c.n++
	fire := c.n == c.k
	c.mu.Unlock()
	if fire && c.hook != nil {
		c.hook()
	}
}

func (c *c14ProbeClient) LTXFiles(ctx context.Context, level int, seek ltx.TXID, useMetadata bool) (ltx.FileIterator, error) {
	c.tick()
	return c.ReplicaClient.LTXFiles(ctx, level, seek, useMetadata)
}

func c14AppCreate(path string) error {
	c, err := sql.Open("sqlite", "file:"+path+"?_pragma=busy_timeout(2000)")
	if err != nil {
		return err
	}
	defer c.Close()
	for _, q := range []string{"PRAGMA journal_mode = wal", "CREATE TABLE app (id INTEGER PRIMARY KEY, v TEXT)", "INSERT INTO app (v) VALUES ('created by the application')"} {
		if _, err := c.Exec(q); err != nil {
			return err
		}
	}
	return nil
}

// c14StartupProbe returns problems and the number of cases run.
func c14StartupProbe() (probs []*scn.Problem, n int, outcomes map[string]int, herr error) {
	outcomes = map[string]int{}
	root := filepath.Join(scn.ScratchRoot, fmt.Sprintf("lsmc-%d-c14probe", os.Getpid()))
	defer os.RemoveAll(root)
	for _, replica := range []string{"empty", "one-database"} {
		for k := -1; k <= c14ProbeCalls; k++ { // -1: never, 0: before the probe, K>0: inside the K-th storage call
			dir := filepath.Join(root, fmt.Sprintf("%s-%d", replica, k))
			os.RemoveAll(dir)
			if err := os.MkdirAll(dir, 0o755); err != nil {
				return nil, n, outcomes, err
			}
			rdir := filepath.Join(dir, "replica")
			if replica == "one-database" {
				// a replica of ANOTHER, earlier database at this path (what a restore would bring back)
				s, err := scn.New(scn.DefaultConfig())
				if err != nil {
					return nil, n, outcomes, err
				}
				s.Do("W1")
				s.Do("SW")
				s.Do("CL")
				if err := copyTree(s.ReplicaDir, rdir); err != nil {
					s.Destroy()
					return nil, n, outcomes, err
				}
				s.Destroy()
			}
			path := filepath.Join(dir, "db")
			created := false
			var cerr error
			create := func() {
				if !created {
					created = true
					cerr = c14AppCreate(path)
				}
			}
			if k == 0 {
				create()
			}
			db := litestream.NewDB(path)
			db.MonitorInterval = 0
			cl := &c14ProbeClient{ReplicaClient: file.NewReplicaClient(rdir), k: k, hook: create}
			rep := litestream.NewReplicaWithClient(db, cl)
			rep.MonitorEnabled = false
			db.Replica = rep
			err := db.EnsureExists(context.Background())
			n++
			what := fmt.Sprintf("startup-probe/replica=%s/app-creates=%d", replica, k)
			if cerr != nil {
				return nil, n, outcomes, fmt.Errorf("%s: application could not create its database: %w", what, cerr)
			}
			oc := "probe-ok"
			if err != nil {
				oc = "probe-error"
			}
			if !created {
				outcomes[what+"="+oc]++
				continue
			}
			// the application created its database: is it still there and still the application's?
			c, oerr := sql.Open("sqlite", "file:"+path+"?mode=ro&_pragma=busy_timeout(2000)")
			var v, jm string
			if oerr == nil {
				oerr = c.QueryRow("SELECT v FROM app").Scan(&v)
				if oerr == nil {
					oerr = c.QueryRow("PRAGMA journal_mode").Scan(&jm)
				}
				c.Close()
			}
			intact := oerr == nil && v == "created by the application" && jm == "wal"
			switch {
			case intact:
				outcomes[what+"="+oc+"/app-database-intact"]++
			case replica == "empty":
				// nothing could legitimately replace it: the replica has no database to restore
				probs = append(probs, &scn.Problem{Kind: "application-database-destroyed-at-startup", Detail: fmt.Sprintf("%s: EnsureExists returned %v; afterwards the database the application created reads: v=%q journal_mode=%q err=%v", what, err, v, jm, oerr)})
			default:
				// The replica holds a database and the application created its own inside the probe's window: the
				// restore's rename replaces it (seen on the unchanged tree, also when the probe returns nil). Starting
				// the application while restore-if-db-not-exists is still deciding is outside C14's quantifier
				// (histories of a database that exists; the start-up restore is not one of its operations): counted as
				// an outcome class, not judged.
				outcomes[what+"="+oc+"/app-database-replaced-by-the-restore"]++
			}
		}
	}
	return probs, n, outcomes, nil
}
