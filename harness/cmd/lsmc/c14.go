package main

import (
	"database/sql"
	"fmt"
	"os"
	"strings"
	"sync"
	"time"

	"lsverif/ev"
	"lsverif/scn"
)

func init() { register("c14", c14) }

var (
	c14Cache   = map[string]*scn.AppState{}
	c14CacheMu sync.Mutex
)

// c14Control replays the application projection of a history on a database that litestream never touches.
func c14Control(cfg scn.Config, proj []string) (*scn.AppState, error) {
	key := cfgClass(cfg) + "|" + strings.Join(proj, " ")
	c14CacheMu.Lock()
	st, ok := c14Cache[key]
	c14CacheMu.Unlock()
	if ok {
		return st, nil
	}
	s, err := scn.NewAppOnly(cfg)
	if err != nil {
		return nil, err
	}
	defer s.Destroy()
	for _, op := range proj {
		s.Do(op)
	}
	if !s.AppUp {
		s.Do("CO")
	}
	st, err = s.ObserveApp()
	if err != nil {
		return nil, err
	}
	c14CacheMu.Lock()
	c14Cache[key] = st
	c14CacheMu.Unlock()
	return st, nil
}

func c14Check() *HistCheck {
	return &HistCheck{
		ID:    "C14",
		Level: "model_checking",
		Final: func(s *scn.Scn) ([]*scn.Problem, string, error) {
			var proj []string
			for _, op := range s.History {
				if scn.IsAppOp(op) {
					proj = append(proj, op)
				} else if strings.HasPrefix(op, "LCW:") {
					proj = append(proj, "TXC") // the application's part of LCW is the commit of its open transaction
				}
			}
			if !s.AppUp {
				s.Do("CO")
				proj = append(proj, "CO")
			}
			// the application must still be able to write: one more write ends every history (it is part of
			// the projection replayed on the control, so a write blocked by a lock litestream leaked shows)
			if !s.InTx {
				if o := s.Do("W1"); !o.Illegal {
					proj = append(proj, "W1")
				}
			}
			got, err := s.ObserveApp()
			if err != nil {
				return []*scn.Problem{{Kind: "source-unreadable", Detail: scn.ErrClass(err)}}, "", nil
			}
			want, err := c14Control(s.Cfg, proj)
			if err != nil {
				return nil, "", &scn.HarnessError{Msg: "control run: " + err.Error()}
			}
			var probs []*scn.Problem
			// what an application process started NOW reads at the database path (the long-lived connections above
			// keep working on files that were unlinked or replaced under them)
			if !s.InTx {
				if fresh, ferr := c14FreshDump(s.DBPath); ferr != nil {
					probs = append(probs, &scn.Problem{Kind: "source-path-unusable", Detail: "a fresh connection by path: " + scn.ErrClass(ferr)})
				} else if fresh != got.Dump {
					probs = append(probs, &scn.Problem{Kind: "source-path-differs", Detail: "a fresh connection by path reads another database than the application's open connections: " + firstDiff(got.Dump, fresh)})
				}
			}
			if got.Dump != want.Dump {
				probs = append(probs, &scn.Problem{Kind: "application-data-altered", Detail: firstDiff(want.Dump, got.Dump)})
			}
			if got.Pragmas != want.Pragmas {
				probs = append(probs, &scn.Problem{Kind: "header-pragmas-altered", Detail: "without litestream: " + want.Pragmas + " / with: " + got.Pragmas})
			}
			if !strings.Contains(got.Pragmas, "journal_mode=wal") {
				probs = append(probs, &scn.Problem{Kind: "left-wal-mode", Detail: got.Pragmas})
			}
			for _, f := range strings.Fields(got.Extra) {
				switch {
				case strings.HasPrefix(f, "lock_rows=") && f != "lock_rows=0":
					probs = append(probs, &scn.Problem{Kind: "lock-table-not-empty", Detail: f})
				case strings.HasPrefix(f, "seq_ids=") && f != "seq_ids=" && f != "seq_ids=1":
					probs = append(probs, &scn.Problem{Kind: "seq-table-rows", Detail: f})
				case strings.HasPrefix(f, "integrity=") && f != "integrity=ok":
					probs = append(probs, &scn.Problem{Kind: "source-integrity", Detail: f})
				}
			}
			inited := strings.Contains(got.Extra, "seq_ids")
			return probs, fmt.Sprintf("ok/appops=%d/ls-inited=%v/%s", len(proj), inited, got.Pragmas[:strings.Index(got.Pragmas, " page_size")]), nil
		},
	}
}

// c14FreshDump opens the database by path on a new connection (read-only: a missing file is an error, not a new
// empty database) and returns its logical dump.
func c14FreshDump(path string) (string, error) {
	c, err := sql.Open("sqlite", "file:"+path+"?mode=ro&_pragma=busy_timeout(2000)")
	if err != nil {
		return "", err
	}
	defer c.Close()
	return scn.LogicalDumpDB(c)
}

func firstDiff(want, got string) string {
	w, g := strings.Split(want, "\n"), strings.Split(got, "\n")
	for i := 0; i < len(w) || i < len(g); i++ {
		var a, b string
		if i < len(w) {
			a = w[i]
		}
		if i < len(g) {
			b = g[i]
		}
		if a != b {
			return fmt.Sprintf("dump line %d: without litestream %q, with litestream %q", i+1, a, b)
		}
	}
	return "equal"
}

func c14(args []string) int {
	hc := c14Check()
	if p := replayArg(args); p != "" {
		return hc.Replay(p)
	}
	thorough := ev.Tier() == "thorough"
	d := func(q, t int) int {
		if thorough {
			return t
		}
		return q
	}
	cfgs := c01Configs()
	aCore := strings.Fields("W1 U D UV DDL S SW LC:PASSIVE LC:TRUNCATE SNAP CMP:1 CL START")
	aTx := strings.Fields("W1 TXB TXC TXR RDB RDE S SW LC:PASSIVE LC:TRUNCATE CK:TRUNCATE VAC")
	aWide := append(append([]string{}, alphaWide...), "UV", "SNAP", "CMP:1", "KILL", "NEW", "RSET")
	// local disk faults: a one-shot ENOSPC on the open / first write / fsync of the next (or second next) local
	// LTX staging file, so that every error path that runs while litestream holds its lock-table write
	// transaction (checkpoint barrier, boundary snapshot) is taken at least once
	aFault := strings.Fields("W1 U DDL S SW LC:PASSIVE LC:TRUNCATE LC:RESTART")
	var faultSeeds [][]string
	for _, base := range []string{"W3 SW", "W3 SW W1", "W3 SW LC:PASSIVE W1"} {
		for _, lf := range []string{"LF:write", "LF:open", "LF:sync", "LF:write:2"} {
			faultSeeds = append(faultSeeds, strings.Fields(base+" "+lf))
		}
	}
	// litestream's lock-table insert meeting a busy database: a checkpoint while the application holds the write
	// lock and commits 1.5 busy-timeouts later (operation LCW), so that every retry path around the insert runs
	busy := cfgs["base"]
	busy.BusyTimeoutMS = 30
	layers := []Layer{
		{Name: "seeded/busy/lock-insert-retry", Cfg: busy, Alphabet: strings.Fields("LCW:PASSIVE LCW:TRUNCATE LCW:RESTART S SW W1 TXB"), Depth: d(2, 3),
			Seeds: [][]string{strings.Fields("W3 SW TXB"), strings.Fields("W3 SW W1 S TXB")}},
		// litestream's checkpoint finding SQLite's checkpoint lock held by the application's own checkpoint (LCC)
		{Name: "seeded/base/checkpoint-vs-app-checkpoint", Cfg: cfgs["base"], Alphabet: strings.Fields("LCC:PASSIVE LCC:RESTART LCC:TRUNCATE W1 S SW"), Depth: d(2, 3),
			Seeds: [][]string{strings.Fields("W3 SW W1"), strings.Fields("W3 SW W1 S")}},
		// litestream is down when the application closes its last connection (SQLite checkpoints and removes the WAL),
		// then litestream comes back to a database it has replicated before and finds no WAL
		{Name: "seeded/base/wal-removed-while-down", Cfg: cfgs["base"], Alphabet: strings.Fields("CC CO W1 START NEW S SW LC:TRUNCATE"), Depth: d(4, 5),
			Seeds: [][]string{strings.Fields("W3 SW CL"), strings.Fields("W3 SW W1 KILL"), strings.Fields("W3 SW LC:TRUNCATE CL")}},
		// meta-path = the directory of the database itself: whatever litestream removes or rewrites under its meta
		// path sits next to the application's files (run-time reset, restarts, removal of the local state)
		{Name: "seeded/meta-in-db-dir/reset", Cfg: func() scn.Config { c := cfgs["base"]; c.MetaInDBDir = true; return c }(), Alphabet: strings.Fields("RSET W1 U S SW LC:TRUNCATE CL START KILL NEW"), Depth: d(3, 4),
			Seeds: [][]string{strings.Fields("W3 SW"), strings.Fields("W3 SW W1 S")}},
		{Name: "seeded/base/local-faults", Cfg: cfgs["base"], Alphabet: aFault, Depth: d(2, 4), Seeds: faultSeeds},
		{Name: "exact/min3/core", Cfg: cfgs["min3"], Alphabet: aCore, Depth: d(3, 5)},
		{Name: "exact/base/tx", Cfg: cfgs["base"], Alphabet: aTx, Depth: d(3, 5)},
		{Name: "exact/avincr/shape", Cfg: cfgs["avincr"], Alphabet: alphaShape, Depth: d(3, 4)},
		{Name: "seeded/trunc4/core", Cfg: cfgs["trunc4"], Alphabet: aCore, Depth: d(2, 3), Seeds: c01Seeds()},
		{Name: "seeded/ckint/tx", Cfg: cfgs["ckint"], Alphabet: aTx, Depth: d(1, 3), Seeds: c01Seeds()},
		{Name: "merged/min3-4k/wide", Cfg: cfgs["min3-4k"], Alphabet: aWide, Depth: d(8, 12), Merge: true, MaxRuns: int64(d(3000, 150000))},
		{Name: "merged/chunk1/wide", Cfg: cfgs["chunk1"], Alphabet: aWide, Depth: d(8, 12), Merge: true, MaxRuns: int64(d(2000, 100000))},
	}
	// start-up probe (c14startup.go): EnsureExists against an application creating its database at every instant
	prep := ev.NewReporter("C14")
	pprobs, pn, pout, perr := c14StartupProbe()
	if perr != nil {
		fmt.Fprintln(os.Stderr, "HARNESS ERROR (no verdict): start-up probe:", perr)
		return 2
	}
	for _, p := range pprobs {
		prep.Report(&ev.Violation{Kind: p.Kind, Signature: p.Kind + "|" + strings.SplitN(p.Detail, ":", 2)[0], Detail: map[string]any{"problem": p.String()}})
	}
	fmt.Printf("[C14] start-up probe: cases=%d outcome classes=%d problems=%d\n", pn, len(pout), len(pprobs))
	hc.rep = prep
	hc.ExtraCoverage = map[string]any{"startup_probe": map[string]any{"cases": pn, "outcomes": pout,
		"rule": fmt.Sprintf("DB.EnsureExists (restore-if-db-not-exists) with the application creating its database before the probe / inside the K-th storage call of the probe (K=1..%d) / never, against an empty replica and a replica holding another database; with an EMPTY replica a database the application created must still be the application's afterwards (rows, WAL mode); with a replica that holds a database the outcome is counted, not judged", c14ProbeCalls)}}
	return hc.RunLayers(layers, ev.Budget(100*time.Second, 40*time.Minute),
		[]string{
			"the control run replays exactly the application operations of the history on a database litestream never opens; results are cached per (configuration, projection)",
			"application operations are deterministic (row contents derive from a counter), so the two runs are comparable row by row",
		},
		"every history over the layer alphabet (application writes/DDL/VACUUM/transactions/pragmas interleaved with litestream sync, checkpoint, snapshot, compaction, close/start, kill/restart, reset, and one-shot ENOSPC faults on local LTX staging files) up to the layer depth; oracle: logical dump of user-visible schema and rows and header pragmas equal those of the same application history without litestream; _litestream_lock empty; _litestream_seq has at most the row id=1; integrity_check ok; journal_mode wal")
}
