package main

import (
	"crypto/sha256"
	"fmt"
	"os"
	"strings"
	"time"

	"lsverif/ev"
	"lsverif/scn"
)

func init() { register("c04", c04) }

// c04Grammar statically prunes histories that the driver would refuse anyway
// (litestream ops while it is down, START while up, ...), so that no run is
// wasted on them. It tracks only up/down, app up/down and "object exists".
func c04Grammar(seedLen map[string]bool) func(hist []string) bool {
	return func(hist []string) bool {
		up, app, saved, clean := true, true, false, false
		for _, op := range hist {
			name := op
			if i := strings.IndexByte(op, ':'); i >= 0 {
				name = op[:i]
			}
			switch name {
			case "S", "SW", "RS", "LC", "SNAP", "CMP", "SD":
				if !up {
					return false
				}
			case "CL", "KILL":
				if !up {
					return false
				}
				up = false
				clean = name == "CL"
			case "START": // stop/start of the same object exists only after a clean stop
				if up || !clean {
					return false
				}
				up = true
			case "NEW":
				if up {
					return false
				}
				up = true
			case "RMMETA":
				if up {
					return false
				}
			case "SAVEDB":
				if saved {
					return false
				}
				saved = true
			case "SWAPDB":
				if up || !saved {
					return false
				}
			case "W1", "W3", "WN", "CK", "U", "D", "VAC":
				if !app {
					return false
				}
			case "CC":
				if !app {
					return false
				}
				app = false
			case "CO":
				if app {
					return false
				}
				app = true
			}
		}
		return true
	}
}

type c04Snap struct {
	maxL0 uint64
	files map[string][32]byte
}

func snapReplica(s *scn.Scn) c04Snap {
	sn := c04Snap{files: map[string][32]byte{}}
	for _, fs := range scn.AllLevels(s.ReplicaDir) {
		for _, f := range fs {
			b, err := os.ReadFile(s.ReplicaFilePath(f))
			if err != nil {
				continue
			}
			sn.files[f.String()] = sha256.Sum256(b)
			if f.Level == 0 && uint64(f.Max) > sn.maxL0 {
				sn.maxL0 = uint64(f.Max)
			}
		}
	}
	return sn
}

func isDisturbance(op string) bool {
	switch op {
	case "CL", "KILL", "RSET", "RSETCLI", "RMMETA", "SWAPDB":
		return true
	}
	return false
}

// c04Check: after the first acknowledged sync following a disturbance, the
// restore equals the source, the replica has advanced to the local position,
// and nothing that was on the replica before the disturbance was rewritten.
func c04Check() *HistCheck {
	type st struct {
		before    *c04Snap
		disturbed bool
	}
	states := map[*scn.Scn]*st{}
	var mu = make(chan struct{}, 1)
	mu <- struct{}{}
	get := func(s *scn.Scn) *st {
		<-mu
		defer func() { mu <- struct{}{} }()
		x := states[s]
		if x == nil {
			x = &st{}
			states[s] = x
		}
		return x
	}
	drop := func(s *scn.Scn) {
		<-mu
		delete(states, s)
		mu <- struct{}{}
	}
	ackCheck := func(s *scn.Scn, x *st) []*scn.Problem {
		var probs []*scn.Problem
		p, err := s.AckOracle(false)
		if err != nil {
			return []*scn.Problem{{Kind: "harness", Detail: err.Error()}}
		}
		if p != nil {
			probs = append(probs, p)
		}
		loc, rem := s.LocalMaxL0(), s.RemoteMaxL0()
		if s.LSOpen {
			if rp := s.DB.Replica.Pos().TXID; rp != loc || rem != loc {
				probs = append(probs, &scn.Problem{Kind: "ack-without-advance", Detail: fmt.Sprintf("local L0 max=%d replica pos=%d remote L0 max=%d", loc, rp, rem)})
			}
		} else if rem != loc {
			probs = append(probs, &scn.Problem{Kind: "ack-without-advance", Detail: fmt.Sprintf("local L0 max=%d remote L0 max=%d", loc, rem)})
		}
		if x.before != nil {
			now := snapReplica(s)
			for name, h := range x.before.files {
				if h2, ok := now.files[name]; ok && h2 != h {
					probs = append(probs, &scn.Problem{Kind: "old-txid-rewritten", Detail: name + " changed on the replica after the disturbance"})
					break
				}
			}
		}
		return probs
	}
	return &HistCheck{
		ID:    "C04",
		Level: "model_checking",
		AfterOp: func(s *scn.Scn, op string, o scn.Outcome) *scn.Problem {
			x := get(s)
			if isDisturbance(op) && !x.disturbed {
				// snapshot taken lazily: the state of the replica when the first disturbance begins.
				x.disturbed = true
			}
			if x.before == nil && x.disturbed {
				sn := snapReplica(s)
				x.before = &sn
			}
			if o.Ack && x.disturbed && op != "CL" {
				if ps := ackCheck(s, x); len(ps) > 0 {
					return ps[0]
				}
			}
			return nil
		},
		Final: func(s *scn.Scn) ([]*scn.Problem, string, error) {
			x := get(s)
			defer drop(s)
			if !s.LSOpen {
				return nil, "down-at-end", nil
			}
			hdrBefore, _ := s.L0Header()
			o := s.Do("SW")
			if !o.Ack {
				// "it starts over with a full snapshot": after any disturbance of this alphabet (nothing here holds a
				// lock or injects a fault) replication must come back; a sync that keeps failing is the wedged state
				// the property rules out. One retry, as the monitor would do.
				if o2 := s.Do("SW"); !o2.Ack {
					return []*scn.Problem{{Kind: "sync-wedged-after-disturbance", Detail: "the closing SyncAndWait fails twice: " + o2.String()}}, "", nil
				}
			}
			probs := ackCheck(s, x)
			for _, p := range probs {
				if p.Kind == "harness" {
					return nil, "", &scn.HarnessError{Msg: p.Detail}
				}
			}
			hdr, _ := s.L0Header()
			kind := "noop"
			if hdr.MaxTXID != hdrBefore.MaxTXID {
				kind = "incr"
				if hdr.IsSnapshot() {
					kind = "snapshot"
				}
			}
			return probs, fmt.Sprintf("ok/after=%s/disturbed=%v", kind, x.disturbed), nil
		},
	}
}

func c04(args []string) int {
	hc := c04Check()
	if p := replayArg(args); p != "" {
		return hc.Replay(p)
	}
	base := cfgWith(func(c *scn.Config) { c.UseStore = true })
	nostore := cfgWith(func(c *scn.Config) { c.UseStore = false })
	k4 := cfgWith(func(c *scn.Config) { c.PageSize = 4096 })
	if h := histArg(args); h != nil {
		hc.rep = ev.NewReporter("C04")
		legal, probs, outcome, _, trace, err := hc.exec(base, h)
		fmt.Println(legal, probs, outcome, err)
		for _, t := range trace {
			fmt.Println("  ", t)
		}
		return 0
	}
	thorough := ev.Tier() == "thorough"
	d := func(q, t int) int {
		if thorough {
			return t
		}
		return q
	}
	seeds := func(ss ...string) [][]string {
		var out [][]string
		for _, s := range ss {
			out = append(out, strings.Fields(s))
		}
		return out
	}
	g := c04Grammar(nil)
	// Disturbance alphabet: lifecycle + application activity while down + run-time reset.
	alphaD := strings.Fields("CL KILL START NEW RSET W1 W3 CK:TRUNCATE CK:RESTART SW")
	alphaD2 := strings.Fields("CL KILL START NEW RMMETA RSETCLI CC CO W1 W3 CK:PASSIVE CK:TRUNCATE SW")
	alphaSwap := strings.Fields("SAVEDB W1 SW CL NEW START SWAPDB W3")
	alphaWideD := strings.Fields("CL KILL START NEW RSET RMMETA SAVEDB SWAPDB CC CO W1 W3 WN:9 CK:PASSIVE CK:FULL CK:RESTART CK:TRUNCATE S SW LC:TRUNCATE")
	// Minimal histories of the defects this check found and that were repaired (F1, F3, F3b, F2, F17, F18): each is
	// re-run first, alone and extended by one operation, so that a change which re-opens one of them is reported
	// whatever the time budget cuts later.
	fixed := seeds("W3 SW CL W1 CK:TRUNCATE START", "W3 SW RSET W1", "W3 SW W3 LC:TRUNCATE RSET", "W3 SW U S LC:TRUNCATE RSET",
		"W3 SW CL W3 CK:RESTART W1 NEW", "W3 SW SAVEDB W1 CL SWAPDB START W1",
		"W1 W1 W1 W1 W1 W1 W1 W1 W1 W1 W1 W1 SW CL CK:RESTART U CK:RESTART W3 NEW",
		"W3 SW W1 CL W1 CK:TRUNCATE START")
	layers := []Layer{
		{Name: "regression/fixed-findings", Cfg: base, Alphabet: strings.Fields("W1 U SW"), Depth: 1, Seeds: fixed},
		// run-time reset while the replica lags behind local syncs and checkpoints
		{Name: "seeded/store/reset-lagging-replica", Cfg: base, Alphabet: strings.Fields("RSET W1 U S SW LC:TRUNCATE LC:PASSIVE CK:TRUNCATE"), Depth: d(3, 5),
			Seeds: seeds("W3 SW U S", "W3 SW U S LC:TRUNCATE", "W3 SW W1 S LC:PASSIVE")},
		// litestream dies (or is closed) while at rest right after its OWN checkpoint: the newest local file is the
		// one-frame bookkeeping file at the start of a restarted WAL; the application then restarts the WAL again
		{Name: "seeded/nostore/down-after-own-checkpoint", Cfg: nostore, Alphabet: strings.Fields("W1 U CK:PASSIVE CK:TRUNCATE NEW SW"), Depth: d(4, 5),
			Seeds: seeds("W3 SW LC:PASSIVE SW KILL", "W3 SW LC:TRUNCATE SW KILL", "W3 SW LC:PASSIVE SW CL"), Filter: g},
		// the stop arrives with committed, unsynced transactions (the closing sync of Close has work to do and leaves
		// its own bookkeeping behind), the application then writes / checkpoints / restarts the WAL while stopped,
		// and the SAME object is started again (IPC stop/start) or a new process takes over
		{Name: "seeded/store/stop-with-pending-writes", Cfg: base, Alphabet: strings.Fields("W1 U CK:TRUNCATE CK:RESTART CK:PASSIVE START NEW SW"), Depth: d(4, 5),
			Seeds: seeds("W3 SW W1 CL", "W3 SW U S CL", "W3 SW LC:TRUNCATE W1 CL"), Filter: g},
		{Name: "exact/store/lifecycle+reset", Cfg: base, Alphabet: alphaD, Depth: d(4, 6), Seeds: seeds("W3 SW", "W3 SW W1"), Filter: g},
		{Name: "exact/nostore/lifecycle+meta", Cfg: nostore, Alphabet: alphaD2, Depth: d(4, 6), Seeds: seeds("W3 SW", "W3 W3 SW LC:TRUNCATE W1 SW"), Filter: g},
		{Name: "exact/store/swapdb", Cfg: base, Alphabet: alphaSwap, Depth: d(5, 7), Seeds: seeds("W3 SW"), Filter: g},
		// right after a restart: snapshots and compactions taken before/without new application writes
		{Name: "seeded/store/restart-then-snapshot", Cfg: base, Alphabet: strings.Fields("S SW FSNAP CMP:1 W1 LC:PASSIVE"), Depth: d(3, 4),
			Seeds: seeds("W3 SW W1 SW KILL NEW", "W3 SW W1 S KILL NEW", "W3 SW W1 SW CL START", "W3 SW LC:TRUNCATE W1 SW KILL NEW"), Filter: g},
		{Name: "merged/store/wide", Cfg: base, Alphabet: alphaWideD, Depth: d(7, 12), Seeds: seeds("W3 SW", "W3 SW W1 S"), Merge: true, MaxRuns: int64(d(5000, 200000)), Filter: g},
		{Name: "merged/4k/wide", Cfg: k4, Alphabet: alphaWideD, Depth: d(6, 10), Seeds: seeds("W3 SW"), Merge: true, MaxRuns: int64(d(2500, 100000)), Filter: g},
	}
	return hc.RunLayers(layers, ev.Budget(100*time.Second, 45*time.Minute),
		[]string{
			"process kill is approximated in-process by dropping litestream's handles without the final sync (KILL); syscall-granular kills are C03's job",
			"file replica only; no retention/compaction in these histories, so every pre-disturbance replica file must stay byte-identical",
		},
		"every history = seed prefix + every sequence over the disturbance alphabet (clean close, kill, restart with new objects, stop/start of the same object, run-time and offline reset, meta dir removal, database swap, application writes/checkpoints/connection close while litestream is down) up to the layer depth, pruned by a static up/down grammar; closed by an implicit SyncAndWait; oracle: page-exact restore + replica position == local position + no pre-disturbance TXID rewritten")
}
