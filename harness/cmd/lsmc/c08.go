package main

// C08 — "Restore plans are valid chains and are found whenever one exists".
//
// Bounded-exhaustive enumeration of replica file sets against
// litestream.CalcRestorePlan, judged by an independent brute-force
// reachability reference (c08Reach / c08Judge below).

import (
	"context"
	"encoding/json"
	"errors"
	"fmt"
	"io"
	"log/slog"
	"math/bits"
	"os"
	"runtime"
	"sort"
	"strings"
	"sync"
	"sync/atomic"
	"time"

	"github.com/benbjohnson/litestream"
	"github.com/superfly/ltx"

	"lsverif/ev"
)

func init() { register("c08", c08) }

// ---------------------------------------------------------------------------
// Case description (also the replay format).

var c08Base = time.Unix(1700000000, 0).UTC()

func c08At(ms int) time.Time { return c08Base.Add(time.Duration(ms) * time.Millisecond) }

// c08File is one file on the replica. CreatedAt = c08Base + AtMs milliseconds.
type c08File struct {
	Level int `json:"level"`
	Min   int `json:"min"`
	Max   int `json:"max"`
	AtMs  int `json:"created_at_ms"`
}

func (f c08File) String() string { return fmt.Sprintf("L%d[%d,%d]@%d", f.Level, f.Min, f.Max, f.AtMs) }

func c08FilesString(fs []c08File) string {
	s := make([]string, len(fs))
	for i, f := range fs {
		s[i] = f.String()
	}
	return strings.Join(s, " ")
}

type c08Kind uint8

const (
	c08Latest c08Kind = iota
	c08TXID
	c08TS
)

var c08KindNames = [...]string{"latest", "txid", "timestamp"}

func (k c08Kind) MarshalText() ([]byte, error) { return []byte(c08KindNames[k]), nil }
func (k *c08Kind) UnmarshalText(b []byte) error {
	for i, n := range c08KindNames {
		if n == string(b) {
			*k = c08Kind(i)
			return nil
		}
	}
	return fmt.Errorf("bad target kind %q", b)
}

type c08Target struct {
	Kind c08Kind `json:"kind"`
	TXID int     `json:"txid,omitempty"`
	AtMs int     `json:"timestamp_ms,omitempty"`
}

func (t c08Target) String() string {
	switch t.Kind {
	case c08TXID:
		return fmt.Sprintf("txid=%d", t.TXID)
	case c08TS:
		return fmt.Sprintf("ts=%d", t.AtMs)
	}
	return "latest"
}

type c08Out struct {
	Plan []c08File `json:"plan"`
	Err  string    `json:"err,omitempty"`
}

type c08Ref struct {
	Reach              []int  `json:"reach"`                // frontiers reachable by eligible files, chain may start with any file whose MinTXID is 1
	ReachSnapshotFirst []int  `json:"reach_snapshot_first"` // same, but first file must be a level-9 snapshot (informational)
	MaxReach           int    `json:"max_reach"`
	Gap                bool   `json:"gap"` // some file of the set has MinTXID > MaxReach+1
	Expect             string `json:"expect"`
}

type c08Detail struct {
	Phase   string    `json:"phase,omitempty"`
	Files   []c08File `json:"files"`
	Target  c08Target `json:"target"`
	Planner c08Out    `json:"planner"`
	Ref     c08Ref    `json:"reference"`
	Why     string    `json:"why,omitempty"`
}

// ---------------------------------------------------------------------------
// Reference (independent of the planner).

func c08Eligible(f c08File, tg c08Target) bool {
	switch tg.Kind {
	case c08TXID:
		return f.Max <= tg.TXID
	case c08TS:
		return f.AtMs < tg.AtMs // "no file created at or after the timestamp"
	}
	return true
}

// c08Reach returns the bitset of frontiers (bit c = a chain ending exactly at
// TXID c exists) reachable using only files eligible for the target. A chain
// starts with a file whose MinTXID is 1 (a level-9 file if snapFirst); file f
// extends frontier c iff f.Min <= c+1 && f.Max > c.
func c08Reach(files []c08File, tg c08Target, snapFirst bool) uint64 {
	var reach uint64
	for _, f := range files {
		if c08Eligible(f, tg) && f.Min == 1 && (!snapFirst || f.Level == litestream.SnapshotLevel) {
			reach |= 1 << uint(f.Max)
		}
	}
	for changed := true; changed; {
		changed = false
		for _, f := range files {
			if !c08Eligible(f, tg) || reach&(1<<uint(f.Max)) != 0 {
				continue
			}
			for c := 1; c < f.Max; c++ {
				if reach&(1<<uint(c)) != 0 && f.Min <= c+1 {
					reach |= 1 << uint(f.Max)
					changed = true
					break
				}
			}
		}
	}
	return reach
}

func c08Bits(m uint64) []int {
	out := []int{}
	for m != 0 {
		b := bits.TrailingZeros64(m)
		out = append(out, b)
		m &^= 1 << uint(b)
	}
	return out
}

func c08MaxBit(m uint64) int {
	if m == 0 {
		return 0
	}
	return 63 - bits.LeadingZeros64(m)
}

type c08Verdict struct {
	Kind       string // "" = holds
	Why        string
	Reach      uint64
	MaxReach   int
	Gap        bool
	ExpectPlan bool
}

// c08Judge decides requirements (1)-(3) for one (set, target, planner output).
func c08Judge(files []c08File, tg c08Target, plan []c08File, gotErr bool) c08Verdict {
	v := c08Verdict{Reach: c08Reach(files, tg, false)}
	v.MaxReach = c08MaxBit(v.Reach)
	for _, f := range files {
		if f.Min > v.MaxReach+1 {
			v.Gap = true
		}
	}
	switch tg.Kind {
	case c08TXID:
		v.ExpectPlan = v.Reach&(1<<uint(tg.TXID)) != 0
	case c08TS:
		v.ExpectPlan = v.Reach != 0
	default:
		v.ExpectPlan = v.Reach != 0 && !v.Gap
	}
	if gotErr {
		if v.ExpectPlan {
			v.Kind, v.Why = "plan-not-found", "a valid chain to the target exists but the planner returned an error"
		}
		return v
	}
	// (1) the returned plan is a valid chain of files of the set.
	if len(plan) == 0 {
		v.Kind, v.Why = "plan-not-chain", "nil error with an empty plan"
		return v
	}
	for i, p := range plan {
		found := false
		for _, f := range files {
			if f == p {
				found = true
				break
			}
		}
		if !found {
			v.Kind, v.Why = "plan-not-chain", fmt.Sprintf("plan[%d]=%s is not a file of the set", i, p)
			return v
		}
	}
	if plan[0].Min != 1 {
		v.Kind, v.Why = "plan-not-chain", fmt.Sprintf("first file %s does not start at TXID 1", plan[0])
		return v
	}
	for i := 1; i < len(plan); i++ {
		prev := plan[i-1].Max
		if !(plan[i].Min <= prev+1 && plan[i].Max > prev) {
			v.Kind, v.Why = "plan-not-chain", fmt.Sprintf("plan[%d]=%s does not extend previous end %d", i, plan[i], prev)
			return v
		}
	}
	end := plan[len(plan)-1].Max
	switch tg.Kind {
	case c08TS:
		for i, p := range plan {
			if p.AtMs >= tg.AtMs {
				v.Kind, v.Why = "uses-late-file", fmt.Sprintf("plan[%d]=%s created at/after requested timestamp %d", i, p, tg.AtMs)
				return v
			}
		}
	case c08TXID:
		if end != tg.TXID {
			v.Kind, v.Why = "wrong-end", fmt.Sprintf("plan ends at %d, requested TXID %d", end, tg.TXID)
			return v
		}
	}
	// (2) for latest / timestamp targets the plan reaches as far as any chain can.
	if tg.Kind != c08TXID && end != v.MaxReach {
		v.Kind, v.Why = "wrong-end", fmt.Sprintf("plan ends at %d, furthest reachable frontier is %d", end, v.MaxReach)
		return v
	}
	// (3) latest: files beyond the gap must turn the result into an error.
	if tg.Kind == c08Latest && v.Gap {
		v.Kind, v.Why = "gap-not-reported", fmt.Sprintf("plan stops at %d but the set has a file starting beyond %d", end, v.MaxReach+1)
		return v
	}
	return v
}

// ---------------------------------------------------------------------------
// In-memory ReplicaClient: serves per-level listings in (MinTXID, MaxTXID) order.

type c08Iter struct {
	a    []*ltx.FileInfo
	init bool
}

func (it *c08Iter) Close() error { return nil }
func (it *c08Iter) Err() error   { return nil }
func (it *c08Iter) Next() bool {
	if !it.init {
		it.init = true
	} else if len(it.a) > 0 {
		it.a = it.a[1:]
	}
	return len(it.a) > 0
}
func (it *c08Iter) Item() *ltx.FileInfo {
	if len(it.a) == 0 {
		return nil
	}
	return it.a[0]
}

type c08Client struct {
	levels [litestream.SnapshotLevel + 1][]*ltx.FileInfo
}

var _ litestream.ReplicaClient = (*c08Client)(nil)

func (c *c08Client) Type() string                   { return "c08mem" }
func (c *c08Client) Init(ctx context.Context) error { return nil }
func (c *c08Client) SetLogger(*slog.Logger)         {}
func (c *c08Client) LTXFiles(ctx context.Context, level int, seek ltx.TXID, useMetadata bool) (ltx.FileIterator, error) {
	if level < 0 || level >= len(c.levels) {
		return &c08Iter{}, nil
	}
	a := c.levels[level]
	if seek != 0 { // same filter as the file backend
		var b []*ltx.FileInfo
		for _, f := range a {
			if f.MinTXID >= seek {
				b = append(b, f)
			}
		}
		a = b
	}
	return &c08Iter{a: a}, nil
}
func (c *c08Client) OpenLTXFile(context.Context, int, ltx.TXID, ltx.TXID, int64, int64) (io.ReadCloser, error) {
	panic("c08: planner must not open files")
}
func (c *c08Client) WriteLTXFile(context.Context, int, ltx.TXID, ltx.TXID, io.Reader) (*ltx.FileInfo, error) {
	panic("c08: planner must not write files")
}
func (c *c08Client) DeleteLTXFiles(context.Context, []*ltx.FileInfo) error {
	panic("c08: planner must not delete files")
}
func (c *c08Client) DeleteAll(context.Context) error { panic("c08: planner must not delete files") }

// ---------------------------------------------------------------------------
// Worker: runs the planner on loaded file sets and accumulates statistics.

type c08Stats struct {
	evals, sets              int64
	plans, errs              int64
	gapExpected              int64 // latest targets where the reference demands a gap error
	chainOnlyWithoutSnapshot int64 // a plan is expected but no chain starts with a level-9 file
	violations               int64
	classes                  map[uint32]int64
	samples                  map[uint32]*c08Detail
}

func (s *c08Stats) merge(o *c08Stats) {
	s.evals += o.evals
	s.sets += o.sets
	s.plans += o.plans
	s.errs += o.errs
	s.gapExpected += o.gapExpected
	s.chainOnlyWithoutSnapshot += o.chainOnlyWithoutSnapshot
	s.violations += o.violations
	if s.classes == nil {
		s.classes, s.samples = map[uint32]int64{}, map[uint32]*c08Detail{}
	}
	for k, n := range o.classes {
		s.classes[k] += n
	}
	for k, d := range o.samples {
		if cur, ok := s.samples[k]; !ok || len(d.Files) < len(cur.Files) ||
			(len(d.Files) == len(cur.Files) && c08FilesString(d.Files)+d.Target.String() < c08FilesString(cur.Files)+cur.Target.String()) {
			s.samples[k] = d
		}
	}
}

const (
	c08OutPlan = iota
	c08OutUnavailable
	c08OutGapErr
	c08OutOtherErr
)

var c08OutNames = [...]string{"plan", "err:tx-not-available", "err:non-contiguous", "err:other"}

func c08ClassName(k uint32) string {
	out, n, lv, tk := k&3, (k>>2)&15, (k>>6)&1023, (k>>16)&3
	var ls []string
	for l := 0; l < 10; l++ {
		if lv&(1<<uint(l)) != 0 {
			ls = append(ls, fmt.Sprintf("L%d", l))
		}
	}
	return fmt.Sprintf("%s/%s/len=%d/levels={%s}", c08KindNames[tk], c08OutNames[out], n, strings.Join(ls, ","))
}

type c08Worker struct {
	phase  string
	rep    *ev.Reporter
	logger *slog.Logger
	client c08Client
	files  []c08File
	infos  []ltx.FileInfo
	plan   []c08File
	st     c08Stats
}

func newC08Worker(phase string, rep *ev.Reporter) *c08Worker {
	return &c08Worker{
		phase:  phase,
		rep:    rep,
		logger: slog.New(slog.DiscardHandler),
		st:     c08Stats{classes: map[uint32]int64{}, samples: map[uint32]*c08Detail{}},
	}
}

// load installs a file set; files must be unique in (level,min,max).
func (w *c08Worker) load(files []c08File) {
	sorted := true
	for i := 1; i < len(files); i++ {
		a, b := files[i-1], files[i]
		if a.Level > b.Level || (a.Level == b.Level && (a.Min > b.Min || (a.Min == b.Min && a.Max > b.Max))) {
			sorted = false
		}
	}
	w.files = append(w.files[:0], files...)
	if !sorted {
		sort.Slice(w.files, func(i, j int) bool {
			a, b := w.files[i], w.files[j]
			if a.Level != b.Level {
				return a.Level < b.Level
			}
			if a.Min != b.Min {
				return a.Min < b.Min
			}
			return a.Max < b.Max
		})
	}
	if cap(w.infos) < len(files) {
		w.infos = make([]ltx.FileInfo, len(files), 2*len(files)+8)
	}
	w.infos = w.infos[:len(files)]
	for l := range w.client.levels {
		w.client.levels[l] = w.client.levels[l][:0]
	}
	for i, f := range w.files {
		w.infos[i] = ltx.FileInfo{Level: f.Level, MinTXID: ltx.TXID(f.Min), MaxTXID: ltx.TXID(f.Max), Size: 1, CreatedAt: c08At(f.AtMs)}
		w.client.levels[f.Level] = append(w.client.levels[f.Level], &w.infos[i])
	}
	w.st.sets++
}

// run calls the real planner for one target on the loaded set.
func (w *c08Worker) run(tg c08Target) (plan []c08File, err error) {
	var txid ltx.TXID
	var ts time.Time
	switch tg.Kind {
	case c08TXID:
		txid = ltx.TXID(tg.TXID)
	case c08TS:
		ts = c08At(tg.AtMs)
	}
	infos, err := litestream.CalcRestorePlan(context.Background(), &w.client, txid, ts, w.logger)
	w.plan = w.plan[:0]
	for _, in := range infos {
		if in == nil {
			w.plan = append(w.plan, c08File{Level: -1})
			continue
		}
		w.plan = append(w.plan, c08File{Level: in.Level, Min: int(in.MinTXID), Max: int(in.MaxTXID), AtMs: int(in.CreatedAt.Sub(c08Base) / time.Millisecond)})
	}
	return w.plan, err
}

func c08ErrClass(err error) uint32 {
	switch {
	case err == nil:
		return c08OutPlan
	case errors.Is(err, litestream.ErrTxNotAvailable):
		return c08OutUnavailable
	case strings.Contains(err.Error(), "non-contiguous"):
		return c08OutGapErr
	}
	return c08OutOtherErr
}

func (w *c08Worker) detail(tg c08Target, plan []c08File, err error, v c08Verdict) *c08Detail {
	d := &c08Detail{Phase: w.phase, Files: append([]c08File(nil), w.files...), Target: tg, Why: v.Why}
	d.Planner.Plan = append([]c08File{}, plan...)
	if err != nil {
		d.Planner.Err = err.Error()
		d.Planner.Plan = []c08File{}
	}
	d.Ref = c08Ref{Reach: c08Bits(v.Reach), ReachSnapshotFirst: c08Bits(c08Reach(w.files, tg, true)), MaxReach: v.MaxReach, Gap: v.Gap}
	switch {
	case v.ExpectPlan && tg.Kind == c08TXID:
		d.Ref.Expect = fmt.Sprintf("plan ending at %d", tg.TXID)
	case v.ExpectPlan:
		d.Ref.Expect = fmt.Sprintf("plan ending at %d", v.MaxReach)
	case tg.Kind == c08Latest && v.Reach != 0:
		d.Ref.Expect = "error (gap)"
	default:
		d.Ref.Expect = "error (no chain)"
	}
	return d
}

const c08MaxStored = 400

// eval = run + judge + bookkeeping. Returns the verdict.
func (w *c08Worker) eval(tg c08Target) c08Verdict {
	plan, err := w.run(tg)
	v := c08Judge(w.files, tg, plan, err != nil)
	st := &w.st
	st.evals++
	oc := c08ErrClass(err)
	var key uint32
	if err == nil {
		st.plans++
		var lv uint32
		for _, p := range plan {
			if p.Level >= 0 && p.Level < 10 {
				lv |= 1 << uint(p.Level)
			}
		}
		n := len(plan)
		if n > 15 {
			n = 15
		}
		key = oc | uint32(n)<<2 | lv<<6
	} else {
		st.errs++
		key = oc
	}
	key |= uint32(tg.Kind) << 16
	if st.classes[key]++; st.classes[key] == 1 {
		st.samples[key] = w.detail(tg, plan, err, v)
	}
	if tg.Kind == c08Latest && v.Reach != 0 && v.Gap {
		st.gapExpected++
	}
	if v.ExpectPlan {
		rs := c08Reach(w.files, tg, true)
		if (tg.Kind == c08TXID && rs&(1<<uint(tg.TXID)) == 0) || (tg.Kind != c08TXID && rs == 0) {
			st.chainOnlyWithoutSnapshot++
		}
	}
	if v.Kind != "" {
		st.violations++
		if w.rep != nil && w.rep.Unknown() < c08MaxStored {
			w.rep.Report(&ev.Violation{
				Kind:      v.Kind,
				Signature: v.Kind + "|" + c08FilesString(w.files) + "|" + tg.String(),
				Detail:    w.detail(tg, plan, err, v),
			})
		}
	}
	return v
}

// ---------------------------------------------------------------------------
// Enumeration.

// c08Universe returns U(N) ordered by (level, min, max); AtMs is 0.
func c08Universe(n int) []c08File {
	var u []c08File
	for k := 1; k <= n; k++ {
		u = append(u, c08File{Level: 0, Min: k, Max: k})
	}
	for _, l := range []int{1, 2} {
		for a := 1; a <= n; a++ {
			for b := a; b <= n; b++ {
				u = append(u, c08File{Level: l, Min: a, Max: b})
			}
		}
	}
	for b := 1; b <= n; b++ {
		u = append(u, c08File{Level: litestream.SnapshotLevel, Min: 1, Max: b})
	}
	return u
}

// c08Targets: latest, TXID 1..N+1, and timestamps before / 1ms before / at /
// 1ms after / after every value of the file-time domain.
func c08Targets(n int, times []int, latestOnly bool) []c08Target {
	t := []c08Target{{Kind: c08Latest}}
	if latestOnly {
		return t
	}
	for x := 1; x <= n+1; x++ {
		t = append(t, c08Target{Kind: c08TXID, TXID: x})
	}
	t = append(t, c08Target{Kind: c08TS, AtMs: times[0] - 500})
	for _, ms := range times {
		t = append(t, c08Target{Kind: c08TS, AtMs: ms - 1}, c08Target{Kind: c08TS, AtMs: ms}, c08Target{Kind: c08TS, AtMs: ms + 1})
	}
	t = append(t, c08Target{Kind: c08TS, AtMs: times[len(times)-1] + 5000})
	return t
}

// c08SubsetsUpTo lists all subsets of {0..m-1} with at most k elements, by size then lexicographically.
func c08SubsetsUpTo(m, k int) []uint64 {
	out := []uint64{0}
	for size := 1; size <= k && size <= m; size++ {
		idx := make([]int, size)
		for i := range idx {
			idx[i] = i
		}
		for {
			var mask uint64
			for _, i := range idx {
				mask |= 1 << uint(i)
			}
			out = append(out, mask)
			i := size - 1
			for i >= 0 && idx[i] == m-size+i {
				i--
			}
			if i < 0 {
				break
			}
			idx[i]++
			for j := i + 1; j < size; j++ {
				idx[j] = idx[j-1] + 1
			}
		}
	}
	return out
}

type c08Phase struct {
	Name     string
	N        int
	Desc     string
	Chunks   int
	Targets  []c08Target
	RunChunk func(w *c08Worker, p *c08Phase, chunk int)
}

type c08PhaseResult struct {
	Name        string  `json:"name"`
	Desc        string  `json:"what"`
	N           int     `json:"N"`
	Targets     int     `json:"targets_per_set"`
	ChunksTotal int     `json:"chunks_total"`
	ChunksDone  int     `json:"chunks_done"`
	Sets        int64   `json:"file_sets_with_timestamps"`
	Evaluations int64   `json:"evaluations"`
	Violations  int64   `json:"violations"`
	Exhaustive  bool    `json:"exhaustive"`
	WallS       float64 `json:"wall_s"`
}

// monotone timestamps: CreatedAt = MaxTXID seconds (files with equal MaxTXID tie).
func c08Monotone(f c08File) c08File { f.AtMs = f.Max * 1000; return f }

func c08MaskFiles(u []c08File, mask uint64, buf []c08File) []c08File {
	buf = buf[:0]
	for m := mask; m != 0; m &= m - 1 {
		buf = append(buf, u[bits.TrailingZeros64(m)])
	}
	return buf
}

// phase: explicit list of masks, monotone timestamps, all targets.
func c08PhaseMasksMonotone(name, desc string, n int, masks []uint64, per int, latestOnly bool) *c08Phase {
	u := c08Universe(n)
	for i := range u {
		u[i] = c08Monotone(u[i])
	}
	var times []int
	for k := 1; k <= n; k++ {
		times = append(times, k*1000)
	}
	return &c08Phase{Name: name, N: n, Desc: desc, Chunks: (len(masks) + per - 1) / per, Targets: c08Targets(n, times, latestOnly),
		RunChunk: func(w *c08Worker, p *c08Phase, chunk int) {
			var buf []c08File
			for i := chunk * per; i < (chunk+1)*per && i < len(masks); i++ {
				buf = c08MaskFiles(u, masks[i], buf)
				w.load(buf)
				for _, tg := range p.Targets {
					w.eval(tg)
				}
			}
		}}
}

// phase: every mask in [0, 2^|U|) in numeric order, monotone timestamps.
func c08PhaseAllMasksNumeric(name, desc string, n int, chunkBits uint, latestOnly bool) *c08Phase {
	u := c08Universe(n)
	for i := range u {
		u[i] = c08Monotone(u[i])
	}
	var times []int
	for k := 1; k <= n; k++ {
		times = append(times, k*1000)
	}
	total := uint64(1) << uint(len(u))
	return &c08Phase{Name: name, N: n, Desc: desc, Chunks: int(total >> chunkBits), Targets: c08Targets(n, times, latestOnly),
		RunChunk: func(w *c08Worker, p *c08Phase, chunk int) {
			var buf []c08File
			lo := uint64(chunk) << chunkBits
			for m := lo; m < lo+(1<<chunkBits); m++ {
				buf = c08MaskFiles(u, m, buf)
				w.load(buf)
				for _, tg := range p.Targets {
					w.eval(tg)
				}
			}
		}}
}

// phase: explicit list of masks, every assignment of timestamps from dom to the files, all targets.
func c08PhaseMasksAllTimes(name, desc string, n int, masks []uint64, per int, dom []int) *c08Phase {
	u := c08Universe(n)
	return &c08Phase{Name: name, N: n, Desc: desc, Chunks: (len(masks) + per - 1) / per, Targets: c08Targets(n, dom, false),
		RunChunk: func(w *c08Worker, p *c08Phase, chunk int) {
			var buf []c08File
			var digit []int
			for i := chunk * per; i < (chunk+1)*per && i < len(masks); i++ {
				buf = c08MaskFiles(u, masks[i], buf)
				digit = append(digit[:0], make([]int, len(buf))...)
				for {
					for j := range buf {
						buf[j].AtMs = dom[digit[j]]
					}
					w.load(buf)
					for _, tg := range p.Targets {
						w.eval(tg)
					}
					j := 0
					for j < len(digit) {
						digit[j]++
						if digit[j] < len(dom) {
							break
						}
						digit[j] = 0
						j++
					}
					if j == len(digit) {
						break
					}
				}
			}
		}}
}

func c08RunPhase(p *c08Phase, rep *ev.Reporter, deadline time.Time, total *c08Stats) c08PhaseResult {
	t0 := time.Now()
	nw := runtime.GOMAXPROCS(0)
	var next int64
	var mu sync.Mutex
	var wg sync.WaitGroup
	var st c08Stats
	for i := 0; i < nw; i++ {
		wg.Add(1)
		go func() {
			defer wg.Done()
			w := newC08Worker(p.Name, rep)
			for {
				if time.Now().After(deadline) {
					break
				}
				c := int(atomic.AddInt64(&next, 1) - 1)
				if c >= p.Chunks {
					break
				}
				p.RunChunk(w, p, c)
			}
			mu.Lock()
			st.merge(&w.st)
			mu.Unlock()
		}()
	}
	wg.Wait()
	// Chunks are handed out in order and a started chunk is always finished,
	// so exactly the first min(next, Chunks) chunks are complete — unless the
	// deadline made workers stop, in which case `next` counts only started (= finished) chunks.
	done := int(next)
	if done > p.Chunks {
		done = p.Chunks
	}
	total.merge(&st)
	return c08PhaseResult{Name: p.Name, Desc: p.Desc, N: p.N, Targets: len(p.Targets), ChunksTotal: p.Chunks, ChunksDone: done,
		Sets: st.sets, Evaluations: st.evals, Violations: st.violations, Exhaustive: done == p.Chunks, WallS: float64(time.Since(t0).Milliseconds()) / 1000}
}

// ---------------------------------------------------------------------------

const c08Rule = "Every case is (file set S, target) run through the real litestream.CalcRestorePlan over an in-memory ReplicaClient that lists each level in (MinTXID,MaxTXID) filename order. " +
	"Universe U(N) = {L0 [k,k]} u {L1,L2 every [a,b], 1<=a<=b<=N} u {L9 every [1,b]}; each phase enumerates its stated family of subsets of U(N) COMPLETELY (no sampling), with CreatedAt either monotone (MaxTXID seconds, so equal-MaxTXID files tie) or every assignment from the phase's time domain; " +
	"targets per set: latest, every TXID 1..N+1, and timestamps T = first-500ms, each domain value -1ms / exactly / +1ms, last+5s. " +
	"Reference: reach(S,target) = fixpoint of frontiers reachable by eligible files (TXID target: MaxTXID<=target; T: CreatedAt<T strictly; latest: all), first file any file with MinTXID==1 " +
	"(READING USED: the planner accepts a non-snapshot first file when no eligible L9 file exists, so 'a valid chain exists' does not require a level-9 first file; cases where a chain exists only without a snapshot are counted in chain_only_without_snapshot and are NOT violations), f extends c iff f.Min<=c+1 && f.Max>c. " +
	"Checked: (1) a returned plan is non-empty, consists of files of S, starts at MinTXID 1, is a chain by that rule, ends exactly at a requested TXID, has no file with CreatedAt>=T; " +
	"(2) TXID target in reach / timestamp target with reach non-empty => a plan, not an error; latest or T plan must end at max(reach); " +
	"(3) latest: if ANY file of S (any level) has MinTXID > max(reach)+1 the planner must return an error (any error accepted; kind recorded in classes) instead of a plan, and if there is no such file and reach is non-empty it must return a plan. " +
	"The planner implements (3) as 'some level 0..8 cursor's next unread file has MinTXID > currentMax+1'; since L9 files always have MinTXID 1 this is the same condition on the enumerated inputs. " +
	"distinct_nontrivial = number of distinct (target kind, outcome kind plan/err:tx-not-available/err:non-contiguous/err:other, plan length, set of levels used in the plan) classes observed, counted with a map; samples = smallest case of each class (capped)."

func c08(args []string) int {
	if p := replayArg(args); p != "" {
		return c08Replay(p)
	}
	timer := ev.Start()
	budget := ev.Budget(70*time.Second, 20*time.Minute)
	deadline := time.Now().Add(budget)
	rep := ev.NewReporter("C08")
	thorough := ev.Tier() == "thorough"

	var phases []*c08Phase
	// Quick tier.
	phases = append(phases, c08PhaseMasksAllTimes("N3-le4-alltimes",
		"all subsets of <=4 files of U(3), every assignment of CreatedAt from {1000,2000,3000}ms (non-monotone included), all targets",
		3, c08SubsetsUpTo(18, 4), 1, []int{1000, 2000, 3000}))
	all3 := make([]uint64, 1<<18)
	for i := range all3 {
		all3[i] = uint64(i)
	}
	sort.SliceStable(all3, func(i, j int) bool { return bits.OnesCount64(all3[i]) < bits.OnesCount64(all3[j]) })
	phases = append(phases, c08PhaseMasksMonotone("N3-all-monotone",
		"all 2^18 subsets of U(3) (smallest first), CreatedAt = MaxTXID seconds, all targets", 3, all3, 128, false))
	phases = append(phases, c08PhaseMasksMonotone("N4-le4-monotone",
		"all subsets of <=4 files of U(4), CreatedAt = MaxTXID seconds, all targets", 4, c08SubsetsUpTo(28, 4), 128, false))
	if thorough {
		phases = append(phases,
			c08PhaseMasksAllTimes("N5-le4-times2",
				"all subsets of <=4 files of U(5), every assignment of CreatedAt from {1000,2000}ms, all targets",
				5, c08SubsetsUpTo(40, 4), 64, []int{1000, 2000}),
			c08PhaseMasksMonotone("N5-le4-monotone",
				"all subsets of <=4 files of U(5), CreatedAt = MaxTXID seconds, all targets",
				5, c08SubsetsUpTo(40, 4), 256, false),
			c08PhaseMasksAllTimes("N4-le6-times2",
				"all subsets of <=6 files of U(4) (smallest first), every assignment of CreatedAt from {1000,2000}ms, all targets",
				4, c08SubsetsUpTo(28, 6), 32, []int{1000, 2000}),
			c08PhaseAllMasksNumeric("N4-all-latest",
				"all 2^28 subsets of U(4) in numeric bitmask order (bit i = i-th file of U(4) ordered by level,min,max), target latest only",
				4, 14, true))
	}

	var total c08Stats
	var results []c08PhaseResult
	exhaustive := true
	for _, p := range phases {
		r := c08RunPhase(p, rep, deadline, &total)
		results = append(results, r)
		fmt.Printf("c08: phase %-18s chunks %d/%d sets=%d evaluations=%d violations=%d %.1fs\n", r.Name, r.ChunksDone, r.ChunksTotal, r.Sets, r.Evaluations, r.Violations, r.WallS)
		if !r.Exhaustive {
			exhaustive = false
		}
	}
	if total.evals == 0 {
		fmt.Fprintln(os.Stderr, "c08: nothing evaluated")
		return 2
	}

	classes := map[string]int64{}
	keys := make([]uint32, 0, len(total.classes))
	for k, n := range total.classes {
		classes[c08ClassName(k)] = n
		keys = append(keys, k)
	}
	sort.Slice(keys, func(i, j int) bool { return c08ClassName(keys[i]) < c08ClassName(keys[j]) })
	// Samples: one real case per class, spread over the class list, at most 24.
	samples := []any{}
	step := (len(keys) + 23) / 24
	if step < 1 {
		step = 1
	}
	for i := 0; i < len(keys); i += step {
		d := total.samples[keys[i]]
		samples = append(samples, map[string]any{"class": c08ClassName(keys[i]), "files": c08FilesString(d.Files), "target": d.Target.String(),
			"planner": d.Planner, "reference": d.Ref})
	}
	covered := []string{}
	for _, r := range results {
		if r.Exhaustive {
			covered = append(covered, r.Name+": complete")
		} else {
			covered = append(covered, fmt.Sprintf("%s: first %d of %d chunks (budget ran out)", r.Name, r.ChunksDone, r.ChunksTotal))
		}
	}
	e := &ev.Evidence{
		PropertyID: "C08", Tier: ev.Tier(), Seed: ev.Seed(), Level: "exploration",
		WallS: timer.S(), Violations: rep.Unknown(),
		Coverage: map[string]any{
			"evaluations":                 total.evals,
			"distinct_nontrivial":         len(total.classes),
			"rule":                        c08Rule,
			"samples":                     samples,
			"exhaustive":                  exhaustive,
			"covered":                     covered,
			"phases":                      results,
			"file_sets_with_timestamps":   total.sets,
			"plans_returned":              total.plans,
			"errors_returned":             total.errs,
			"latest_gap_cases":            total.gapExpected,
			"chain_only_without_snapshot": total.chainOnlyWithoutSnapshot,
			"violating_evaluations":       total.violations,
			"classes":                     classes,
			"budget_s":                    budget.Seconds(),
		},
		Assumptions: []string{
			"only the listing order real backends deliver ((MinTXID,MaxTXID) filename order per level) is served; out-of-order listings are outside the property",
			"file sets contain at most one file per (level,MinTXID,MaxTXID), as a directory/bucket does; level-9 files always have MinTXID 1",
			"levels {0,1,2,9} stand for all of 0..9: the planner treats levels 0..8 uniformly (one cursor each, level only breaks ties)",
			"VERIF_SEED is not used: every enumeration is complete and in a fixed order",
		},
	}
	if total.violations > 0 && int(total.violations) > rep.Unknown()+rep.KnownCount() {
		fmt.Printf("c08: %d violating evaluations in total; first %d kept for classification\n", total.violations, rep.Unknown()+rep.KnownCount())
	}
	if err := ev.Write(e); err != nil {
		fmt.Fprintln(os.Stderr, "c08: write evidence:", err)
		return 2
	}
	fmt.Printf("c08: tier=%s evaluations=%d sets=%d classes=%d exhaustive=%v chain_only_without_snapshot=%d wall=%.1fs\n",
		ev.Tier(), total.evals, total.sets, len(total.classes), exhaustive, total.chainOnlyWithoutSnapshot, timer.S())
	return rep.Finish()
}

// c08Replay re-evaluates the single case stored in a replay file.
func c08Replay(path string) int {
	b, err := os.ReadFile(path)
	if err != nil {
		fmt.Fprintln(os.Stderr, "c08:", err)
		return 2
	}
	var doc struct {
		Kind      string    `json:"kind"`
		Signature string    `json:"signature"`
		Detail    c08Detail `json:"detail"`
	}
	if err := json.Unmarshal(b, &doc); err != nil {
		fmt.Fprintln(os.Stderr, "c08: bad replay file:", err)
		return 2
	}
	w := newC08Worker("replay", nil)
	w.load(doc.Detail.Files)
	tg := doc.Detail.Target
	plan, perr := w.run(tg)
	v := c08Judge(w.files, tg, plan, perr != nil)
	d := w.detail(tg, plan, perr, v)
	fmt.Printf("files:     %s\ntarget:    %s\n", c08FilesString(w.files), tg)
	if perr != nil {
		fmt.Printf("planner:   error: %v\n", perr)
	} else {
		fmt.Printf("planner:   plan %s\n", c08FilesString(plan))
	}
	fmt.Printf("reference: reach=%v (snapshot-first reach=%v) max=%d gap=%v expect=%s\n", d.Ref.Reach, d.Ref.ReachSnapshotFirst, d.Ref.MaxReach, d.Ref.Gap, d.Ref.Expect)
	if v.Kind != "" {
		fmt.Printf("verdict:   VIOLATES C08: %s: %s (recorded kind: %s)\n", v.Kind, v.Why, doc.Kind)
		return 1
	}
	fmt.Println("verdict:   holds")
	return 0
}
