package main

import (
	"context"
	"fmt"
	"os"
	"path/filepath"
	"strings"
	"time"

	"github.com/benbjohnson/litestream"
	"github.com/benbjohnson/litestream/file"
	"github.com/superfly/ltx"

	"lsverif/ev"
	"lsverif/scn"
)

func init() { register("c07", c07) }

// retentionInvariants checks the state of a replica directory after a retention pass.
func retentionInvariants(replicaDir, tmpDir string, pageSize int, want *scn.Image, seqRoot uint32, hadSnapshot bool, what string) []*scn.Problem {
	var probs []*scn.Problem
	add := func(k, d string) {
		probs = append(probs, &scn.Problem{Kind: k, Detail: what + ": " + d + " [" + scn.Shape(replicaDir) + "]"})
	}
	im, err := scn.RestoreFrom(replicaDir, tmpDir, pageSize, scn.RestoreOpt{})
	if err != nil {
		add("latest-unrestorable-after-retention", scn.ErrClass(err))
	} else if d := scn.Compare(want, im, seqRoot); d != nil {
		add("latest-differs-after-retention", d.String())
	}
	if hadSnapshot && len(scn.ListLevel(replicaDir, litestream.SnapshotLevel)) == 0 {
		add("no-snapshot-left", "a snapshot existed before the pass and none remains")
	}
	l0 := scn.ListLevel(replicaDir, 0)
	for i := 1; i < len(l0); i++ {
		if l0[i].Min != l0[i-1].Max+1 {
			add("l0-not-one-run", fmt.Sprintf("surviving level-0 files %s then %s", l0[i-1], l0[i]))
			break
		}
	}
	return probs
}

func listing(replicaDir string) string {
	var sb strings.Builder
	for l := 0; l <= litestream.SnapshotLevel; l++ {
		for _, f := range scn.ListLevel(replicaDir, l) {
			fmt.Fprintf(&sb, "%s:%d ", f, f.Size)
		}
	}
	return sb.String()
}

// fanOut applies, on copies of the replica and local LTX trees, every
// assignment of {old, young} ages to the level-0 files (and to the snapshots)
// followed by the corresponding retention pass, for both RetentionEnabled
// settings, and checks the invariants after each.
func c07FanOut(s *scn.Scn, maxFiles int) (probs []*scn.Problem, evals int) {
	want, err := s.Restore(scn.RestoreOpt{})
	if err != nil {
		return nil, 0 // nothing restorable yet: nothing for retention to preserve
	}
	s.RefreshSeqRoot()
	hadSnap := len(scn.ListLevel(s.ReplicaDir, litestream.SnapshotLevel)) > 0
	l0 := scn.ListLevel(s.ReplicaDir, 0)
	l9 := scn.ListLevel(s.ReplicaDir, litestream.SnapshotLevel)
	type job struct {
		level int
		mask  int
		n     int
		ret   bool
	}
	var jobs []job
	addMasks := func(level, n int) {
		if n == 0 {
			return
		}
		if n <= maxFiles {
			for m := 0; m < 1<<n; m++ {
				jobs = append(jobs, job{level, m, n, true})
			}
		} else {
			// beyond the cap: every prefix (monotone ages) and every single exception to it
			seen := map[int]bool{}
			for k := 0; k <= n; k++ {
				m := 1<<k - 1
				for j := -1; j < n; j++ {
					x := m
					if j >= 0 {
						x ^= 1 << j
					}
					if !seen[x] {
						seen[x] = true
						jobs = append(jobs, job{level, x, n, true})
					}
				}
			}
		}
	}
	addMasks(0, len(l0))
	addMasks(9, len(l9))
	// RetentionEnabled=false: monotone prefixes only (the pass must leave the remote listing untouched)
	for k := 0; k <= len(l0); k++ {
		jobs = append(jobs, job{0, 1<<k - 1, len(l0), false})
	}
	for k := 0; k <= len(l9); k++ {
		jobs = append(jobs, job{9, 1<<k - 1, len(l9), false})
	}
	now := time.Now()
	old, young := now.Add(-2*time.Hour), now
	for _, j := range jobs {
		evals++
		work := filepath.Join(s.Dir, fmt.Sprintf("fan-%d", evals))
		os.MkdirAll(work, 0o755)
		if err := copyTree(s.ReplicaDir, filepath.Join(work, "replica")); err != nil {
			probs = append(probs, &scn.Problem{Kind: "harness", Detail: "copy replica: " + err.Error()})
			return
		}
		copyTree(s.DB.MetaPath(), filepath.Join(work, ".db-litestream"))
		rdir := filepath.Join(work, "replica")
		files := scn.ListLevel(rdir, j.level)
		var desc []string
		for i, f := range files {
			t := young
			if j.mask&(1<<i) != 0 {
				t = old
			}
			p := filepath.Join(rdir, "ltx", fmt.Sprint(f.Level), ltx.FormatFilename(f.Min, f.Max))
			os.Chtimes(p, t, t)
			if t == old {
				desc = append(desc, f.String()+"=old")
			} else {
				desc = append(desc, f.String()+"=young")
			}
		}
		db := litestream.NewDB(filepath.Join(work, "db"))
		db.MonitorInterval = 0
		cl := file.NewReplicaClient(rdir)
		db.Replica = litestream.NewReplicaWithClient(db, cl)
		db.Replica.MonitorEnabled = false
		db.RetentionEnabled = j.ret
		db.L0Retention = time.Hour
		if err := db.Open(); err != nil {
			probs = append(probs, &scn.Problem{Kind: "harness", Detail: "open fan-out db: " + err.Error()})
			return
		}
		before := listing(rdir)
		what := fmt.Sprintf("level-%d ages {%s} retention_enabled=%v", j.level, strings.Join(desc, " "), j.ret)
		ctx := context.Background()
		var perr error
		if j.level == 0 {
			perr = db.EnforceL0RetentionByTime(ctx)
		} else {
			var floor ltx.TXID
			floor, perr = db.EnforceSnapshotRetention(ctx, now.Add(-time.Hour))
			for _, l := range s.Cfg.Levels {
				if perr == nil {
					perr = db.EnforceRetentionByTXID(ctx, l, floor)
				}
			}
		}
		db.Close(ctx)
		if perr != nil {
			probs = append(probs, &scn.Problem{Kind: "retention-pass-failed", Detail: what + ": " + scn.ErrClass(perr)})
		}
		probs = append(probs, retentionInvariants(rdir, work, s.Cfg.PageSize, want, s.SeqRoot, hadSnap, what)...)
		if !j.ret && listing(rdir) != before {
			probs = append(probs, &scn.Problem{Kind: "remote-deleted-although-delegated", Detail: what + ": remote listing changed with RetentionEnabled=false"})
		}
		os.RemoveAll(work)
		if len(probs) > 3 {
			return
		}
	}
	return
}

type c07State struct {
	evals int
}

func c07Check(maxFiles int) *HistCheck {
	return &HistCheck{
		ID:    "C07",
		Level: "model_checking",
		AfterOp: func(s *scn.Scn, op string, o scn.Outcome) *scn.Problem {
			// In-history retention passes (monotone ages) must not fail; their effect is judged at the end of the history.
			if strings.HasPrefix(op, "RET") && o.Err != nil {
				return &scn.Problem{Kind: "retention-pass-failed", Detail: op + ": " + o.String()}
			}
			// "the surviving level-0 files form one contiguous run ending at the newest": whatever the upload
			// backlog and the cached positions of the live objects, a retention pass leaves the newest REPLICATED
			// level-0 file in place (judged on the live objects here; the fan-out below uses fresh ones).
			var newest ltx.TXID
			if l0 := scn.ListLevel(s.ReplicaDir, 0); len(l0) > 0 {
				newest = l0[len(l0)-1].Max
			}
			prev, _ := s.User.(ltx.TXID)
			s.User = newest
			if strings.HasPrefix(op, "RET") && prev > 0 && newest < prev {
				return &scn.Problem{Kind: "newest-l0-removed", Detail: fmt.Sprintf("%s: newest replicated level-0 TXID was %d, level 0 now ends at %d (%s)", op, prev, newest, scn.Shape(s.ReplicaDir))}
			}
			return nil
		},
		Final: func(s *scn.Scn) ([]*scn.Problem, string, error) {
			if !s.LSOpen {
				return nil, "down", nil
			}
			// The next acknowledged sync after any in-history retention must work and be page-exact (local state not wedged).
			o := s.Do("SW")
			if !o.Ack {
				return []*scn.Problem{{Kind: "sync-wedged-after-retention", Detail: "final SyncAndWait: " + o.String()}}, "", nil
			}
			p, err := s.AckOracle(false)
			if err != nil {
				return nil, "", err
			}
			var probs []*scn.Problem
			if p != nil {
				probs = append(probs, p)
			}
			hadSnap := false
			for _, op := range s.History {
				if op == "SNAP" || op == "FSNAP" {
					hadSnap = true
				}
			}
			want, _, _ := s.SourceImage()
			s.RefreshSeqRoot()
			probs = append(probs, retentionInvariants(s.ReplicaDir, s.Dir, s.Cfg.PageSize, want, s.SeqRoot, hadSnap && len(scn.ListLevel(s.ReplicaDir, 9)) >= 0 && snapshotEverWritten(s), "end of history")...)
			fp, evals := c07FanOut(s, maxFiles)
			for _, x := range fp {
				if x.Kind == "harness" {
					return nil, "", &scn.HarnessError{Msg: x.Detail}
				}
			}
			probs = append(probs, fp...)
			return probs, fmt.Sprintf("ok/%s/fan=%d", shapeClass(s), bucket(evals)), nil
		},
	}
}

func snapshotEverWritten(s *scn.Scn) bool {
	for _, t := range s.Trace {
		if t == "SNAP=ok" || t == "FSNAP=ok" {
			return true
		}
	}
	return false
}

func bucket(n int) int {
	switch {
	case n < 10:
		return n
	case n < 40:
		return n / 10 * 10
	}
	return n / 50 * 50
}

func c07(args []string) int {
	thorough := ev.Tier() == "thorough"
	d := func(q, t int) int {
		if thorough {
			return t
		}
		return q
	}
	hc := c07Check(d(5, 6))
	if p := replayArg(args); p != "" {
		return hc.Replay(p)
	}
	l2 := cfgWith(func(c *scn.Config) { c.L0RetentionNS = int64(1000 * time.Hour) }) // in-history CMP:1 does not prune; RETL0:k does
	l2auto := cfgWith(func(c *scn.Config) { c.L0RetentionNS = 1 })                   // CMP:1 prunes every covered level-0 file at once
	l2off := cfgWith(func(c *scn.Config) { c.L0RetentionNS = 1; c.RetentionEnabled = false })
	nostore := cfgWith(func(c *scn.Config) { c.UseStore = false; c.L0RetentionNS = int64(1000 * time.Hour) })
	if h := histArg(args); h != nil {
		hc.rep = ev.NewReporter("C07")
		legal, probs, outcome, _, trace, err := hc.exec(l2, h)
		fmt.Println(legal, probs, outcome, err, trace)
		return 0
	}
	a := strings.Fields("W1 SW CMP:1 CMP:2 SNAP RETL0A:1 RETL0A:2 RETL0A:3 RET9A:1 RET9A:2")
	aAuto := strings.Fields("W1 SW S CMP:1 CMP:2 SNAP RET9A:1 RET9A:2 LC:TRUNCATE")
	seeds := [][]string{
		strings.Fields("W1 SW W1 SW W1 SW"),
		strings.Fields("W1 SW W1 SW CMP:1 W1 SW SNAP"),
		strings.Fields("W1 SW SNAP W1 SW CMP:1 CMP:2 W1 SW SNAP W1 SW"),
		strings.Fields("W1 SW CMP:1 W1 SW CMP:1 W1 S W1 S"),
	}
	layers := []Layer{
		{Name: "exact/store", Cfg: l2, Alphabet: a, Depth: d(3, 5)},
		{Name: "seeded/store", Cfg: l2, Alphabet: a, Depth: d(2, 3), Seeds: seeds},
		{Name: "seeded/auto-prune", Cfg: l2auto, Alphabet: aAuto, Depth: d(2, 3), Seeds: seeds},
		{Name: "seeded/retention-delegated", Cfg: l2off, Alphabet: aAuto, Depth: d(1, 3), Seeds: seeds},
		{Name: "seeded/nostore", Cfg: nostore, Alphabet: a, Depth: d(1, 3), Seeds: seeds},
		{Name: "merged/store", Cfg: l2, Alphabet: append(append([]string{}, a...), "S", "LC:TRUNCATE", "W3", "D"), Depth: d(7, 10), Merge: true, MaxRuns: int64(d(600, 40000)), Seeds: seeds[:2]},
	}
	return hc.RunLayers(layers, ev.Budget(110*time.Second, 40*time.Minute),
		[]string{
			"file ages are set with os.Chtimes on replica files: 'old' = 2h before the pass, 'young' = now, thresholds 1h; in-history passes (RETL0:k, RET9:k) use monotone ages, the end-of-history fan-out uses every {old,young} assignment (all 2^m for m<=cap, prefixes with single exceptions beyond)",
			"the fan-out runs the real retention functions of a fresh litestream.DB over copies of the replica and local LTX trees, so each assignment starts from the same state",
		},
		"every history over {write, sync, compact L1/L2, snapshot, level-0 retention with the first k files old, snapshot retention (with cascade) with the first k snapshots old} up to the layer depth; at the end of each history, for every age assignment and both RetentionEnabled settings: restore(latest) succeeds and equals the source, a snapshot remains if one existed, surviving level-0 files form one run, delegated retention leaves the remote listing untouched; the following SyncAndWait succeeds and is page-exact")
}
