package main

import (
	"bufio"
	"fmt"
	"os"
	"path/filepath"
	"regexp"
	"sort"
	"strconv"
	"strings"
	"sync"
	"sync/atomic"
	"time"

	"github.com/benbjohnson/litestream"
	"github.com/superfly/ltx"

	"lsverif/ev"
	"lsverif/scn"
)

func init() { register("c03", c03) }

// TraceLine is one recorded syscall of the worker.
type TraceLine struct {
	Seq  int // 0 for uncounted lines ("-")
	Tid  int
	Name string
	KV   map[string]string
	Ret  string
	Raw  string
}

func parseTrace(path string) ([]TraceLine, error) {
	f, err := os.Open(path)
	if err != nil {
		return nil, err
	}
	defer f.Close()
	var out []TraceLine
	sc := bufio.NewScanner(f)
	sc.Buffer(make([]byte, 1<<20), 1<<20)
	for sc.Scan() {
		l := sc.Text()
		fs := strings.Fields(l)
		if len(fs) < 5 {
			continue
		}
		t := TraceLine{KV: map[string]string{}, Raw: l}
		if fs[0] != "-" {
			t.Seq, _ = strconv.Atoi(fs[0])
		}
		t.Tid, _ = strconv.Atoi(fs[1])
		t.Name = fs[2]
		for _, kv := range fs[3:] {
			if kv == "=" {
				break
			}
			if i := strings.IndexByte(kv, '='); i > 0 {
				t.KV[kv[:i]] = kv[i+1:]
			}
		}
		t.Ret = fs[len(fs)-1]
		out = append(out, t)
	}
	return out, sc.Err()
}

// normTrace renders the counted calls of a trace relative to the scenario dir, for the determinism gate.
func normTrace(tr []TraceLine, dir string) []string {
	var out []string
	for _, t := range tr {
		if t.Seq == 0 {
			continue
		}
		var parts []string
		for _, k := range []string{"path", "old", "new", "len", "off", "flags"} {
			if v, ok := t.KV[k]; ok {
				parts = append(parts, k+"="+normTmp(strings.TrimPrefix(v, dir)))
			}
		}
		out = append(out, t.Name+" "+strings.Join(parts, " "))
	}
	return out
}

type e3Scenario struct {
	Name string
	Cfg  scn.Config
	Ops  []string
}

type e3KillResult struct {
	K        int
	Killed   bool
	Before   string // syscall killat reported
	InFlight string // op during which the worker died
	Problems []*scn.Problem
	Harness  error
}

// verifyLTXTree checks that every final-named *.ltx file under root decodes and passes its checksum.
func verifyLTXTree(root string) *scn.Problem {
	for l := 0; l <= litestream.SnapshotLevel; l++ {
		for _, f := range scn.ListLevel(root, l) {
			p := filepath.Join(root, "ltx", strconv.Itoa(l), ltx.FormatFilename(f.Min, f.Max))
			fh, err := os.Open(p)
			if err != nil {
				continue
			}
			dec := ltx.NewDecoder(fh)
			err = dec.Verify()
			fh.Close()
			if err != nil {
				return &scn.Problem{Kind: "half-written-final-file", Detail: fmt.Sprintf("%s does not verify: %v", strings.TrimPrefix(p, root), err)}
			}
			if h := dec.Header(); h.MinTXID != f.Min || h.MaxTXID != f.Max {
				return &scn.Problem{Kind: "half-written-final-file", Detail: fmt.Sprintf("%s header txids %d-%d", p, h.MinTXID, h.MaxTXID)}
			}
		}
	}
	return nil
}

// e3RunKill executes a scenario with the worker killed before its K-th counted
// call (K=0: no kill, plain run used for recording), then checks C03's clauses.
func e3RunKill(sc e3Scenario, K int, variant string, traceFile string) (res e3KillResult) {
	res.K = K
	s, err := scn.NewAppOnly(sc.Cfg)
	if err != nil {
		res.Harness = err
		return
	}
	defer s.Destroy()
	mode := "kill " + strconv.Itoa(K)
	if K == 0 {
		mode = "record " + traceFile
	}
	p, err := startWorker(s.Dir, sc.Cfg, mode)
	if err != nil && p == nil {
		res.Harness = err
		return
	}
	if err != nil { // died during attach/open: a legitimate kill point
		res.Killed, res.Before = p.KilledAt()
		res.InFlight = "(attach)"
		if !res.Killed {
			res.Harness = err
			return
		}
	}
	s.Remote = p
	defer p.Stop()

	// State at the last acknowledgement before the kill.
	ackIdx, ackTXID, ackDigest := -1, ltx.TXID(0), ""
	if !res.Killed {
		for _, op := range sc.Ops {
			if strings.HasPrefix(op, "RESTORE") || op == "PING" {
				r, derr := p.Do(op)
				if derr != nil {
					s.RemoteDead = true
					res.InFlight = op
					break
				}
				if strings.HasPrefix(r, "err") {
					res.Problems = append(res.Problems, &scn.Problem{Kind: "restore-failed", Detail: r})
				}
				continue
			}
			o := s.Do(op)
			if s.RemoteDead {
				res.InFlight = op
				break
			}
			if o.Ack {
				ackIdx = len(s.Ledger) - 1
				ackTXID = s.RemoteMaxL0()
				if im, rerr := s.Restore(scn.RestoreOpt{}); rerr == nil {
					s.RefreshSeqRoot()
					ackDigest = scn.Digest(im, s.SeqRoot)
				}
			}
		}
	}
	p.Stop()
	if K == 0 {
		return
	}
	res.Killed, res.Before = p.KilledAt()
	if !res.Killed {
		return // K beyond the end of this run
	}

	// (i) no half-written file under a final name.
	if pr := verifyLTXTree(s.ReplicaDir); pr != nil {
		res.Problems = append(res.Problems, pr)
	}
	if pr := verifyLTXTree(filepath.Join(s.Dir, ".db-litestream")); pr != nil {
		res.Problems = append(res.Problems, pr)
	}
	if b, rerr := os.ReadFile(filepath.Join(s.Dir, "restored")); rerr == nil {
		want, werr := s.Restore(scn.RestoreOpt{})
		if werr != nil || string(want.Data) != string(b) {
			res.Problems = append(res.Problems, &scn.Problem{Kind: "partial-restore-output", Detail: fmt.Sprintf("restore output exists after kill (%d bytes) but is not the complete latest state (err=%v)", len(b), werr)})
		}
	}
	// (ii) everything acknowledged before the kill is still restorable.
	if ackIdx >= 0 {
		im, rerr := s.Restore(scn.RestoreOpt{})
		if rerr != nil {
			res.Problems = append(res.Problems, &scn.Problem{Kind: "acked-state-lost", Detail: "restore(latest) after kill: " + scn.ErrClass(rerr)})
		} else {
			s.RefreshSeqRoot()
			d := scn.Digest(im, s.SeqRoot)
			if i := s.LedgerIndex(d); i < ackIdx {
				res.Problems = append(res.Problems, &scn.Problem{Kind: "acked-state-lost", Detail: fmt.Sprintf("restore(latest) after kill is ledger state %d, last acknowledged state %d", i, ackIdx)})
			}
		}
		if im, rerr := s.Restore(scn.RestoreOpt{TXID: ackTXID}); rerr == nil && ackDigest != "" {
			if d := scn.Digest(im, s.SeqRoot); d != ackDigest {
				res.Problems = append(res.Problems, &scn.Problem{Kind: "acked-txid-changed", Detail: fmt.Sprintf("restore(txid=%d) differs from what it restored to when acknowledged", ackTXID)})
			}
		}
	}
	// (iii) application keeps running while litestream is dead, then a fresh worker resumes unaided.
	s.Remote, s.RemoteDead = nil, false
	switch variant {
	case "app-continues":
		s.Do("W1")
		s.Do("CK:TRUNCATE")
		s.Do("W1")
	case "app-restarts-wal":
		// more commits in the same WAL generation, a checkpoint that backfills everything WITHOUT truncating, then
		// a commit that restarts the WAL: the new generation is shorter than the position litestream had reached
		s.Do("U")
		s.Do("W1")
		s.Do("CK:FULL")
		s.Do("U")
	}
	p2, err := startWorker(s.Dir, sc.Cfg, "")
	if err != nil {
		res.Problems = append(res.Problems, &scn.Problem{Kind: "restart-failed", Detail: scn.ErrClass(err)})
		return
	}
	defer p2.Stop()
	s.Remote = p2
	o := s.Do("SW")
	if !o.Ack {
		// one retry is what the monitor loop would do anyway; SQLITE_BUSY cannot occur here (no concurrent writer)
		o = s.Do("SW")
	}
	if !o.Ack {
		res.Problems = append(res.Problems, &scn.Problem{Kind: "restart-sync-failed", Detail: o.String()})
		return
	}
	pr, oerr := s.AckOracle(false)
	if oerr != nil {
		res.Harness = oerr
		return
	}
	if pr != nil {
		res.Problems = append(res.Problems, pr)
	}
	if loc, rem := scn.MaxTXID(filepath.Join(s.Dir, ".db-litestream"), 0), s.RemoteMaxL0(); loc != rem {
		res.Problems = append(res.Problems, &scn.Problem{Kind: "ack-without-advance", Detail: fmt.Sprintf("after restart: local L0 max %d remote %d", loc, rem)})
	}
	// A restore that the kill interrupted is resumed the way an operator (or restore-if-db-missing at start-up) does
	// it: the same command again, same output path, nothing cleaned up by hand. It must succeed and yield the latest
	// state. (If the kill fell after the rename the output is complete and was judged above.)
	for _, op := range sc.Ops {
		if !strings.HasPrefix(op, "RESTORE:") {
			continue
		}
		out := filepath.Join(s.Dir, strings.TrimPrefix(op, "RESTORE:"))
		if _, serr := os.Stat(out); serr == nil {
			continue
		}
		r, derr := p2.Do(op)
		if derr != nil || strings.HasPrefix(r, "err") {
			res.Problems = append(res.Problems, &scn.Problem{Kind: "restore-not-resumable", Detail: fmt.Sprintf("%s again after the kill (output path absent, nothing cleaned up by hand): %s %v [left behind: %s]", op, r, derr, c03Leftovers(s.Dir))})
			continue
		}
		b, rerr := os.ReadFile(out)
		want, werr := s.Restore(scn.RestoreOpt{})
		if rerr != nil || werr != nil || string(want.Data) != string(b) {
			res.Problems = append(res.Problems, &scn.Problem{Kind: "restore-not-resumable", Detail: fmt.Sprintf("%s again after the kill reported success but the output is not the latest state (read err=%v, reference err=%v)", op, rerr, werr)})
		}
	}
	// The restarted process goes on with its periodic duties: a snapshot and a compaction taken right after
	// the restart must describe the state they advertise (restore starts from the newest snapshot).
	for _, op := range []string{"FSNAP", "CMP:1"} {
		if o := s.Do(op); o.Err != nil {
			res.Problems = append(res.Problems, &scn.Problem{Kind: "restart-" + strings.ToLower(opName(op)) + "-failed", Detail: o.String()})
		}
		pr, oerr := s.AckOracle(false)
		if oerr != nil {
			res.Harness = oerr
			return
		}
		if pr != nil {
			res.Problems = append(res.Problems, &scn.Problem{Kind: pr.Kind + "-after-restart-" + strings.ToLower(opName(op)), Detail: pr.Detail})
		}
	}
	if o := s.Do("CL"); o.Err != nil {
		res.Problems = append(res.Problems, &scn.Problem{Kind: "restart-close-failed", Detail: o.String()})
	}
	return
}

// c03Leftovers lists what lies next to the restore output path (staging files of an interrupted restore).
func c03Leftovers(dir string) string {
	var out []string
	ents, _ := os.ReadDir(dir)
	for _, e := range ents {
		if strings.HasPrefix(e.Name(), "restored") {
			out = append(out, e.Name())
		}
	}
	return strings.Join(out, " ")
}

func c03Scenarios() []e3Scenario {
	base := scn.DefaultConfig()
	min3 := cfgWith(func(c *scn.Config) { c.MinCheckpointPageN = 3; c.TruncatePageN = 8 })
	chunk := cfgWith(func(c *scn.Config) { c.MaxSyncWALFrames = 1 })
	f := strings.Fields
	return []e3Scenario{
		{"sync+ckpt", base, f("W3 SW W1 SW LC:PASSIVE W1 SW LC:TRUNCATE W1 SW")},
		{"compact+retain", base, f("W3 SW W1 SW W1 SW CMP:1 W1 SW SNAP RETL0A:3 CMP:1 CMP:2 W1 SW SNAP RET9A:1 SW")},
		{"restore+close", base, f("W3 SW W1 S W1 SW RESTORE:restored CL")},
		{"auto-ckpt", min3, f("W3 SW W3 SW W1 SW W3 SW")},
		{"chunked", chunk, f("W3 W1 W1 SW W1 W1 SW")},
		{"tx-spill", base, f("W1 SW TXB S TXC SW TXB S TXR SW")},
		{"shrink", cfgWith(func(c *scn.Config) { c.AutoVacuum = "INCREMENTAL" }), f("W3 W3 SW D SW IVAC SW VAC SW")},
		{"behind-replica", base, f("W3 SW W1 SW CL")}, // followed by restart paths in the variants
		{"app-checkpoints", base, f("W3 SW CK:PASSIVE W1 SW CK:RESTART W1 SW CK:TRUNCATE W1 SW")},
		{"4k-compact", cfgWith(func(c *scn.Config) { c.PageSize = 4096 }), f("W3 SW W1 SW CMP:1 SNAP W1 SW CMP:1 CMP:2")},
	}
}

func c03(args []string) int {
	t := ev.Start()
	rep := ev.NewReporter("C03")
	thorough := ev.Tier() == "thorough"
	budget := ev.Budget(110*time.Second, 40*time.Minute)
	deadline := time.Now().Add(budget)
	scs := c03Scenarios()
	if !thorough {
		// quick tier: three shorter histories that between them still contain every mutating code path
		// (first/incremental sync, PASSIVE and TRUNCATE checkpoint, upload, compaction, snapshot, retention, restore, close)
		f := strings.Fields
		base := scn.DefaultConfig()
		scs = []e3Scenario{
			{"sync+ckpt", base, f("W3 SW W1 SW LC:PASSIVE W1 SW LC:TRUNCATE SW")},
			{"compact+retain", base, f("W3 SW W1 SW CMP:1 W1 SW SNAP RETL0A:2 CMP:1 SNAP RET9A:1")},
			{"restore+close", base, f("W3 SW W1 SW RESTORE:restored CL")},
		}
	}
	variants := []string{"idle", "app-continues", "app-restarts-wal"}
	if one := os.Getenv("C03_ONE"); one != "" {
		// debugging aid: C03_ONE="<scenario>;<k>;<variant>;<repetitions>" runs one kill point repeatedly
		p := strings.Split(one, ";")
		if len(p) == 4 {
			k, _ := strconv.Atoi(p[1])
			n, _ := strconv.Atoi(p[3])
			for _, sc := range scs {
				if sc.Name != p[0] {
					continue
				}
				for i := 0; i < n; i++ {
					r := e3RunKill(sc, k, p[2], "")
					fmt.Printf("run %d: killed=%v before=%q during=%q problems=%v harness=%v\n", i, r.Killed, r.Before, r.InFlight, r.Problems, r.Harness)
				}
				return 0
			}
		}
		return 2
	}
	if _, err := os.Stat(killatPath()); err != nil {
		fmt.Fprintln(os.Stderr, "killat binary missing (run setup.sh):", err)
		return 2
	}
	type scReport struct {
		Name       string `json:"name"`
		Ops        string `json:"ops"`
		Config     string `json:"config"`
		Counted    int    `json:"counted_syscalls"`
		Determin   bool   `json:"trace_deterministic"`
		KillPoints int    `json:"kill_points_run"`
		Exhaustive bool   `json:"exhaustive"`
		SyscallMix string `json:"syscall_mix"`
		Classes    int    `json:"distinct_call_classes_run_first"`
	}
	var reports []scReport
	var evals, killed int64
	outcomes := map[string]int{}
	var omu sync.Mutex
	var samples []any
	exhaustive := true
	var harnessErr error
	tmp := filepath.Join(scn.ScratchRoot, fmt.Sprintf("lsmc-%d-traces", os.Getpid()))
	os.MkdirAll(tmp, 0o755)
	defer os.RemoveAll(tmp)

	for si, sc := range scs {
		// every scenario gets an even share of what is left of the budget (unused time carries over)
		scDeadline := time.Now().Add(time.Until(deadline) / time.Duration(len(scs)-si))
		// Record twice: determinism gate.
		var traces [2][]string
		var n int
		mix := map[string]int{}
		for i := 0; i < 2; i++ {
			tf := filepath.Join(tmp, fmt.Sprintf("t%d-%d", si, i))
			r := e3RunKill(sc, 0, "", tf)
			if r.Harness != nil {
				harnessErr = r.Harness
				break
			}
			tr, err := parseTrace(tf)
			if err != nil {
				harnessErr = err
				break
			}
			traces[i] = normTraceAny(tr)
			if i == 0 {
				for _, l := range tr {
					if l.Seq > 0 {
						n = l.Seq
						mix[l.Name]++
					}
				}
			}
		}
		if harnessErr != nil {
			break
		}
		det := strings.Join(traces[0], "\n") == strings.Join(traces[1], "\n")
		r := scReport{Name: sc.Name, Ops: strings.Join(sc.Ops, " "), Config: cfgClass(sc.Cfg), Counted: n, Determin: det, SyscallMix: mixString(mix)}
		if !det {
			// Not enumerable with stable indices: report, do not explore.
			r.Exhaustive = false
			exhaustive = false
			reports = append(reports, r)
			fmt.Printf("[C03] scenario %-16s counted=%d trace NOT deterministic; skipped\n", sc.Name, n)
			for i := 0; i < len(traces[0]) && i < len(traces[1]); i++ {
				if traces[0][i] != traces[1][i] {
					fmt.Printf("      first difference at call %d:\n        run1: %s\n        run2: %s\n", i+1, traces[0][i], traces[1][i])
					break
				}
			}
			if len(traces[0]) != len(traces[1]) {
				fmt.Printf("      lengths %d vs %d\n", len(traces[0]), len(traces[1]))
			}
			continue
		}
		// Every counted call is a kill point, for each variant.
		type job struct {
			k int
			v string
		}
		var jobs []job
		// First one representative kill point (the first and the last occurrence) of every distinct call class
		// (system call + the paths it names, numbers squashed), under every variant: whatever the time budget
		// cuts later, every kind of mutating call of the scenario has been a kill point. Then every kill point.
		first, last := map[string]int{}, map[string]int{}
		var classOrder []string
		for k := 1; k <= n && k <= len(traces[0]); k++ {
			c := reNum.ReplaceAllString(traces[0][k-1], "#")
			if _, ok := first[c]; !ok {
				first[c] = k
				classOrder = append(classOrder, c)
			}
			last[c] = k
		}
		inFront := map[job]bool{}
		for _, c := range classOrder {
			for _, k := range []int{first[c], last[c]} {
				for _, v := range variants {
					if j := (job{k, v}); !inFront[j] {
						inFront[j] = true
						jobs = append(jobs, j)
					}
				}
			}
		}
		r.Classes = len(classOrder)
		for k := 1; k <= n; k++ {
			for _, v := range variants {
				if inFront[job{k, v}] {
					continue
				}
				if !thorough && (v == "app-continues" && k%2 == 0 || v == "app-restarts-wal" && k%3 != 0) {
					// quick tier: the second variant on every other kill point (stated in the evidence)
					continue
				}
				jobs = append(jobs, job{k, v})
			}
		}
		var idx, ran atomic.Int64
		var wg sync.WaitGroup
		var capped atomic.Bool
		for w := 0; w < 16; w++ {
			wg.Add(1)
			go func() {
				defer wg.Done()
				for {
					i := int(idx.Add(1) - 1)
					if i >= len(jobs) {
						return
					}
					if time.Now().After(scDeadline) {
						capped.Store(true)
						return
					}
					j := jobs[i]
					kr := e3RunKill(sc, j.k, j.v, "")
					atomic.AddInt64(&evals, 1)
					ran.Add(1)
					if kr.Harness != nil {
						omu.Lock()
						harnessErr = kr.Harness
						omu.Unlock()
						return
					}
					if kr.Killed {
						atomic.AddInt64(&killed, 1)
					}
					call := strings.Fields(kr.Before)
					cls := "not-reached"
					if len(call) >= 2 {
						cls = call[1] + "@" + opName(kr.InFlight)
					}
					omu.Lock()
					outcomes[cls]++
					if len(samples) < 6 && j.k%37 == 1 {
						samples = append(samples, fmt.Sprintf("%s: kill before #%d (%s) during %s, variant %s => %d problems", sc.Name, j.k, kr.Before, kr.InFlight, j.v, len(kr.Problems)))
					}
					omu.Unlock()
					for _, pr := range kr.Problems {
						// replay-twice rule
						again := e3RunKill(sc, j.k, j.v, "")
						for try := 0; try < 3 && (again.Harness != nil || !again.Killed); try++ {
							// the repetition itself did not take place (worker start-up failed or the kill was not
							// delivered, seen on an overloaded machine): not a second observation, repeat it
							again = e3RunKill(sc, j.k, j.v, "")
						}
						if again.Harness != nil || !again.Killed || !sameProblems(kr.Problems, again.Problems) {
							omu.Lock()
							harnessErr = fmt.Errorf("nondeterministic kill run %s k=%d: %v vs %v (repetition: killed=%v harness=%v)", sc.Name, j.k, kr.Problems, again.Problems, again.Killed, again.Harness)
							omu.Unlock()
							return
						}
						rep.Report(&ev.Violation{Kind: pr.Kind,
							Signature: fmt.Sprintf("%s|%s|%s|before=%s|during=%s|%s", pr.Kind, sc.Name, cfgClass(sc.Cfg), strings.Join(call[min(1, len(call)):min(3, len(call))], " "), kr.InFlight, j.v),
							Detail:    map[string]any{"scenario": sc, "kill_before_call": j.k, "call": kr.Before, "in_flight_op": kr.InFlight, "variant": j.v, "problem": pr.String()}})
					}
				}
			}()
		}
		wg.Wait()
		done := int(ran.Load()) // kill runs actually performed (a job fetched after the deadline is not one)
		r.KillPoints = done
		r.Exhaustive = !capped.Load()
		if capped.Load() {
			exhaustive = false
		}
		reports = append(reports, r)
		fmt.Printf("[C03] scenario %-16s counted=%d call-classes=%d kill-runs=%d/%d exhaustive=%v\n", sc.Name, n, r.Classes, done, len(jobs), r.Exhaustive)
		if harnessErr != nil {
			break
		}
	}
	if harnessErr != nil {
		fmt.Fprintln(os.Stderr, "HARNESS ERROR (no verdict):", harnessErr)
		return 2
	}
	if evals == 0 {
		// e.g. every scenario failed the determinism gate: nothing was decided, which is not a pass
		fmt.Fprintln(os.Stderr, "HARNESS ERROR (no verdict): no kill point was explored in any scenario")
		return 2
	}
	if len(samples) == 0 {
		samples = append(samples, "(none)")
	}
	var top []string
	for k, v := range outcomes {
		top = append(top, fmt.Sprintf("%s ×%d", k, v))
	}
	sort.Strings(top)
	e := &ev.Evidence{PropertyID: "C03", Tier: ev.Tier(), Seed: ev.Seed(), Level: "fault_enumeration", WallS: t.S(), Violations: rep.Unknown(),
		Assumptions: []string{
			"kill granularity = system call: the worker is SIGKILLed at the entry stop of the K-th file-system-mutating call inside the scenario directory, before it executes (ptrace supervisor /verif/killat)",
			"kernel crash / power loss is C11; writes are atomic per call at these sizes",
			"the application runs in a different process than litestream, as in production",
		},
		Coverage: map[string]any{
			"evaluations": evals, "distinct_nontrivial": len(outcomes),
			"rule":    "for each scenario the worker's mutating syscalls are recorded twice (determinism gate) and every one of them is a kill point; after the kill: all final-named LTX files verify, restore output complete or absent, last acknowledged state restorable, then (variants: nothing / application writes+TRUNCATE checkpoint / application commits+FULL checkpoint+commit restarting the WAL) a fresh worker must SyncAndWait successfully and satisfy the page-exact restore oracle, and a restore that the kill interrupted must succeed when the same command is issued again with nothing cleaned up by hand; kill points are taken class representatives first (first and last occurrence of every distinct call class, all variants), then in call order, each scenario within an even share of the budget; distinct = distinct (syscall, operation in flight) classes",
			"samples": samples, "exhaustive": exhaustive, "scenarios": reports, "kills_effective": killed,
			"kill_classes": top,
			"variants":     "idle at every kill point; app-continues at every kill point (thorough) / every other kill point (quick)",
		}}
	if err := ev.Write(e); err != nil {
		fmt.Fprintln(os.Stderr, err)
		return 2
	}
	code := rep.Finish()
	fmt.Printf("[C03] %s tier: kill-runs=%d effective-kills=%d classes=%d exhaustive=%v wall=%.1fs exit=%d\n", ev.Tier(), evals, killed, len(outcomes), exhaustive, t.S(), code)
	return code
}

func opName(op string) string {
	if i := strings.IndexByte(op, ':'); i >= 0 {
		return op[:i]
	}
	return op
}

func mixString(m map[string]int) string {
	var ks []string
	for k, v := range m {
		ks = append(ks, fmt.Sprintf("%s=%d", k, v))
	}
	sort.Strings(ks)
	return strings.Join(ks, " ")
}

var reScnDir = regexp.MustCompile(`/lsmc-[0-9]+/b[0-9]+/[0-9]+`)

// The file replica client stages uploads in "<name>.ltx.<pid>.<seq>.tmp": the pid differs between worker
// processes. Whatever stands between ".ltx" and ".tmp" (pid, counter, random suffix) is not compared.
var reTmpPid = regexp.MustCompile(`(\.ltx)\.[^/ ]*\.tmp`)

func normTmp(p string) string { return reTmpPid.ReplaceAllString(p, "$1.UNIQ.tmp") }

// normTraceAny normalises counted calls: syscall name + path with the scenario directory prefix removed.
var reNum = regexp.MustCompile(`[0-9a-f]{16}|[0-9]+`)

func normTraceAny(tr []TraceLine) []string {
	var out []string
	for _, t := range tr {
		if t.Seq == 0 {
			continue
		}
		var parts []string
		for _, k := range []string{"path", "old", "new", "len", "off"} {
			if v, ok := t.KV[k]; ok {
				parts = append(parts, k+"="+normTmp(reScnDir.ReplaceAllString(v, "$DIR")))
			}
		}
		out = append(out, t.Name+" "+strings.Join(parts, " "))
	}
	return out
}
