//go:build c12race

package main

// Race pass of C12: the scenario bodies of c12common.go run FREE-RUNNING (real
// goroutines released by a barrier, unrewritten litestream sources) in a binary built
// with the Go race detector. Not exhaustive. Race reports go to stderr (GORACE
// halt_on_error=0); the parent (lsmc-c12 c12) parses them into violations.

import (
	"encoding/json"
	"fmt"
	"os"
	"path/filepath"
	"strconv"
	"strings"
	"sync"
	"time"

	"github.com/benbjohnson/litestream"

	"lsverif/scn"
)

func init() { register("c12race", c12race) }

func c12NameInstance(string, *litestream.DB) {}
func c12Steps() int                          { return 0 }

// c12RaceOnce runs one free-running iteration of a scenario; false = harness failure.
func c12RaceOnce(sc *c12Scenario) bool {
	w, err := c12NewWorld(sc)
	if err != nil {
		fmt.Fprintf(os.Stderr, "c12race: %s: %v\n", sc.Name, err)
		return false
	}
	var wg sync.WaitGroup
	start := make(chan struct{})
	for i := range sc.Threads {
		wg.Add(1)
		go func(i int) {
			defer wg.Done()
			defer func() {
				if r := recover(); r != nil {
					fmt.Fprintf(os.Stderr, "c12race: panic in %s thread %d: %v\n", sc.Name, i, r)
				}
			}()
			<-start
			w.ThreadBody(i, false)
		}(i)
	}
	close(start)
	done := make(chan struct{})
	go func() { wg.Wait(); close(done) }()
	select {
	case <-done:
	case <-time.After(60 * time.Second):
		fmt.Fprintf(os.Stderr, "c12race: %s did not finish in 60s (free-running)\n", sc.Name)
		return false
	}
	_ = w.S.DB.SyncDiagnostic()
	w.Destroy()
	return true
}

// c12race <budget-seconds> <scenario,scenario,...>
func c12race(args []string) int {
	if len(args) < 2 {
		fmt.Fprintln(os.Stderr, "usage: lsmc c12race <budget-seconds> <scenarios>")
		return 2
	}
	sec, _ := strconv.ParseFloat(args[0], 64)
	var scs []*c12Scenario
	for _, n := range strings.Split(args[1], ",") {
		if sc := c12FindScenario(n); sc != nil {
			scs = append(scs, sc)
		}
	}
	deadline := time.Now().Add(time.Duration(sec * float64(time.Second)))
	iters := map[string]int{}
	total := 0
	const target = 100
	par := 4
	if v, err := strconv.Atoi(os.Getenv("C12_RACE_PAR")); err == nil && v > 0 {
		par = v
	}
	type job struct{ sc *c12Scenario }
	jobs := make(chan job)
	var mu sync.Mutex
	var failed bool
	var rwg sync.WaitGroup
	for k := 0; k < par; k++ {
		rwg.Add(1)
		go func() {
			defer rwg.Done()
			for j := range jobs {
				if !c12RaceOnce(j.sc) {
					mu.Lock()
					failed = true
					mu.Unlock()
				}
				mu.Lock()
				iters[j.sc.Name]++
				total++
				mu.Unlock()
			}
		}()
	}
feed:
	for round := 0; round < target; round++ {
		for _, sc := range scs {
			mu.Lock()
			f := failed
			mu.Unlock()
			if f || time.Now().After(deadline) {
				break feed
			}
			jobs <- job{sc}
		}
	}
	close(jobs)
	rwg.Wait()
	if failed {
		return 2
	}
	min := 1 << 30
	for _, sc := range scs {
		if iters[sc.Name] < min {
			min = iters[sc.Name]
		}
	}
	b, _ := json.Marshal(map[string]any{"race_scenarios": len(scs), "race_iterations_total": total, "race_iterations_per_scenario_min": min})
	fmt.Println(string(b))
	os.RemoveAll(filepath.Join(scn.ScratchRoot, fmt.Sprintf("lsmc-%d", os.Getpid())))
	return 0
}
