package main

import (
	"bytes"
	"database/sql"
	"fmt"
	"os"
	"os/exec"
	"path/filepath"
	"strings"
	"time"

	"lsverif/ev"
	"lsverif/scn"
)

// C10, command-line half: the `litestream restore` command adds its own handling of the output path in front of
// Replica.Restore (-force, -if-db-not-exists, removal of SQLite sidecar files). The real binary, built from the
// tree under test (run.sh / setup.sh: bin/litestream-cli), is run for every combination of
//
//	output path state: absent | empty file | a live database with an un-checkpointed -wal holding a marker table
//	flag:              (none) | -force | -if-db-not-exists
//	target:            latest | a timestamp one millisecond before the newest file of the restore plan
//
// and judged by what SQLite then reads at the output path (a stale -wal left next to a restored file is replayed
// by SQLite and changes the content): success means exactly the library restore of the same target; refusal or
// skip means the path and its sidecars are untouched.

func c10CLIPath() string { return filepath.Join(ev.Root(), "bin", "litestream-cli") }

type c10CLICase struct {
	State, Flag, Target string
}

// c10DumpCopy dumps what SQLite reads at path (with its -wal, if any), working on a copy.
func c10DumpCopy(path, tmp string) (string, error) {
	os.RemoveAll(tmp)
	os.MkdirAll(tmp, 0o755)
	defer os.RemoveAll(tmp)
	for _, suf := range []string{"", "-wal"} {
		b, err := os.ReadFile(path + suf)
		if err != nil {
			if suf == "" {
				return "", err
			}
			continue
		}
		if err := os.WriteFile(filepath.Join(tmp, "db"+suf), b, 0o644); err != nil {
			return "", err
		}
	}
	c, err := sql.Open("sqlite", "file:"+filepath.Join(tmp, "db")+"?_pragma=busy_timeout(0)")
	if err != nil {
		return "", err
	}
	defer c.Close()
	return scn.LogicalDumpDB(c)
}

// c10LiveDB creates, at path, a database in WAL mode whose -wal holds a committed marker table (as a killed process
// leaves it): the files are copied while the writing connection is still open.
func c10LiveDB(path, tmp string) error {
	os.RemoveAll(tmp)
	os.MkdirAll(tmp, 0o755)
	defer os.RemoveAll(tmp)
	src := filepath.Join(tmp, "old")
	c, err := sql.Open("sqlite", "file:"+src+"?_pragma=busy_timeout(0)&_pragma=wal_autocheckpoint(0)")
	if err != nil {
		return err
	}
	defer c.Close()
	c.SetMaxOpenConns(1)
	for _, q := range []string{"PRAGMA journal_mode = wal", "CREATE TABLE zzz_stale (v TEXT)", "INSERT INTO zzz_stale VALUES ('left behind by the previous database')"} {
		if _, err := c.Exec(q); err != nil {
			return err
		}
	}
	for _, suf := range []string{"", "-wal"} {
		b, err := os.ReadFile(src + suf)
		if err != nil {
			return err
		}
		if err := os.WriteFile(path+suf, b, 0o644); err != nil {
			return err
		}
	}
	return nil
}

func c10FingerprintAll(path string) string {
	var s []string
	for _, suf := range []string{"", "-wal", "-shm", "-journal"} {
		s = append(s, fingerprint(path+suf))
	}
	return strings.Join(s, "\n")
}

// c10CLI runs the matrix on one replica; returns problems and the number of invocations.
func c10CLI(r *c10Replica, work string) (probs []*scn.Problem, n int, outcomes map[string]int, herr error) {
	outcomes = map[string]int{}
	cli := c10CLIPath()
	refOut := filepath.Join(work, "cli-ref")
	targets := []string{"latest"}
	// a timestamp target: one millisecond before the newest file of the plan (if the plan has more than one file)
	var tsArg string
	if n := len(r.Plan); n > 1 {
		tsArg = r.Plan[n-1].MTime.Add(-time.Millisecond).UTC().Format(time.RFC3339Nano)
	}
	if tsArg != "" {
		targets = append(targets, "timestamp")
	}
	ref := map[string]string{}
	for _, tg := range targets {
		os.Remove(refOut)
		args := []string{"restore", "-o", refOut}
		if tg == "timestamp" {
			args = append(args, "-timestamp", tsArg)
		}
		args = append(args, "file://"+r.Dir)
		if out, err := exec.Command(cli, args...).CombinedOutput(); err != nil {
			if tg == "timestamp" {
				continue // no state before that instant: nothing to compare for this target
			}
			return nil, n, outcomes, fmt.Errorf("reference CLI restore of %s failed: %v: %s", r.Name, err, bytes.TrimSpace(out))
		}
		d, err := c10DumpCopy(refOut, filepath.Join(work, "cli-dump"))
		if err != nil {
			return nil, n, outcomes, fmt.Errorf("dump of the reference restore: %w", err)
		}
		ref[tg] = d
		os.Remove(refOut)
	}
	for _, state := range []string{"absent", "empty-file", "live-db"} {
		for _, flag := range []string{"", "-force", "-if-db-not-exists"} {
			for tg, want := range ref {
				out := filepath.Join(work, "cli-out")
				for _, suf := range []string{"", "-wal", "-shm", "-journal", ".tmp"} {
					os.Remove(out + suf)
				}
				switch state {
				case "empty-file":
					os.WriteFile(out, nil, 0o644)
				case "live-db":
					if err := c10LiveDB(out, filepath.Join(work, "cli-old")); err != nil {
						return nil, n, outcomes, err
					}
				}
				before := c10FingerprintAll(out)
				args := []string{"restore"}
				if flag != "" {
					args = append(args, flag)
				}
				if tg == "timestamp" {
					args = append(args, "-timestamp", tsArg)
				}
				args = append(args, "-o", out, "file://"+r.Dir)
				cmdOut, err := exec.Command(cli, args...).CombinedOutput()
				n++
				what := fmt.Sprintf("cli/%s/%s/%s", state, strings.TrimPrefix(flag, "-"), tg)
				add := func(kind, detail string) {
					probs = append(probs, &scn.Problem{Kind: kind, Detail: what + ": " + detail})
				}
				after := c10FingerprintAll(out)
				switch {
				case err != nil:
					outcomes[what+"=refused"]++
					if state == "absent" {
						add("cli-restore-failed", fmt.Sprintf("restore into an absent path failed: %s", bytes.TrimSpace(cmdOut)))
					} else if after != before {
						add("existing-output-modified", "the command failed but the output path or a sidecar changed")
					}
					if state == "live-db" && flag == "-force" || state == "empty-file" && flag == "-force" {
						add("cli-restore-failed", fmt.Sprintf("-force did not replace the existing output: %s", bytes.TrimSpace(cmdOut)))
					}
				case flag == "-if-db-not-exists" && state != "absent":
					outcomes[what+"=skipped"]++
					if after != before {
						add("existing-output-modified", "-if-db-not-exists reported success but the existing path or a sidecar changed")
					}
				default:
					// success: what SQLite reads at the output path must be the restored database
					if state == "live-db" && flag == "" {
						add("existing-output-overwritten", "restore succeeded over a live database without -force")
						continue
					}
					got, derr := c10DumpCopy(out, filepath.Join(work, "cli-dump"))
					if derr != nil {
						add("success-with-wrong-content", "the output does not open: "+derr.Error())
						continue
					}
					outcomes[what+"=restored"]++
					if got != want {
						add("success-with-wrong-content", "SQLite reads a different database at the output path than the restore of the same target into a fresh path (stale sidecar?): "+firstDiff(want, got))
					}
				}
			}
		}
	}
	return probs, n, outcomes, nil
}
