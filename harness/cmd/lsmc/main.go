// Command lsmc runs the model-checking checks of /verif against /repo.
package main

import (
	"fmt"
	"os"
	"sort"
)

var commands = map[string]func(args []string) int{}

func register(name string, f func(args []string) int) { commands[name] = f }

func main() {
	if len(os.Args) < 2 {
		usage()
	}
	f, ok := commands[os.Args[1]]
	if !ok {
		usage()
	}
	code := f(os.Args[2:])
	profStop()
	os.Exit(code)
}

func usage() {
	var names []string
	for n := range commands {
		names = append(names, n)
	}
	sort.Strings(names)
	fmt.Fprintf(os.Stderr, "usage: lsmc <command> [args]\ncommands: %v\n", names)
	os.Exit(2)
}
