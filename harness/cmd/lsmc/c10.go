package main

import (
	"bytes"
	"context"
	"fmt"
	"io"
	"log/slog"
	"os"
	"path/filepath"
	"strconv"
	"strings"
	"sync"
	"sync/atomic"
	"time"

	"github.com/benbjohnson/litestream"
	"github.com/benbjohnson/litestream/file"
	"github.com/superfly/ltx"

	"lsverif/ev"
	"lsverif/faultclient"
	"lsverif/scn"
)

func init() { register("c10", c10) }

// offsetFault makes the stream of one target file fail (error or premature
// EOF) when the absolute read position reaches At, Times consecutive times.
type offsetFault struct {
	litestream.ReplicaClient
	Level    int
	Min, Max ltx.TXID
	At       int64
	EOF      bool
	times    atomic.Int64
}

type offStream struct {
	io.ReadCloser
	pos int64
	f   *offsetFault
}

func (s *offStream) Read(b []byte) (int, error) {
	if s.pos >= s.f.At && s.f.times.Load() > 0 {
		s.f.times.Add(-1)
		if s.f.EOF {
			return 0, io.EOF
		}
		return 0, faultclient.ErrInjected
	}
	if s.f.times.Load() > 0 && s.pos < s.f.At {
		if max := s.f.At - s.pos; int64(len(b)) > max {
			b = b[:max]
		}
	}
	n, err := s.ReadCloser.Read(b)
	s.pos += int64(n)
	return n, err
}

func (c *offsetFault) OpenLTXFile(ctx context.Context, level int, minTXID, maxTXID ltx.TXID, offset, size int64) (io.ReadCloser, error) {
	rc, err := c.ReplicaClient.OpenLTXFile(ctx, level, minTXID, maxTXID, offset, size)
	if err != nil || level != c.Level || minTXID != c.Min || maxTXID != c.Max {
		return rc, err
	}
	return &offStream{ReadCloser: rc, pos: offset, f: c}, nil
}

type c10Replica struct {
	Name     string
	Hist     string
	Dir      string
	Plan     []scn.FileRef
	Expected []byte
	PageSize int
	TailAlt  []byte // uncorrupted restore of the TXID just before the last plan file (nil if the plan has one file)

	allowTail bool // set by a job that removes the newest file of the chain
}

// c10BuildReplicas runs histories with the real code and keeps their replica directories.
func c10BuildReplicas(root string, thorough bool) ([]*c10Replica, error) {
	type h struct {
		name, ops string
		cfg       scn.Config
	}
	keep := cfgWith(func(c *scn.Config) { c.L0RetentionNS = int64(1000 * time.Hour) })
	prune := cfgWith(func(c *scn.Config) { c.L0RetentionNS = 1 })
	hs := []h{
		{"snapshot-only", "W3 SW SNAP", prune},
		{"snapshot+l0", "W1 SW SNAP W1 SW W1 SW", keep},
		{"l2+l1+l0", "W1 SW W1 SW CMP:1 CMP:2 W1 SW W1 SW CMP:1 W1 SW", prune},
		{"shrinking-chain", "W3 W3 SW D SW VAC SW W1 SW", keep},
		{"in-chain-full-snapshot", "W3 SW LC:TRUNCATE W1 SW W1 SW", keep},
		{"l0-only", "W1 SW W1 SW W1 SW", keep},
		{"4k-l1", "W3 SW W1 SW CMP:1 W1 SW", cfgWith(func(c *scn.Config) { c.PageSize = 4096; c.L0RetentionNS = 1 })},
		{"incr-vacuum", "W3 W3 SW D SW IVAC SW", cfgWith(func(c *scn.Config) { c.AutoVacuum = "INCREMENTAL"; c.L0RetentionNS = int64(1000 * time.Hour) })},
	}
	if !thorough {
		hs = hs[:4]
	}
	var out []*c10Replica
	for _, x := range hs {
		s, err := scn.New(x.cfg)
		if err != nil {
			return nil, err
		}
		for _, op := range strings.Fields(x.ops) {
			s.Do(op)
		}
		dir := filepath.Join(root, x.name)
		if err := copyTree(s.ReplicaDir, dir); err != nil {
			s.Destroy()
			return nil, err
		}
		s.Destroy()
		im, err := scn.RestoreFrom(dir, root, x.cfg.PageSize, scn.RestoreOpt{})
		if err != nil {
			return nil, fmt.Errorf("%s: baseline restore: %w", x.name, err)
		}
		infos, err := litestream.CalcRestorePlan(context.Background(), file.NewReplicaClient(dir), 0, time.Time{}, slog.Default())
		if err != nil {
			return nil, err
		}
		r := &c10Replica{Name: x.name, Hist: x.ops, Dir: dir, Expected: im.Data, PageSize: x.cfg.PageSize}
		for _, i := range infos {
			r.Plan = append(r.Plan, scn.FileRef{Level: i.Level, Min: i.MinTXID, Max: i.MaxTXID, Size: i.Size})
		}
		if last := r.Plan[len(r.Plan)-1]; len(r.Plan) > 1 && last.Min > 1 {
			if alt, err := scn.RestoreFrom(dir, root, x.cfg.PageSize, scn.RestoreOpt{TXID: last.Min - 1}); err == nil {
				r.TailAlt = alt.Data
			}
		}
		out = append(out, r)
	}
	return out, nil
}

func planPath(dir string, f scn.FileRef) string {
	return filepath.Join(dir, "ltx", strconv.Itoa(f.Level), ltx.FormatFilename(f.Min, f.Max))
}

var c10Seq atomic.Int64

// c10Restore restores from dir (through client wrap, if any) into a fresh output path and classifies the outcome.
func c10Restore(r *c10Replica, dir string, wrap func(litestream.ReplicaClient) litestream.ReplicaClient, work string, integrity litestream.IntegrityCheckMode) (outcome string, prob *scn.Problem) {
	return c10RestorePre(r, dir, wrap, work, integrity, nil)
}

// c10RestorePre: pre, if set, prepares the surroundings of the (absent) output path before the restore starts.
func c10RestorePre(r *c10Replica, dir string, wrap func(litestream.ReplicaClient) litestream.ReplicaClient, work string, integrity litestream.IntegrityCheckMode, pre func(out string)) (outcome string, prob *scn.Problem) {
	out := filepath.Join(work, fmt.Sprintf("out-%d", c10Seq.Add(1)))
	if pre != nil {
		pre(out)
	}
	defer func() {
		os.Remove(out)
		os.Remove(out + ".tmp")
		os.Remove(out + "-wal")
		os.Remove(out + "-shm")
	}()
	var cl litestream.ReplicaClient = file.NewReplicaClient(dir)
	if wrap != nil {
		cl = wrap(cl)
	}
	rep := litestream.NewReplicaWithClient(nil, cl)
	opt := litestream.NewRestoreOptions()
	opt.OutputPath = out
	opt.IntegrityCheck = integrity
	err := rep.Restore(context.Background(), opt)
	if _, serr := os.Lstat(out + ".tmp"); serr == nil {
		return "", &scn.Problem{Kind: "tmp-left-behind", Detail: "restore returned (err=" + scn.ErrClass(err) + ") and left <output>.tmp"}
	}
	if err != nil {
		if _, serr := os.Lstat(out); serr == nil {
			return "", &scn.Problem{Kind: "partial-output-after-error", Detail: "restore failed with " + scn.ErrClass(err) + " but the output path exists"}
		}
		return "error:" + errKind(err), nil
	}
	b, rerr := os.ReadFile(out)
	if rerr != nil {
		return "", &scn.Problem{Kind: "success-without-output", Detail: rerr.Error()}
	}
	if r.allowTail && r.TailAlt != nil && bytes.Equal(b, r.TailAlt) {
		// The newest file of the chain was removed: what remains is a complete replica of the previous state.
		return "ok-previous-state", nil
	}
	if !bytes.Equal(b, r.Expected) {
		return "", &scn.Problem{Kind: "success-with-wrong-content", Detail: fmt.Sprintf("restore reported success but the database differs from the uncorrupted restore (%d vs %d bytes)", len(b), len(r.Expected))}
	}
	return "ok-identical", nil
}

func errKind(err error) string {
	m := err.Error()
	for _, k := range []string{"checksum", "max retries", "transaction not available", "unexpected EOF", "non-contiguous", "invalid ltx file", "integrity", "decode", "no such file", "unmarshal", "EOF"} {
		if strings.Contains(m, k) {
			return k
		}
	}
	if len(m) > 40 {
		m = m[:40]
	}
	return m
}

func c10(args []string) int {
	t := ev.Start()
	rep := ev.NewReporter("C10")
	thorough := ev.Tier() == "thorough"
	deadline := time.Now().Add(ev.Budget(100*time.Second, 30*time.Minute))
	root := filepath.Join(scn.ScratchRoot, fmt.Sprintf("lsmc-%d-c10", os.Getpid()))
	os.MkdirAll(root, 0o755)
	defer os.RemoveAll(root)
	reps, err := c10BuildReplicas(root, thorough)
	if err != nil {
		fmt.Fprintln(os.Stderr, "HARNESS ERROR (no verdict):", err)
		return 2
	}
	jobs := c10Jobs(reps, thorough)
	c10Root = root
	if err := c10SaveReps(root, reps); err != nil {
		fmt.Fprintln(os.Stderr, "HARNESS ERROR (no verdict):", err)
		return 2
	}
	defer c10StopAll()
	var evals int64
	outcomes := map[string]int{}
	var mu sync.Mutex
	var samples []any
	var idx atomic.Int64
	var wg sync.WaitGroup
	var harness atomic.Value
	for w := 0; w < 16; w++ {
		wg.Add(1)
		go func(w int) {
			defer wg.Done()
			work := filepath.Join(root, fmt.Sprintf("w%d", w))
			os.MkdirAll(work, 0o755)
			for {
				i := int(idx.Add(1) - 1)
				if i >= len(jobs) || time.Now().After(deadline) {
					return
				}
				j := jobs[i]
				outcome, prob, desc, herr := c10Dispatch(w, i, j, work)
				if herr != nil {
					harness.Store(herr)
					return
				}
				atomic.AddInt64(&evals, 1)
				mu.Lock()
				cls := j.kind + "/" + outcome
				if j.rep > 0 {
					cls = fmt.Sprintf("%s-x%d/%s", j.kind, j.rep, outcome)
				}
				outcomes[cls]++
				if len(samples) < 8 && i%997 == 3 {
					samples = append(samples, fmt.Sprintf("%s: %s => %s", j.r.Name, desc, outcome))
				}
				mu.Unlock()
				if prob != nil {
					rep.Report(&ev.Violation{Kind: prob.Kind, Signature: fmt.Sprintf("%s|%s|%s", prob.Kind, j.r.Name, desc),
						Detail: map[string]any{"replica_history": j.r.Hist, "replica": j.r.Name, "corruption": desc, "problem": prob.String()}})
				}
			}
		}(w)
	}
	wg.Wait()
	if h := harness.Load(); h != nil {
		fmt.Fprintln(os.Stderr, "HARNESS ERROR (no verdict):", h)
		return 2
	}
	done := int(idx.Load())
	if done > len(jobs) {
		done = len(jobs)
	}
	// command-line half (c10cli.go)
	cliRuns, cliStatus := 0, "not run: "+c10CLIPath()+" missing (run.sh builds it)"
	cliOutcomes := map[string]int{}
	if _, err := os.Stat(c10CLIPath()); err == nil {
		cliStatus = "ran"
		work := filepath.Join(root, "cli")
		os.MkdirAll(work, 0o755)
		for i, r := range reps {
			if i >= 2 && !thorough {
				break
			}
			probs, n, oc, herr := c10CLI(r, work)
			if herr != nil {
				fmt.Fprintln(os.Stderr, "HARNESS ERROR (no verdict):", herr)
				return 2
			}
			cliRuns += n
			for k, v := range oc {
				cliOutcomes[k] += v
			}
			for _, p := range probs {
				rep.Report(&ev.Violation{Kind: p.Kind, Signature: fmt.Sprintf("%s|%s|%s", p.Kind, r.Name, strings.SplitN(p.Detail, ":", 2)[0]),
					Detail: map[string]any{"replica": r.Name, "history": r.Hist, "problem": p.String()}})
			}
		}
	}
	exhaustive := done == len(jobs) && thorough
	if len(samples) == 0 {
		samples = append(samples, "(none)")
	}
	var plans []string
	for _, r := range reps {
		var fs []string
		for _, f := range r.Plan {
			fs = append(fs, fmt.Sprintf("%s(%dB)", f, f.Size))
		}
		plans = append(plans, r.Name+": "+strings.Join(fs, " "))
	}
	var top []string
	for k, v := range outcomes {
		top = append(top, fmt.Sprintf("%s ×%d", k, v))
	}
	e := &ev.Evidence{PropertyID: "C10", Tier: ev.Tier(), Seed: ev.Seed(), Level: "fault_enumeration", WallS: t.S(), Violations: rep.Unknown(),
		Assumptions: []string{
			"single corruptions of one plan file at a time; read faults on one plan file at a time",
			"the resumable reader's back-off is shortened by a build overlay (retry count unchanged)",
			"quick tier: read faults on files larger than 1500 bytes at stride 7 plus the last 64 offsets (exhaustive:false); thorough: every offset",
		},
		Coverage: map[string]any{
			"evaluations": evals, "distinct_nontrivial": len(outcomes),
			"rule":    "for each replica built by a real history and each file of its restore plan: delete it, truncate it to every length, XOR every byte with 0x01 and with 0xFF, and fail its download (error / premature EOF) at every byte offset 1..4 consecutive times; plus pre-existing output (file, directory, symlink), a stale <output>.tmp of an earlier killed restore (longer / shorter than the database) and a forced integrity failure; oracle: outcome is an error, or success with bytes identical to the uncorrupted restore; never <output>.tmp left, never an output after an error, never an existing path touched; distinct = (corruption class, outcome class) pairs",
			"samples": samples, "exhaustive": exhaustive, "jobs_planned": len(jobs), "jobs_done": done, "cli_restore_invocations": cliRuns, "cli_restore_status": cliStatus, "cli_restore_outcomes": cliOutcomes,
			"cli_rule": "the real `litestream restore` binary for every (output path absent | empty file | live database with an un-checkpointed -wal) x (no flag | -force | -if-db-not-exists) x (latest | timestamp): success = SQLite reads at the output path exactly the restore of the same target into a fresh path; refusal / skip = path and sidecars untouched", "replicas": plans, "outcome_classes": top,
		}}
	if err := ev.Write(e); err != nil {
		fmt.Fprintln(os.Stderr, err)
		return 2
	}
	code := rep.Finish()
	fmt.Printf("[C10] %s tier: replicas=%d restores=%d/%d classes=%d exhaustive=%v wall=%.1fs exit=%d\n", ev.Tier(), len(reps), done, len(jobs), len(outcomes), exhaustive, t.S(), code)
	return code
}

func fingerprint(p string) string {
	fi, err := os.Lstat(p)
	if err != nil {
		return "absent"
	}
	s := fmt.Sprintf("%v|%d|%v", fi.Mode(), fi.Size(), fi.ModTime().UnixNano())
	if fi.Mode().IsRegular() {
		b, _ := os.ReadFile(p)
		s += "|" + string(b)
	}
	if fi.Mode()&os.ModeSymlink != 0 {
		t, _ := os.Readlink(p)
		s += "|" + t
	}
	return s
}

// c10Garbage rewrites the first plan file so that page 2 holds garbage while all LTX checksums stay valid.
func c10Garbage(dir string, f scn.FileRef) error { return c10Damage(dir, []scn.FileRef{f}, "page") }

// c10Damage rewrites one plan file so that the restored database is damaged while every LTX checksum stays
// valid. what = "page": garbage in the lowest page >= 2 of the newest file; "magic": the SQLite header magic on
// page 1 destroyed ("file is not a database": the integrity PRAGMA itself fails); "schema": the b-tree header of
// page 1 destroyed ("database disk image is malformed" as a statement error, not as check rows).
func c10Damage(dir string, plan []scn.FileRef, what string) error {
	f := plan[len(plan)-1]
	if what != "page" {
		found := false
		for i := len(plan) - 1; i >= 0 && !found; i-- {
			b, err := os.ReadFile(planPath(dir, plan[i]))
			if err != nil {
				return err
			}
			lf, err := decodeLTX(b)
			if err != nil {
				return err
			}
			if _, ok := lf.Pages[1]; ok {
				f, found = plan[i], true
			}
		}
		if !found {
			return fmt.Errorf("no plan file carries page 1")
		}
	}
	p := planPath(dir, f)
	b, err := os.ReadFile(p)
	if err != nil {
		return err
	}
	lf, err := decodeLTX(b)
	if err != nil {
		return err
	}
	var buf bytes.Buffer
	enc, err := ltx.NewEncoder(&buf)
	if err != nil {
		return err
	}
	if err := enc.EncodeHeader(lf.Hdr); err != nil {
		return err
	}
	// garbage goes into the lowest page >= 2 this file carries (page 1 if it carries nothing else):
	// being in the newest file of the plan, it is part of the final database
	target := uint32(1)
	for pg := uint32(2); pg <= lf.Hdr.Commit; pg++ {
		if _, ok := lf.Pages[pg]; ok {
			target = pg
			break
		}
	}
	for pg := uint32(1); pg <= lf.Hdr.Commit; pg++ {
		d, ok := lf.Pages[pg]
		if !ok {
			continue
		}
		switch {
		case what == "page" && pg == target:
			d = bytes.Repeat([]byte{0xAB}, len(d))
		case what == "magic" && pg == 1:
			d = append([]byte{}, d...)
			copy(d[0:16], bytes.Repeat([]byte{0xAB}, 16))
		case what == "schema" && pg == 1:
			d = append([]byte{}, d...)
			copy(d[100:112], bytes.Repeat([]byte{0xAB}, 12))
		}
		if err := enc.EncodePage(ltx.PageHeader{Pgno: pg}, d); err != nil {
			return err
		}
	}
	if err := enc.Close(); err != nil {
		return err
	}
	fi, _ := os.Stat(p)
	if err := os.WriteFile(p, buf.Bytes(), 0o644); err != nil {
		return err
	}
	return os.Chtimes(p, fi.ModTime(), fi.ModTime())
}

type c10Job struct {
	r    *c10Replica
	fi   int    // plan file index
	kind string // delete | trunc | xor01 | xorff | read-err | read-eof | exists-* | integrity
	arg  int64
	rep  int64
}

func c10Jobs(reps []*c10Replica, thorough bool) []c10Job {
	var jobs []c10Job
	for _, r := range reps {
		for fi, f := range r.Plan {
			jobs = append(jobs, c10Job{r, fi, "delete", 0, 0})
			for n := int64(0); n < f.Size; n++ {
				jobs = append(jobs, c10Job{r, fi, "trunc", n, 0})
			}
			for o := int64(0); o < f.Size; o++ {
				jobs = append(jobs, c10Job{r, fi, "xor01", o, 0}, c10Job{r, fi, "xorff", o, 0})
			}
		}
		// what a restore killed earlier leaves next to the (absent) output path: its staging file, longer or
		// shorter than the database restored now
		for _, k := range []string{"stale-tmp-longer", "stale-tmp-shorter"} {
			jobs = append(jobs, c10Job{r, 0, k, 0, 0})
		}
		for _, k := range []string{"exists-file", "exists-empty-file", "exists-dir", "exists-empty-dir", "exists-symlink", "integrity", "integrity-quick", "integrity-magic", "integrity-magic-quick", "integrity-schema", "integrity-schema-quick"} {
			jobs = append(jobs, c10Job{r, 0, k, 0, 0})
		}
	}
	// read faults at every byte offset x repetitions 1..4 (3 = retry budget, 4 = beyond it)
	for _, r := range reps {
		for fi, f := range r.Plan {
			stride := int64(1)
			if !thorough && f.Size > 1500 {
				stride = 7 // quick tier: large files at stride 7 plus the last 64 bytes; reported as not exhaustive for that class
			}
			for o := int64(0); o <= f.Size; o++ {
				if stride > 1 && o%stride != 0 && o < f.Size-64 {
					continue
				}
				for _, k := range []string{"read-err", "read-eof"} {
					for n := int64(1); n <= 4; n++ {
						jobs = append(jobs, c10Job{r, fi, k, o, n})
					}
				}
			}
		}
	}
	return jobs
}

// c10Exec performs one corruption/fault job in-process and classifies the outcome.
func c10Exec(j c10Job, work string) (outcome string, prob *scn.Problem, desc string, herr error) {
	f := j.r.Plan[j.fi]
	desc = fmt.Sprintf("%s %s", j.kind, f)
	switch j.kind {
	case "delete", "trunc", "xor01", "xorff":
		dir := filepath.Join(work, "replica")
		os.RemoveAll(dir)
		if err := copyTree(j.r.Dir, dir); err != nil {
			herr = err
			return
		}
		p := planPath(dir, f)
		b, _ := os.ReadFile(p)
		fi, _ := os.Stat(p)
		switch j.kind {
		case "delete":
			os.Remove(p)
		case "trunc":
			os.WriteFile(p, b[:j.arg], 0o644)
			desc += fmt.Sprintf(" to %d of %d bytes", j.arg, len(b))
		case "xor01":
			b[j.arg] ^= 0x01
			os.WriteFile(p, b, 0o644)
			desc += fmt.Sprintf(" at byte %d", j.arg)
		case "xorff":
			b[j.arg] ^= 0xFF
			os.WriteFile(p, b, 0o644)
			desc += fmt.Sprintf(" at byte %d", j.arg)
		}
		if j.kind != "delete" && fi != nil {
			os.Chtimes(p, fi.ModTime(), fi.ModTime())
		}
		j.r.allowTail = j.kind == "delete" && j.fi == len(j.r.Plan)-1
		outcome, prob = c10Restore(j.r, dir, nil, work, litestream.IntegrityCheckNone)
		j.r.allowTail = false
	case "read-err", "read-eof":
		desc += fmt.Sprintf(" at offset %d x%d", j.arg, j.rep)
		wrap := func(in litestream.ReplicaClient) litestream.ReplicaClient {
			of := &offsetFault{ReplicaClient: in, Level: f.Level, Min: f.Min, Max: f.Max, At: j.arg, EOF: j.kind == "read-eof"}
			of.times.Store(j.rep)
			return of
		}
		outcome, prob = c10Restore(j.r, j.r.Dir, wrap, work, litestream.IntegrityCheckNone)
		if prob == nil && j.rep <= 3 && outcome != "ok-identical" && !(j.kind == "read-eof" && j.arg >= f.Size) {
			// within the retry budget the fault must be transparent; not a property violation, recorded as an outcome class
			outcome = "error-within-retry-budget:" + outcome
		}
	case "stale-tmp-longer", "stale-tmp-shorter":
		n := len(j.r.Expected) + 3*4096 + 17
		if j.kind == "stale-tmp-shorter" {
			n = len(j.r.Expected) / 2
		}
		outcome, prob = c10RestorePre(j.r, j.r.Dir, nil, work, litestream.IntegrityCheckNone, func(out string) {
			os.WriteFile(out+".tmp", bytes.Repeat([]byte{0xAB}, n), 0o644)
		})
		if prob != nil {
			prob.Detail = j.kind + " (staging file of an earlier, killed restore next to the output path): " + prob.Detail
		}
		outcome = j.kind + "/" + outcome
	case "exists-file", "exists-empty-file", "exists-dir", "exists-empty-dir", "exists-symlink":
		out := filepath.Join(work, "pre")
		os.RemoveAll(out)
		switch j.kind {
		case "exists-file":
			os.WriteFile(out, []byte("precious"), 0o644)
		case "exists-empty-file":
			os.WriteFile(out, nil, 0o644)
		case "exists-empty-dir":
			os.MkdirAll(out, 0o755)
		case "exists-dir":
			os.MkdirAll(filepath.Join(out, "sub"), 0o755)
		case "exists-symlink":
			os.WriteFile(out+".target", []byte("precious"), 0o644)
			os.Symlink(out+".target", out)
		}
		before := fingerprint(out)
		r := litestream.NewReplicaWithClient(nil, file.NewReplicaClient(j.r.Dir))
		opt := litestream.NewRestoreOptions()
		opt.OutputPath = out
		err := r.Restore(context.Background(), opt)
		if err == nil {
			prob = &scn.Problem{Kind: "existing-output-overwritten", Detail: j.kind + ": restore succeeded over an existing path"}
		} else if fingerprint(out) != before {
			prob = &scn.Problem{Kind: "existing-output-modified", Detail: j.kind + ": restore failed but the existing path changed"}
		} else if _, e := os.Lstat(out + ".tmp"); e == nil {
			prob = &scn.Problem{Kind: "tmp-left-behind", Detail: j.kind}
		}
		outcome = "refused"
		os.RemoveAll(out)
		os.Remove(out + ".target")
	case "integrity", "integrity-quick", "integrity-magic", "integrity-magic-quick", "integrity-schema", "integrity-schema-quick":
		// a replica whose files have valid LTX checksums but restore to a damaged database
		dir := filepath.Join(work, "replica")
		os.RemoveAll(dir)
		copyTree(j.r.Dir, dir)
		what := "page"
		if strings.Contains(j.kind, "magic") {
			what = "magic"
		} else if strings.Contains(j.kind, "schema") {
			what = "schema"
		}
		if err := c10Damage(dir, j.r.Plan, what); err != nil {
			herr = err
			return
		}
		out := filepath.Join(work, "integ-out")
		r := litestream.NewReplicaWithClient(nil, file.NewReplicaClient(dir))
		opt := litestream.NewRestoreOptions()
		opt.OutputPath = out
		opt.IntegrityCheck = litestream.IntegrityCheckFull
		if strings.HasSuffix(j.kind, "-quick") {
			opt.IntegrityCheck = litestream.IntegrityCheckQuick
		}
		err := r.Restore(context.Background(), opt)
		if err == nil {
			prob = &scn.Problem{Kind: "integrity-failure-not-reported", Detail: j.kind + ": restore with an integrity check succeeded on a damaged database (valid LTX checksums)"}
		} else if _, e := os.Lstat(out); e == nil {
			prob = &scn.Problem{Kind: "output-kept-after-integrity-failure", Detail: scn.ErrClass(err)}
		}
		outcome = j.kind + ":" + errKind(fmt.Errorf("%v", err))
		os.Remove(out)
	}
	return
}
