package main

import (
	"bufio"
	"context"
	"encoding/json"
	"fmt"
	"io"
	"os"
	"os/exec"
	"path/filepath"
	"strings"
	"sync"
	"time"

	"github.com/benbjohnson/litestream"
	"github.com/benbjohnson/litestream/file"

	"lsverif/ev"
	"lsverif/scn"
)

func init() { register("worker", workerMain) }

// workerMain is the litestream-only process of engine E3. It attaches to an
// existing scenario directory and executes litestream-side operations read from
// stdin, one per line, answering each with one line on stdout.
//
//	lsmc worker <dir> <config-json>
//
// Besides the operation alphabet of package scn it understands:
//
//	RESTORE:<name>     restore the latest state from the replica into <dir>/<name>
//	FOLLOW:<name>      start Restore(Follow) into <dir>/<name> in the background (1ms interval)
//	FSTOP              stop the follower and wait for it
//	PING               answers ok
func workerMain(args []string) int {
	if len(args) < 2 {
		fmt.Fprintln(os.Stderr, "usage: lsmc worker <dir> <config-json> [nols]")
		return 2
	}
	dir := args[0]
	var cfg scn.Config
	if err := json.Unmarshal([]byte(args[1]), &cfg); err != nil {
		fmt.Fprintln(os.Stderr, "worker: bad config:", err)
		return 2
	}
	out := bufio.NewWriter(os.Stdout)
	mark := os.Getenv("LSMC_MARK") == "1"
	reply := func(s string) {
		if mark {
			// Operation boundary visible to the syscall trace (C11's "before the operation reports success").
			os.WriteFile(filepath.Join(dir, ".mark"), []byte(s), 0o644)
		}
		out.WriteString(s + "\n")
		out.Flush()
	}
	var s *scn.Scn
	if len(args) < 3 || args[2] != "nols" {
		var err error
		s, err = scn.Attach(dir, cfg)
		if err != nil {
			reply("err:attach " + scn.ErrClass(err))
			return 1
		}
	}
	reply("ready")
	var (
		fcancel context.CancelFunc
		fwg     sync.WaitGroup
		ferr    error
	)
	in := bufio.NewScanner(os.Stdin)
	for in.Scan() {
		op := strings.TrimSpace(in.Text())
		if op == "" {
			continue
		}
		name, arg := op, ""
		if i := strings.IndexByte(op, ':'); i >= 0 {
			name, arg = op[:i], op[i+1:]
		}
		switch name {
		case "PING":
			reply("ok")
		case "RESTORE":
			c := file.NewReplicaClient(filepath.Join(dir, "replica"))
			r := litestream.NewReplicaWithClient(nil, c)
			opt := litestream.NewRestoreOptions()
			opt.OutputPath = filepath.Join(dir, arg)
			if err := r.Restore(context.Background(), opt); err != nil {
				reply("err:" + scn.ErrClass(err))
			} else {
				reply("ok")
			}
		case "FOLLOW":
			c := file.NewReplicaClient(filepath.Join(dir, "replica"))
			r := litestream.NewReplicaWithClient(nil, c)
			opt := litestream.NewRestoreOptions()
			opt.OutputPath = filepath.Join(dir, arg)
			opt.Follow = true
			opt.FollowInterval = time.Millisecond
			var ctx context.Context
			ctx, fcancel = context.WithCancel(context.Background())
			fwg.Add(1)
			go func() {
				defer fwg.Done()
				ferr = r.Restore(ctx, opt)
			}()
			reply("ok")
		case "FSTOP":
			if fcancel != nil {
				fcancel()
				fwg.Wait()
				fcancel = nil
			}
			if ferr != nil {
				reply("err:" + scn.ErrClass(ferr))
			} else {
				reply("ok")
			}
		case "FWAIT": // wait until the follower's sidecar reports TXID >= arg (decimal), or the follower stopped
			var want uint64
			fmt.Sscanf(arg, "%d", &want)
			deadline := time.Now().Add(30 * time.Second)
			for {
				txid, _ := litestream.ReadTXIDFile(filepath.Join(dir, "follower"))
				if uint64(txid) >= want {
					reply("ok")
					break
				}
				if time.Now().After(deadline) {
					reply("err:follower did not reach txid")
					break
				}
				time.Sleep(time.Millisecond)
			}
		case "EXIT":
			reply("ok")
			return 0
		default:
			if s == nil {
				reply("illegal")
				continue
			}
			o := s.Do(op)
			reply(o.String())
		}
	}
	return 0
}

// proc is a running worker (optionally under killat).
type proc struct {
	cmd    *exec.Cmd
	stdin  io.WriteCloser
	stdout *bufio.Reader
	stderr *strings.Builder
	dead   bool
}

func selfExe() string {
	p, err := os.Executable()
	if err != nil {
		return os.Args[0]
	}
	return p
}

// workerEnv is extra environment for workers started by this process.
var workerEnv []string

func killatPath() string { return filepath.Join(ev.Root(), "killat", "killat") }

// startWorker launches a worker. mode: "" (untraced), "record <tracefile>", "kill <K>".
func startWorker(dir string, cfg scn.Config, mode string, extra ...string) (*proc, error) {
	cj, _ := json.Marshal(cfg)
	wargs := append([]string{"worker", dir, string(cj)}, extra...)
	var cmd *exec.Cmd
	if mode == "" {
		cmd = exec.Command(selfExe(), wargs...)
	} else {
		a := append(strings.Fields(mode), dir, "--", selfExe())
		a = append(a, wargs...)
		cmd = exec.Command(killatPath(), a...)
	}
	cmd.Env = append(append(os.Environ(), "GOMAXPROCS=2"), workerEnv...)
	stdin, err := cmd.StdinPipe()
	if err != nil {
		return nil, err
	}
	stdout, err := cmd.StdoutPipe()
	if err != nil {
		return nil, err
	}
	var eb strings.Builder
	cmd.Stderr = &eb
	if err := cmd.Start(); err != nil {
		return nil, err
	}
	p := &proc{cmd: cmd, stdin: stdin, stdout: bufio.NewReader(stdout), stderr: &eb}
	line, err := p.stdout.ReadString('\n')
	if err != nil {
		p.dead = true
		p.cmd.Wait()
		return p, fmt.Errorf("worker died during start: %s", eb.String())
	}
	if strings.TrimSpace(line) != "ready" {
		p.Stop()
		return nil, fmt.Errorf("worker start: %s", strings.TrimSpace(line))
	}
	return p, nil
}

// Do implements scn.Remote.
func (p *proc) Do(op string) (string, error) {
	if p.dead {
		return "", io.EOF
	}
	if _, err := io.WriteString(p.stdin, op+"\n"); err != nil {
		p.dead = true
		return "", err
	}
	line, err := p.stdout.ReadString('\n')
	if err != nil {
		p.dead = true
		return "", err
	}
	return strings.TrimSpace(line), nil
}

// Stop closes stdin and waits for the worker to exit.
func (p *proc) Stop() {
	if p == nil || p.cmd == nil {
		return
	}
	p.stdin.Close()
	done := make(chan struct{})
	go func() { p.cmd.Wait(); close(done) }()
	select {
	case <-done:
	case <-time.After(20 * time.Second):
		p.cmd.Process.Kill()
		<-done
	}
	p.dead = true
}

// KilledAt reports whether killat killed the worker, and the call it reported.
func (p *proc) KilledAt() (bool, string) {
	for _, l := range strings.Split(p.stderr.String(), "\n") {
		if strings.HasPrefix(l, "killat: killed before") {
			return true, strings.TrimPrefix(l, "killat: killed before ")
		}
	}
	return false, ""
}
