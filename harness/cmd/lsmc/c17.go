//go:build c17

// C17 — databases crossing SQLite's lock-byte page replicate and restore correctly.
//
// This file is only part of the separately built variant of the harness (tools/build_c17.sh):
//
//   - `c17` runs in the SCALED geometry: SQLite (SQLITE_TESTCTRL_PENDING_BYTE, set below before any
//     database is opened), the ltx library (module copy with the one constant changed) and litestream's
//     own file-lock offsets (build overlay of internal/lock_unix.go) all place the lock byte at 0x10000
//     instead of 0x40000000, so that the lock page of page size P is page 0x10000/P+1 and every
//     (page size, database size, path) combination can be enumerated with databases of a few hundred pages.
//   - `c17real` runs in the binary built WITHOUT any scaling (<binary>-real) and pushes one real
//     database of page size 65536 across the 1 GiB offset.
package main

import (
	"bufio"
	"bytes"
	"context"
	"crypto/sha256"
	"database/sql"
	"encoding/hex"
	"encoding/json"
	"errors"
	"fmt"
	"io"
	"os"
	"os/exec"
	"path/filepath"
	"runtime/debug"
	"sort"
	"strconv"
	"strings"
	"sync"
	"time"

	"github.com/benbjohnson/litestream"
	"github.com/benbjohnson/litestream/file"
	"github.com/superfly/ltx"
	"modernc.org/libc"
	sqlite3 "modernc.org/sqlite/lib"

	"lsverif/ev"
	"lsverif/scn"
)

const (
	c17ScaledPending = 0x10000
	c17RealPending   = 0x40000000
)

func init() {
	register("c17", c17)
	register("c17real", c17real)
}

// c17PendingByte reads (newVal == 0) or sets SQLite's pending-byte offset; returns the previous value.
func c17PendingByte(newVal uint32) int32 {
	tls := libc.NewTLS()
	defer tls.Close()
	bp := tls.Alloc(16)
	defer tls.Free(16)
	return sqlite3.Xsqlite3_test_control(tls, sqlite3.SQLITE_TESTCTRL_PENDING_BYTE, libc.VaList(bp, newVal))
}

var c17PageSizes = []int{512, 1024, 2048, 4096, 8192, 16384, 32768, 65536}

// Targets are final database sizes relative to the lock page.
var c17Targets = []struct {
	Name string
	Off  int
}{{"lock-2", -2}, {"lock-1", -1}, {"lock", 0}, {"lock+1", 1}, {"lock+3", 3}}

var c17Paths = []string{
	"a:first-snapshot",
	"b:one-txn-growth",
	"c:growth-to-lock-1-then-on",
	"d:truncate-checkpoint",
	"e:snapshot",
	"f:compact-l1",
	"g:shrink-back",
	"h:vacuum-across",
	"i:downtime-growth-app-checkpoint",
	"k:reopen-after-page-size-change",
}

// c17AltPageSize is the page size of the FIRST session of path k (the database is then rebuilt with the page size of
// the case while litestream is stopped, and the same litestream object is started again).
func c17AltPageSize(ps int) int {
	if ps == 4096 {
		return 1024
	}
	return 4096
}

// c17Spec names one enumerated case; Ops (replay only) overrides the generator.
type c17Spec struct {
	PageSize int      `json:"page_size"`
	AV       string   `json:"auto_vacuum"`
	Path     string   `json:"path"`
	Target   string   `json:"target"`
	Adj      int      `json:"adj"`
	Ops      []string `json:"ops,omitempty"`
	Fill     *c17Fill `json:"fill,omitempty"` // path j only: one direct call of the growth-fill loop
}

type c17Viol struct {
	Kind string
	Msg  string
}

// c17Result is what one scenario run produced.
type c17Result struct {
	Spec        c17Spec
	Ops         []string
	Lock        int
	MarkedPages int    // database size at the point the path aimed at the target (0 = never marked)
	FinalPages  int    // database size at the end
	PeakPages   int    // largest size seen at an oracle point
	Class       string // size class of MarkedPages relative to the lock page
	Inside      bool   // some oracle point had the lock page strictly inside the committed range
	Oracles     int    // oracle evaluations (LTX scan + source guards)
	Restores    int    // ... of which with restore comparison + integrity_check
	LTXFiles    int    // LTX files decoded
	LTXSpanning int    // ... of which commit > lock page
	SnapSpan    int    // ... of which are full snapshots spanning the lock page
	Viol        *c17Viol
	Harness     error
	Unreachable string // why the target could not be reached exactly ("" = reached)
	Dur         time.Duration
}

func c17Class(pages, lock int) string {
	switch {
	case pages == 0:
		return "none"
	case pages <= lock-2:
		return "before"
	case pages == lock-1:
		return "at-lock-1"
	case pages == lock:
		return "at-lock"
	case pages == lock+1:
		return "lock+1"
	}
	return "beyond"
}

type c17Runner struct {
	s     *scn.Scn
	lock  int
	res   *c17Result
	stop  bool
	grew  bool            // the generator executed at least one growing operation
	full  bool            // the last operation was followed by the full oracle (restore comparison included)
	final bool            // the generator has finished: the closing oracle always restores
	seen  map[string]bool // LTX files already decoded and found clean (files are immutable once renamed into place)
}

func (r *c17Runner) fail(kind, msg string) {
	if r.res.Viol == nil && r.res.Harness == nil {
		r.res.Viol = &c17Viol{kind, msg}
	}
	r.stop = true
}

func (r *c17Runner) harness(msg string) {
	if r.res.Viol == nil && r.res.Harness == nil {
		r.res.Harness = errors.New(msg)
	}
	r.stop = true
}

func (r *c17Runner) size() int {
	im, _, err := r.s.SourceImage()
	if err != nil {
		r.harness("source image: " + err.Error())
		return 0
	}
	return im.Pages()
}

func c17OpName(op string) string {
	if i := strings.IndexByte(op, ':'); i >= 0 {
		return op[:i]
	}
	return op
}

// do runs one operation; litestream operations must succeed, and every LTX file is inspected afterwards.
// After an acknowledged SW the full oracle runs.
func (r *c17Runner) do(op string) {
	if r.stop {
		return
	}
	r.full = false
	o := r.s.Do(op)
	if o.Illegal {
		r.harness("operation " + op + " refused by the driver")
		return
	}
	name := c17OpName(op)
	if o.Err != nil {
		switch name {
		case "S", "SW", "LC", "NEW", "START", "CL":
			r.fail("sync-failed", fmt.Sprintf("%s: %v", op, o.Err))
		case "SNAP":
			r.fail("snapshot-failed", fmt.Sprintf("%s: %v", op, o.Err))
		case "CMP":
			r.fail("compaction-failed", fmt.Sprintf("%s: %v", op, o.Err))
		default:
			r.harness(fmt.Sprintf("application operation %s failed: %v", op, o.Err))
		}
		return
	}
	switch name {
	case "REBUILD":
		// a new database with another page size; local state and replica were cleared, file names start over
		r.lock = c17Lock(r.s.Cfg.PageSize)
		r.res.Lock = r.lock
		r.seen = map[string]bool{}
	case "S", "LC", "SNAP":
		r.scanLTX()
	case "SW", "CMP":
		// SW is an acknowledgement; CMP rewrites what restore reads without changing the source
		r.oracle()
	}
}

var c17Debug bool

// scanLTX decodes every file of every level of the replica and of the local staging directory.
func (r *c17Runner) scanLTX() {
	for _, root := range []string{r.s.ReplicaDir, r.s.LocalLTXRoot()} {
		levels := scn.AllLevels(root)
		var lv []int
		for l := range levels {
			lv = append(lv, l)
		}
		sort.Ints(lv)
		for _, l := range lv {
			for _, f := range levels[l] {
				p := filepath.Join(litestream.LTXLevelDir(root, l), ltx.FormatFilename(f.Min, f.Max))
				fkey := fmt.Sprintf("%s|%d|%d", p, f.Size, f.MTime.UnixNano())
				if r.seen[fkey] {
					continue
				}
				b, err := os.ReadFile(p)
				if err != nil {
					continue // removed by retention between listing and reading
				}
				where := "replica"
				if root != r.s.ReplicaDir {
					where = "local"
				}
				d, err := decodeLTX(b)
				if err != nil {
					r.fail("restore-differs", fmt.Sprintf("%s file %s does not decode: %v", where, f, err))
					return
				}
				r.res.LTXFiles++
				if c17Debug && where == "replica" {
					fmt.Printf("  after %-12s %s commit=%d pages=%d snapshot=%v\n", r.s.History[len(r.s.History)-1], f, d.Hdr.Commit, len(d.Pages), d.Hdr.IsSnapshot())
					var missing []uint32
					for p := uint32(1); p <= d.Hdr.Commit; p++ {
						if _, ok := d.Pages[p]; !ok {
							missing = append(missing, p)
						}
					}
					fmt.Printf("      absent pages: %v\n", missing)
				}
				if int(d.Hdr.Commit) > r.lock {
					r.res.LTXSpanning++
					if d.Hdr.IsSnapshot() {
						r.res.SnapSpan++
						if len(d.Pages) != int(d.Hdr.Commit)-1 {
							r.fail("restore-differs", fmt.Sprintf("%s snapshot file %s has %d pages for commit %d spanning the lock page %d (want commit-1)", where, f, len(d.Pages), d.Hdr.Commit, r.lock))
							return
						}
					}
				}
				if _, ok := d.Pages[uint32(r.lock)]; ok {
					r.fail("lock-page-replicated", fmt.Sprintf("%s file %s (commit %d) contains page %d, the lock page for page size %d", where, f, d.Hdr.Commit, r.lock, r.s.Cfg.PageSize))
					return
				}
				r.seen[fkey] = true
			}
		}
	}
}

func allZero(b []byte) bool {
	for _, x := range b {
		if x != 0 {
			return false
		}
	}
	return true
}

// oracle: LTX scan + restore == source on every page (seq page carve-out as in C01), lock page empty on both
// sides, integrity_check ok.
func (r *c17Runner) oracle() {
	if r.stop {
		return
	}
	r.scanLTX()
	if r.stop {
		return
	}
	s := r.s
	s.RefreshSeqRoot()
	src, _, err := s.SourceImage()
	if err != nil {
		r.harness("source image: " + err.Error())
		return
	}
	n := src.Pages()
	r.res.Oracles++
	if n > r.res.PeakPages {
		r.res.PeakPages = n
	}
	r.res.FinalPages = n
	if n == r.lock {
		r.harness(fmt.Sprintf("source database ends exactly at the lock page %d: SQLite never produces that, the scaling is not in effect", r.lock))
		return
	}
	if n > r.lock {
		r.res.Inside = true
		if !allZero(src.Page(r.lock)) {
			r.harness(fmt.Sprintf("source page %d (lock page) is not empty: SQLite is not using the scaled pending byte", r.lock))
			return
		}
	}
	if n < r.lock-1 && !r.final {
		// the lock page is neither inside nor adjacent to the committed range yet: the restore comparison at
		// this instant is C01's subject; the scenario's last acknowledgement is always compared
		return
	}
	r.res.Restores++
	rst, err := s.Restore(scn.RestoreOpt{})
	if err != nil {
		r.fail("restore-differs", "restore failed: "+err.Error())
		return
	}
	if d := scn.Compare(src, rst, s.SeqRoot); d != nil {
		r.fail("restore-differs", fmt.Sprintf("%s (lock page %d, source pages %d, replica %s)", d, r.lock, n, scn.Shape(s.ReplicaDir)))
		return
	}
	if rst.Pages() >= r.lock && !allZero(rst.Page(r.lock)) {
		r.fail("lock-page-not-empty", fmt.Sprintf("restored page %d is not all zero", r.lock))
		return
	}
	if err := scn.IntegrityCheck(s.Dir, rst); err != nil {
		r.fail("integrity-failed", err.Error())
		return
	}
	r.full = true
}

// mark records the size the path aimed at the target.
func (r *c17Runner) mark() {
	if r.stop {
		return
	}
	r.res.MarkedPages = r.size()
}

// grow adds rows until the database has at least `to` pages, in steps that do not overshoot when avoidable.
func (r *c17Runner) grow(to int) {
	for i := 0; i < 600 && !r.stop; i++ {
		cur := r.size()
		if r.stop || cur >= to {
			return
		}
		rem := to - cur
		if cur < r.lock && to >= r.lock {
			rem-- // the lock page is skipped by the allocator
		}
		r.grew = true
		if rem >= 4 {
			r.do("WN:" + strconv.Itoa(rem-2))
		} else {
			r.do("WN:1")
		}
	}
	if !r.stop {
		r.harness(fmt.Sprintf("grow(%d) did not converge", to))
	}
}

// c17Generate runs the path of the spec. T is the target size (already moved off the lock page itself).
func (r *c17Runner) generate(sp c17Spec, T int) {
	L := r.lock
	min := func(a, b int) int {
		if a < b {
			return a
		}
		return b
	}
	shrinkOp := "VAC"
	if sp.AV == "INCREMENTAL" {
		shrinkOp = "IVAC"
	}
	switch sp.Path[:1] {
	case "a": // everything before litestream's first sync; the first sync creates litestream's two tables
		r.grow(T - 2 + sp.Adj)
		r.do("SW")
		r.mark()
	case "b": // one transaction from below the boundary to the target, seen by one sync
		r.do("SW")
		if base := min(L-3, T-2); base > r.size() {
			r.grow(base)
			r.do("SW")
		}
		cur := r.size()
		k := T - cur + sp.Adj
		if cur < L && T > L {
			k--
		}
		if k >= 1 {
			r.grew = true
			r.do("WN:" + strconv.Itoa(k))
		}
		r.do("SW")
		r.mark()
	case "c": // first sync ends exactly at lock-1 (or the target if smaller), the next one continues
		r.do("SW")
		r.grow(min(T+sp.Adj, L-1))
		r.do("SW")
		if T > L-1 {
			r.grow(T + sp.Adj)
			r.do("SW")
		}
		r.mark()
	case "d":
		r.do("SW")
		r.grow(T + sp.Adj)
		r.do("SW")
		r.do("LC:TRUNCATE")
		r.do("SW")
		r.mark()
		r.do("U")
		r.do("SW")
	case "e":
		r.do("SW")
		r.grow(T + sp.Adj)
		r.do("SW")
		r.do("SNAP")
		r.do("SW")
		r.mark()
		r.do("U")
		r.do("SW")
	case "f":
		r.do("SW")
		r.grow(min(T+sp.Adj, L-1))
		r.do("SW")
		r.do("U")
		r.do("SW")
		if T > L-1 {
			r.grow(T + sp.Adj)
			r.do("SW")
		}
		r.do("U")
		r.do("SW")
		r.mark()
		r.do("CMP:1")
		r.do("U")
		r.do("SW")
		r.do("CMP:1")
		r.do("CMP:2")
	case "g":
		r.do("SW")
		r.grow(T + sp.Adj)
		r.do("SW")
		r.mark()
		r.do("D")
		r.do("SW")
		r.do(shrinkOp)
		r.do("SW")
		r.do("WN:2")
		r.do("SW")
	case "h":
		r.do("SW")
		r.grow(T + sp.Adj)
		r.do("SW")
		r.mark()
		r.do("VAC")
		r.do("SW")
		r.do("W1")
		r.do("SW")
	case "i":
		// litestream is killed, the application grows the database across the boundary, checkpoints (the pages
		// now live in the database file) and restarts the WAL; a new litestream process must re-snapshot from
		// the database file plus the new WAL
		r.do("SW")
		r.do("WN:3")
		r.do("SW")
		r.do("KILL")
		r.grow(T + sp.Adj)
		r.do("CK:RESTART")
		r.do("U")
		r.do("NEW")
		r.do("SW")
		r.mark()
		r.do("WN:2")
		r.do("SW")
	case "k":
		// litestream stop; the database is rebuilt with another page size; litestream reset; start of the SAME
		// object: whatever it remembers of the first session's geometry is stale
		r.do("SW")
		r.do("CL")
		r.do("REBUILD:" + strconv.Itoa(sp.PageSize))
		r.do("START")
		r.do("SW")
		r.grow(T + sp.Adj)
		r.do("SW")
		r.mark()
		r.do("U")
		r.do("SW")
	default:
		r.harness("unknown path " + sp.Path)
	}
}

func c17Lock(ps int) int { return c17ScaledPending/ps + 1 }

func c17TargetPages(sp c17Spec) (int, bool) {
	L := c17Lock(sp.PageSize)
	for _, t := range c17Targets {
		if t.Name == sp.Target {
			T := L + t.Off
			if T == L {
				T = L + 1 // SQLite never ends a database on the lock page: nearest reachable size
			}
			return T, true
		}
	}
	return 0, false
}

// c17Run executes one scenario (generator or literal op list).
func c17Run(sp c17Spec) *c17Result {
	res := &c17Result{Spec: sp, Lock: c17Lock(sp.PageSize)}
	t0 := time.Now()
	defer func() { res.Dur = time.Since(t0) }()
	first := sp.PageSize
	if strings.HasPrefix(sp.Path, "k:") {
		first = c17AltPageSize(sp.PageSize)
		res.Lock = c17Lock(first) // until the REBUILD operation
	}
	cfg := cfgWith(func(c *scn.Config) {
		c.PageSize = first
		c.AutoVacuum = sp.AV
	})
	s, err := scn.NewOpt(cfg, func(s *scn.Scn) { s.NoLedger = true })
	if err != nil {
		res.Harness = fmt.Errorf("new scenario: %w", err)
		return res
	}
	defer s.Destroy()
	r := &c17Runner{s: s, lock: res.Lock, res: res, seen: map[string]bool{}}
	if sp.Ops != nil {
		for _, op := range sp.Ops {
			r.do(op)
		}
		r.mark()
	} else {
		T, ok := c17TargetPages(sp)
		if !ok {
			res.Harness = fmt.Errorf("unknown target %q", sp.Target)
			return res
		}
		if T < 2 {
			res.Unreachable = "impossible"
			return res
		}
		r.generate(sp, T)
		if !r.stop && !r.grew && res.MarkedPages > T {
			res.Unreachable = fmt.Sprintf("the database has %d pages before any growth", res.MarkedPages)
		}
	}
	if !r.stop {
		// every scenario ends in an acknowledged state that has been through the full oracle
		r.final = true
		if len(s.History) > 0 && c17OpName(s.History[len(s.History)-1]) == "CMP" {
			if !r.full {
				r.oracle()
			}
		} else if len(s.History) > 0 && s.History[len(s.History)-1] == "SW" && r.full {
			// already acknowledged and compared
		} else {
			r.do("SW")
		}
	}
	res.Ops = append([]string(nil), s.History...)
	res.Class = c17Class(res.MarkedPages, res.Lock)
	return res
}

type c17Detail struct {
	c17Spec
	LockPgno    int    `json:"lock_pgno"`
	MarkedPages int    `json:"pages_at_target"`
	FinalPages  int    `json:"pages_at_end"`
	Message     string `json:"message"`
	Geometry    string `json:"geometry"`
}

func c17Report(rep *ev.Reporter, res *c17Result) {
	v := res.Viol
	class := res.Class
	if class == "none" {
		class = "t:" + res.Spec.Target
	}
	rep.Report(&ev.Violation{
		Kind:      v.Kind,
		Signature: fmt.Sprintf("%s|ps%d|%s|%s|av=%s", v.Kind, res.Spec.PageSize, class, res.Spec.Path, res.Spec.AV),
		Detail: c17Detail{
			c17Spec:     c17Spec{PageSize: res.Spec.PageSize, AV: res.Spec.AV, Path: res.Spec.Path, Target: res.Spec.Target, Adj: res.Spec.Adj, Ops: res.Ops},
			LockPgno:    res.Lock,
			MarkedPages: res.MarkedPages, FinalPages: res.FinalPages,
			Message:  v.Msg,
			Geometry: fmt.Sprintf("scaled: pending byte 0x%x in SQLite, ltx and litestream/internal", c17ScaledPending),
		},
	})
}

// c17Setup puts the process into the scaled geometry and checks that all three parties agree.
func c17Setup() error {
	if ltx.PENDING_BYTE != c17ScaledPending {
		return fmt.Errorf("this binary was built with ltx.PENDING_BYTE = 0x%x; `c17` needs the scaled build (tools/build_c17.sh <repo> <out>), `c17real` the unscaled one", int64(ltx.PENDING_BYTE))
	}
	if os.Getenv("C17_NO_SQLITE_SCALE") == "1" {
		// negative control of the guards: SQLite keeps 0x40000000 while ltx/litestream use 0x10000; the run must
		// end as a harness error (SQLite stores row payload on what litestream takes for the lock page)
		fmt.Fprintln(os.Stderr, "c17: C17_NO_SQLITE_SCALE=1: SQLite is NOT scaled (guard demonstration)")
	} else {
		old := c17PendingByte(c17ScaledPending)
		if old != c17RealPending && old != c17ScaledPending {
			return fmt.Errorf("SQLite's pending byte was 0x%x before scaling", old)
		}
		if cur := c17PendingByte(0); cur != c17ScaledPending {
			return fmt.Errorf("SQLite's pending byte is 0x%x after SQLITE_TESTCTRL_PENDING_BYTE", cur)
		}
	}
	for _, ps := range c17PageSizes {
		if got, want := int(ltx.LockPgno(uint32(ps))), c17Lock(ps); got != want {
			return fmt.Errorf("ltx.LockPgno(%d) = %d, want %d", ps, got, want)
		}
	}
	return nil
}

func c17(args []string) int {
	t := ev.Start()
	debug.SetGCPercent(400)
	if err := c17Setup(); err != nil {
		fmt.Fprintln(os.Stderr, "c17: harness error:", err)
		return 2
	}
	defer os.RemoveAll(filepath.Join(scn.ScratchRoot, fmt.Sprintf("lsmc-%d", os.Getpid())))
	rep := ev.NewReporter("C17")
	if p := replayArg(args); p != "" {
		return c17Replay(rep, p)
	}
	if h := histArg(args); h != nil {
		sp := c17Spec{PageSize: 4096, AV: "NONE", Path: "manual", Target: "manual", Ops: h}
		for i, a := range args {
			if a == "--ps" && i+1 < len(args) {
				sp.PageSize, _ = strconv.Atoi(args[i+1])
			}
			if a == "--av" && i+1 < len(args) {
				sp.AV = args[i+1]
			}
		}
		c17Debug = true
		res := c17Run(sp)
		fmt.Printf("lock=%d pages=%d class=%s inside=%v ltx=%d spanning=%d viol=%v harness=%v\nops=%v\n", res.Lock, res.FinalPages, res.Class, res.Inside, res.LTXFiles, res.LTXSpanning, res.Viol, res.Harness, res.Ops)
		return 0
	}

	// ---- enumeration -------------------------------------------------------------------------------------
	type c17Group struct {
		PS   int
		AV   string
		Path string
	}
	var groups []c17Group
	enumerated, aliased := 0, 0
	for _, ps := range c17PageSizes {
		for _, av := range []string{"NONE", "INCREMENTAL"} {
			for _, p := range c17Paths {
				groups = append(groups, c17Group{ps, av, p})
			}
		}
	}
	budget := ev.Budget(10*time.Minute, 30*time.Minute)
	var (
		mu           sync.Mutex
		results      []*c17Result
		cut          bool
		skippedBelow int
	)
	jobs := make(chan c17Group)
	var wg sync.WaitGroup
	workers := 4
	if n, err := strconv.Atoi(os.Getenv("C17_WORKERS")); err == nil && n > 0 {
		workers = n
	}
	for w := 0; w < workers; w++ {
		wg.Add(1)
		go func() {
			defer wg.Done()
			for g := range jobs {
				// targets in ascending order; once a scenario shows that the database is already larger than its
				// target before any growth, every target up to that size yields the same operation list: not re-run
				floor := 0
				for _, tg := range c17Targets {
					mu.Lock()
					enumerated++
					mu.Unlock()
					if tg.Off == 0 {
						// SQLite never ends a database on the lock page; the nearest reachable size is lock+1,
						// which is the next target: same scenario, not run twice
						mu.Lock()
						aliased++
						mu.Unlock()
						continue
					}
					sp := c17Spec{PageSize: g.PS, AV: g.AV, Path: g.Path, Target: tg.Name}
					T, _ := c17TargetPages(sp)
					if T >= 2 && T <= floor {
						mu.Lock()
						skippedBelow++
						mu.Unlock()
						continue
					}
					// a scenario that misses its target size is re-generated with a corrected growth (at most 3
					// times); every attempt is a complete scenario and goes through the same oracle
					prev := ""
					for attempt := 0; attempt < 4; attempt++ {
						res := c17Run(sp)
						mu.Lock()
						results = append(results, res)
						mu.Unlock()
						if res.Unreachable != "" && res.Unreachable != "impossible" && res.MarkedPages > floor {
							floor = res.MarkedPages
						}
						ops := strings.Join(res.Ops, " ")
						if res.Viol != nil || res.Harness != nil || res.Unreachable != "" || res.MarkedPages == T || res.MarkedPages == 0 || ops == prev {
							break
						}
						prev = ops
						sp.Adj += T - res.MarkedPages
					}
				}
			}
		}()
	}
	for _, g := range groups {
		if t.Since() > budget {
			cut = true
			break
		}
		jobs <- g
	}
	close(jobs)
	wg.Wait()

	// ---- accounting --------------------------------------------------------------------------------------
	type comboKey struct {
		PS    int
		Class string
		Path  string
	}
	combos := map[comboKey]map[string]bool{}
	distinctScn := map[string]bool{}
	nontrivial := map[string]bool{}
	insideByPS := map[int]int{}
	exactHits, impossible, unreachable, evaluations := 0, 0, 0, 0
	oracles, restores, ltxFiles, ltxSpan, snapSpan := 0, 0, 0, 0, 0
	var harnessErr error
	nViol := 0
	if os.Getenv("C17_TIMING") != "" {
		type agg struct {
			n int
			d time.Duration
		}
		byPS, byPath := map[int]*agg{}, map[string]*agg{}
		for _, res := range results {
			if byPS[res.Spec.PageSize] == nil {
				byPS[res.Spec.PageSize] = &agg{}
			}
			if byPath[res.Spec.Path] == nil {
				byPath[res.Spec.Path] = &agg{}
			}
			byPS[res.Spec.PageSize].n++
			byPS[res.Spec.PageSize].d += res.Dur
			byPath[res.Spec.Path].n++
			byPath[res.Spec.Path].d += res.Dur
		}
		for _, ps := range c17PageSizes {
			fmt.Fprintf(os.Stderr, "timing ps=%d runs=%d total=%v\n", ps, byPS[ps].n, byPS[ps].d)
		}
		for _, p := range c17Paths {
			fmt.Fprintf(os.Stderr, "timing path=%s runs=%d total=%v\n", p, byPath[p].n, byPath[p].d)
		}
	}
	for _, res := range results {
		if res.Unreachable == "impossible" {
			impossible++
			continue
		}
		if res.Harness != nil {
			if harnessErr == nil {
				harnessErr = fmt.Errorf("ps=%d av=%s path=%s target=%s adj=%d ops=%v: %w", res.Spec.PageSize, res.Spec.AV, res.Spec.Path, res.Spec.Target, res.Spec.Adj, res.Ops, res.Harness)
			}
			continue
		}
		key := fmt.Sprintf("%d|%s|%s", res.Spec.PageSize, res.Spec.AV, strings.Join(res.Ops, " "))
		if distinctScn[key] {
			continue // the same operation list under the same configuration was already counted
		}
		distinctScn[key] = true
		evaluations++
		oracles += res.Oracles
		restores += res.Restores
		ltxFiles += res.LTXFiles
		ltxSpan += res.LTXSpanning
		snapSpan += res.SnapSpan
		if res.Unreachable != "" {
			unreachable++
		}
		if res.Viol != nil {
			nViol++
			c17Report(rep, res)
			continue
		}
		if T, _ := c17TargetPages(res.Spec); res.MarkedPages == T {
			exactHits++
		}
		ck := comboKey{res.Spec.PageSize, res.Class, res.Spec.Path}
		if combos[ck] == nil {
			combos[ck] = map[string]bool{}
		}
		combos[ck][res.Spec.AV] = true
		if res.Inside {
			insideByPS[res.Spec.PageSize]++
			nontrivial[fmt.Sprintf("%d|%s|%s|%s", res.Spec.PageSize, res.Class, res.Spec.Path, res.Spec.AV)] = true
		}
	}
	if harnessErr != nil {
		fmt.Fprintln(os.Stderr, "c17: harness error:", harnessErr)
		return 2
	}
	if nViol == 0 && !cut {
		for _, ps := range c17PageSizes {
			if insideByPS[ps] == 0 {
				fmt.Fprintf(os.Stderr, "c17: harness error: no scenario with page size %d placed the lock page %d strictly inside the committed range\n", ps, c17Lock(ps))
				return 2
			}
		}
	}
	// ---- layer 2: direct enumeration of the growth-fill loop ----------------------------------------------
	fillDir := filepath.Join(scn.ScratchRoot, fmt.Sprintf("lsmc-%d", os.Getpid()), "c17fill")
	fillCases, fillSpanning := 0, 0
	fillClasses := map[string]bool{}
	var fillSamples []string
	for _, ps := range c17PageSizes {
		for _, fc := range c17FillCases(ps, c17Lock(ps)) {
			v, err := c17FillRun(fillDir, fc, false)
			if err != nil {
				fmt.Fprintln(os.Stderr, "c17: harness error: growth-fill case:", err)
				return 2
			}
			fillCases++
			evaluations++
			if v != nil {
				nViol++
				fc := fc
				rep.Report(&ev.Violation{Kind: v.Kind, Signature: c17FillSignature(v, fc), Detail: c17Detail{
					c17Spec:  c17Spec{PageSize: ps, AV: "-", Path: "j:growth-fill-direct", Target: c17Class(int(fc.Commit), fc.Lock), Fill: &fc},
					LockPgno: fc.Lock, Message: v.Msg,
					Geometry: fmt.Sprintf("scaled: pending byte 0x%x in ltx", c17ScaledPending),
				}})
				continue
			}
			if int(fc.PrevCommit) < fc.Lock && int(fc.Commit) > fc.Lock {
				fillSpanning++
				k := fmt.Sprintf("%d|%s|j:growth-fill-direct/%s/from-%s|-", ps, c17Class(int(fc.Commit), fc.Lock), fc.Pattern, c17Class(int(fc.PrevCommit), fc.Lock))
				nontrivial[k] = true
				fillClasses[k] = true
				if ps == 4096 && len(fillSamples) < 4 {
					fillSamples = append(fillSamples, fmt.Sprintf("ps=%d j:growth-fill-direct: lock page %d, prevCommit=%d commit=%d, pages in WAL %v (%s) => pages (prevCommit,commit] minus lock page, WAL content over database-file content", ps, fc.Lock, fc.PrevCommit, fc.Commit, fc.WALPages, fc.Pattern))
				}
			}
		}
	}
	os.RemoveAll(fillDir)

	// ---- layer 3: the follow-mode apply step around the lock page (c17follow.go) ------------------------------
	followCases := 0
	for _, ps := range c17PageSizes {
		for _, fc := range c17FollowCases(ps, c17Lock(ps)) {
			v, err := c17FollowRun(filepath.Join(scn.ScratchRoot, fmt.Sprintf("lsmc-%d", os.Getpid()), "c17follow"), fc)
			if err != nil {
				fmt.Fprintln(os.Stderr, "c17: harness error: follow-apply case:", err)
				return 2
			}
			followCases++
			evaluations++
			if v != nil {
				nViol++
				rep.Report(&ev.Violation{Kind: v.Kind, Signature: fmt.Sprintf("%s|ps%d|%s|k:follow-apply-direct|before=%s", v.Kind, ps, c17Class(int(fc.Commit), fc.Lock), c17Class(int(fc.Before), fc.Lock)),
					Detail: map[string]any{"follow_case": fc, "message": v.Msg, "geometry": fmt.Sprintf("scaled: pending byte 0x%x in ltx", c17ScaledPending)}})
				continue
			}
			nontrivial[fmt.Sprintf("%d|%s|k:follow-apply-direct/before-%s|-", ps, c17Class(int(fc.Commit), fc.Lock), c17Class(int(fc.Before), fc.Lock))] = true
		}
	}

	var achieved []string
	var cks []comboKey
	for k := range combos {
		cks = append(cks, k)
	}
	classOrder := map[string]int{"before": 0, "at-lock-1": 1, "lock+1": 2, "beyond": 3}
	sort.Slice(cks, func(i, j int) bool {
		a, b := cks[i], cks[j]
		if a.PS != b.PS {
			return a.PS < b.PS
		}
		if a.Path != b.Path {
			return a.Path < b.Path
		}
		return classOrder[a.Class] < classOrder[b.Class]
	})
	// compact listing: "ps512 a:first-snapshot: before[NONE,INCREMENTAL] at-lock-1[...] ..."
	var line string
	var lineKey string
	flush := func() {
		if line != "" {
			achieved = append(achieved, line)
		}
	}
	for _, k := range cks {
		lk := fmt.Sprintf("ps%d %s", k.PS, k.Path)
		if lk != lineKey {
			flush()
			lineKey, line = lk, lk+":"
		}
		var avs []string
		for a := range combos[k] {
			avs = append(avs, a[:1])
		}
		sort.Strings(avs)
		line += fmt.Sprintf(" %s[%s]", k.Class, strings.Join(avs, ""))
	}
	flush()
	var insideList []string
	nInside := 0
	for _, ps := range c17PageSizes {
		nInside += insideByPS[ps]
		insideList = append(insideList, fmt.Sprintf("ps%d(lock page %d): %d", ps, c17Lock(ps), insideByPS[ps]))
	}
	var samples []any
	seenSample := map[string]bool{}
	for _, res := range results {
		if res.Viol != nil || res.Harness != nil || !res.Inside {
			continue
		}
		k := fmt.Sprintf("%s|%d", res.Spec.Path, res.Spec.PageSize)
		if seenSample[res.Spec.Path] && (len(samples) >= 14 || seenSample[k] || res.Spec.PageSize != 512 && res.Spec.PageSize != 65536) {
			continue
		}
		seenSample[res.Spec.Path], seenSample[k] = true, true
		samples = append(samples, fmt.Sprintf("ps=%d av=%s %s target=%s: lock page %d, %d pages at target (%s), %d at end; ops: %s", res.Spec.PageSize, res.Spec.AV, res.Spec.Path, res.Spec.Target, res.Lock, res.MarkedPages, res.Class, res.FinalPages, strings.Join(res.Ops, " ")))
	}
	for _, x := range fillSamples {
		samples = append(samples, x)
	}
	if len(samples) == 0 {
		samples = append(samples, "no passing scenario (see violations)")
	}

	cov := map[string]any{
		"evaluations":         evaluations,
		"distinct_nontrivial": len(nontrivial),
		"rule": "scaled geometry (lock byte at 0x10000 in SQLite, ltx and litestream's lock offsets): every page size 512..65536 x target size {lock-2, lock-1, lock, lock+1, lock+3} pages x auto_vacuum {NONE, INCREMENTAL} x path {" + strings.Join(c17Paths, ", ") + "}; " +
			"rows are added until the target size is reached (a scenario that misses it is regenerated with corrected growth, at most 3 times; size 'lock' is unreachable because SQLite never ends a database on the lock page, the nearest size lock+1 is used); " +
			"oracle after every litestream operation: no error, no LTX file at any level (replica and local staging) contains the lock page, full snapshots spanning it have commit-1 pages; after every acknowledged SW and every compaction: restore == source on every page (C01's _litestream_seq page carve-out), same size, lock page all zero in source and restore, integrity_check ok. " +
			"Layer 2 (path j:growth-fill-direct): DB.writeLTXFromWAL called directly on synthetic database/WAL files for every page size x prevCommit in lock-3..lock+1 x commit up to lock+3 x {no / all / only the last / all but the last / every other} growth page present in the WAL; oracle: no error, output pages == WAL pages + (prevCommit,commit] minus the lock page, WAL content over database-file content. " +
			"evaluations = distinct (configuration, executed operation list) scenarios + layer-2 calls; distinct_nontrivial = distinct (page size, size class at target, path, auto_vacuum) combinations whose scenario had the lock page strictly inside the committed range at an oracle point, plus distinct layer-2 (page size, prevCommit class, commit class, WAL pattern) whose fill range spans the lock page",
		"samples":                                     samples,
		"exhaustive":                                  !cut,
		"enumerated_cases":                            enumerated,
		"cases_size_lock_aliased_to_lock+1":           aliased,
		"scenario_runs":                               len(results),
		"impossible_cases":                            impossible,
		"cases_target_unreachable":                    unreachable + skippedBelow,
		"cases_not_rerun_same_operation_list":         skippedBelow,
		"scenarios_at_exact_target":                   exactHits,
		"oracle_evaluations":                          oracles,
		"restore_comparisons":                         restores,
		"ltx_files_decoded":                           ltxFiles,
		"ltx_files_spanning_lock_page":                ltxSpan,
		"snapshot_files_spanning_lock_page":           snapSpan,
		"scenarios_with_lock_page_inside":             insideList,
		"follow_apply_direct_calls":                   followCases,
		"growth_fill_direct_calls":                    fillCases,
		"growth_fill_direct_calls_spanning_lock_page": fillSpanning,
		"growth_fill_direct_distinct_classes":         len(fillClasses),
		"achieved_pagesize_path_sizeclass[av]":        achieved,
	}
	assumptions := []string{
		"scaled geometry: trusted base is that SQLite consults only its sqlite3PendingByte variable (set with SQLITE_TESTCTRL_PENDING_BYTE before any database is opened), ltx only its PENDING_BYTE constant (module copy with that one line changed) and litestream only ltx.LockPgno plus sqlitePendingByte in internal/lock_unix.go (build overlay, one line changed); litestream's db.go/replica.go/compactor code is compiled unmodified",
		"guards: SQLite's pending byte reads back 0x10000; ltx.LockPgno(P) == 0x10000/P+1 for all eight page sizes; the source's lock page is all zero whenever it is inside the file (it would hold row payload if SQLite were not scaled); a run in which some page size never has the lock page inside the committed range is a harness error",
		"file replica; monitors off; single database; no storage faults",
		"end to end, the branch of writeLTXFromWAL that reads growth pages from the database file is reached only through the lock page (SQLite writes every other new page to the WAL and litestream re-snapshots when it may have missed frames); its contract is enumerated by direct calls (layer 2) through a wrapper added to the litestream package by a build overlay (new file, nothing in /repo changed)",
		"the VFS read path (vfs.go) is not exercised",
	}

	// ---- one real run across 1 GiB (thorough tier) ------------------------------------------------------
	code := 0
	if ev.Tier() == "thorough" && os.Getenv("C17_REAL") != "0" {
		out, rc := c17SpawnReal()
		cov["real_run"] = out
		switch rc {
		case 0:
		case 1:
			rep.Report(&ev.Violation{Kind: fmt.Sprint(out["kind"]), Signature: fmt.Sprintf("%v|ps65536|beyond|real-1GiB|av=NONE", out["kind"]), Detail: out})
			nViol++
		default:
			fmt.Fprintf(os.Stderr, "c17: harness error: real run failed: %v\n", out)
			code = 2
		}
	} else {
		cov["real_run"] = "not run in this tier (thorough tier runs `<binary>-real c17real`: page size 65536, database grown past 1 GiB with the unmodified constants; C17_REAL=0 disables)"
	}

	if err := ev.Write(&ev.Evidence{
		PropertyID: "C17", Tier: ev.Tier(), Seed: ev.Seed(), Level: "exploration",
		Coverage: cov, Assumptions: assumptions, WallS: t.S(), Violations: rep.Unknown(),
	}); err != nil {
		fmt.Fprintln(os.Stderr, "c17: write evidence:", err)
		return 2
	}
	fmt.Printf("C17: %d distinct scenarios (%d runs, %d enumerated cases, %d impossible), %d with the lock page inside; %d direct growth-fill calls (%d spanning the lock page); %d distinct non-trivial combinations, %d LTX files decoded (%d spanning the lock page), %.1fs\n",
		evaluations-fillCases, len(results), enumerated, impossible, nInside, fillCases, fillSpanning, len(nontrivial), ltxFiles, ltxSpan, t.S())
	if rc := rep.Finish(); rc != 0 {
		return rc
	}
	return code
}

func c17Replay(rep *ev.Reporter, path string) int {
	b, err := os.ReadFile(path)
	if err != nil {
		fmt.Fprintln(os.Stderr, "c17:", err)
		return 2
	}
	var v struct {
		Detail c17Detail `json:"detail"`
	}
	if err := json.Unmarshal(b, &v); err != nil {
		fmt.Fprintln(os.Stderr, "c17: replay file:", err)
		return 2
	}
	if v.Detail.Path == "real-1GiB" || v.Detail.PageSize == 0 {
		fmt.Fprintln(os.Stderr, "c17: this replay describes the real 1 GiB run: re-run `<binary>-real c17real`")
		return 2
	}
	sp := v.Detail.c17Spec
	if sp.Fill != nil {
		fc := *sp.Fill
		dir := filepath.Join(scn.ScratchRoot, fmt.Sprintf("lsmc-%d", os.Getpid()), "c17fill")
		defer os.RemoveAll(dir)
		fv, err := c17FillRun(dir, fc, false)
		fmt.Printf("replay j:growth-fill-direct ps=%d lock page %d prevCommit=%d commit=%d wal pages %v\n", fc.PageSize, fc.Lock, fc.PrevCommit, fc.Commit, fc.WALPages)
		if err != nil {
			fmt.Fprintln(os.Stderr, "c17: harness error:", err)
			return 2
		}
		if fv == nil {
			fmt.Println("replay: property held")
			return 0
		}
		fmt.Printf("replay: %s: %s\n", fv.Kind, fv.Msg)
		rep.Report(&ev.Violation{Kind: fv.Kind, Signature: c17FillSignature(fv, fc), Detail: v.Detail})
		return rep.Finish()
	}
	res := c17Run(sp)
	fmt.Printf("replay ps=%d av=%s path=%s lock page %d, ops: %s\n", sp.PageSize, sp.AV, sp.Path, res.Lock, strings.Join(res.Ops, " "))
	if res.Harness != nil {
		fmt.Fprintln(os.Stderr, "c17: harness error:", res.Harness)
		return 2
	}
	if res.Viol == nil {
		fmt.Println("replay: property held")
		return 0
	}
	fmt.Printf("replay: %s: %s\n", res.Viol.Kind, res.Viol.Msg)
	c17Report(rep, res)
	return rep.Finish()
}

// ---------------------------------------------------------------------------------------------------------
// Layer 2: the growth-fill loop of DB.writeLTXFromWAL, called directly.
//
// In sequential histories on a healthy tree every page of a growing transaction is in the WAL (SQLite writes all
// of them, except the lock page), and litestream re-snapshots whenever it may have missed frames, so the branch
// that reads growth pages from the database file is only reachable end to end through the lock page itself.
// The loop's contract - "the file holds every page in (prevCommit, commit] except the lock page, WAL content
// where the WAL has the page and database-file content otherwise" - is therefore enumerated by calling the
// function on synthetic db/WAL files, like the repository's own unit test does for one case. The call goes
// through litestream.VerifC17WriteLTXFromWAL, a wrapper in a file that tools/build_c17.sh adds to the package
// with a build overlay (no file of /repo is changed).

type c17Fill struct {
	PageSize   int      `json:"page_size"`
	Lock       int      `json:"lock_pgno"`
	PrevCommit uint32   `json:"prev_commit"`
	Commit     uint32   `json:"commit"`
	WALPages   []uint32 `json:"wal_pages"`
	Pattern    string   `json:"pattern"`
}

func c17FillPage(kind byte, pgno uint32, ps int) []byte {
	b := bytes.Repeat([]byte{byte(pgno*7 + uint32(kind))}, ps)
	b[0], b[1], b[2], b[3], b[4] = byte(pgno>>24), byte(pgno>>16), byte(pgno>>8), byte(pgno), kind
	return b
}

// c17FillCases enumerates (prevCommit, commit, pages present in the WAL) around the lock page.
func c17FillCases(ps, lock int) []c17Fill {
	var out []c17Fill
	for prev := lock - 3; prev <= lock+1; prev++ {
		if prev < 1 || prev == lock {
			continue
		}
		for commit := prev + 1; commit <= lock+3; commit++ {
			if commit == lock {
				continue
			}
			var g []uint32 // growth pages other than the lock page
			for p := prev + 1; p <= commit; p++ {
				if p != lock {
					g = append(g, uint32(p))
				}
			}
			pats := []struct {
				name string
				in   func(i int) bool
			}{
				{"no-growth-page-in-wal", func(i int) bool { return false }},
				{"all-growth-pages-in-wal", func(i int) bool { return true }},
				{"only-last-in-wal", func(i int) bool { return i == len(g)-1 }},
				{"all-but-last-in-wal", func(i int) bool { return i != len(g)-1 }},
				{"alternating", func(i int) bool { return i%2 == 1 }},
			}
			seen := map[string]bool{}
			for _, pt := range pats {
				wp := []uint32{1}
				for i, p := range g {
					if pt.in(i) {
						wp = append(wp, p)
					}
				}
				k := fmt.Sprint(wp)
				if seen[k] {
					continue
				}
				seen[k] = true
				out = append(out, c17Fill{PageSize: ps, Lock: lock, PrevCommit: uint32(prev), Commit: uint32(commit), WALPages: wp, Pattern: pt.name})
			}
		}
	}
	return out
}

// c17FillRun builds the files (sparse: only the pages the loop may read are written; the file still has its
// full size, which is what makes real 1 GiB offsets affordable), calls the function and checks the output.
func c17FillRun(dir string, fc c17Fill, sparse bool) (*c17Viol, error) {
	ps := fc.PageSize
	if err := os.MkdirAll(dir, 0o755); err != nil {
		return nil, err
	}
	dbf, err := os.CreateTemp(dir, "filldb-")
	if err != nil {
		return nil, err
	}
	defer func() { dbf.Close(); os.Remove(dbf.Name()) }()
	if err := dbf.Truncate(int64(fc.Commit) * int64(ps)); err != nil {
		return nil, err
	}
	first := uint32(1)
	if sparse {
		first = fc.PrevCommit
	}
	for p := first; p <= fc.Commit; p++ {
		if int(p) == fc.Lock {
			continue // SQLite never writes it
		}
		if _, err := dbf.WriteAt(c17FillPage('D', p, ps), int64(p-1)*int64(ps)); err != nil {
			return nil, err
		}
	}
	wf, err := os.CreateTemp(dir, "fillwal-")
	if err != nil {
		return nil, err
	}
	defer func() { wf.Close(); os.Remove(wf.Name()) }()
	frame := int64(litestream.WALFrameHeaderSize + ps)
	pageMap := map[uint32]int64{}
	for i, p := range fc.WALPages {
		off := int64(litestream.WALHeaderSize) + int64(i)*frame
		pageMap[p] = off
		if _, err := wf.WriteAt(c17FillPage('W', p, ps), off+litestream.WALFrameHeaderSize); err != nil {
			return nil, err
		}
	}
	var buf bytes.Buffer
	if err := litestream.VerifC17WriteLTXFromWAL(context.Background(), dbf, wf, ps, fc.PrevCommit, fc.Commit, pageMap, &buf); err != nil {
		return &c17Viol{"sync-failed", fmt.Sprintf("writeLTXFromWAL(prevCommit=%d, commit=%d, wal pages %v): %v", fc.PrevCommit, fc.Commit, fc.WALPages, err)}, nil
	}
	d, err := decodeLTX(buf.Bytes())
	if err != nil {
		return &c17Viol{"restore-differs", "output does not decode: " + err.Error()}, nil
	}
	if _, ok := d.Pages[uint32(fc.Lock)]; ok {
		return &c17Viol{"lock-page-replicated", fmt.Sprintf("output contains page %d, the lock page for page size %d", fc.Lock, ps)}, nil
	}
	want := map[uint32][]byte{}
	for p := fc.PrevCommit + 1; p <= fc.Commit; p++ {
		if int(p) != fc.Lock {
			want[p] = c17FillPage('D', p, ps)
		}
	}
	for _, p := range fc.WALPages {
		want[p] = c17FillPage('W', p, ps)
	}
	if diff := pagesEqual(want, d.Pages, 0); diff != "" {
		return &c17Viol{"restore-differs", fmt.Sprintf("writeLTXFromWAL(prevCommit=%d, commit=%d, lock page %d, wal pages %v): %s (a page absent from the file is absent from every restore through it)", fc.PrevCommit, fc.Commit, fc.Lock, fc.WALPages, diff)}, nil
	}
	return nil, nil
}

func c17FillSignature(v *c17Viol, fc c17Fill) string {
	return fmt.Sprintf("%s|ps%d|%s|j:growth-fill-direct|av=-", v.Kind, fc.PageSize, c17Class(int(fc.Commit), fc.Lock))
}

// ---------------------------------------------------------------------------------------------------------
// The real run.

func c17SpawnReal() (map[string]any, int) {
	bin := os.Getenv("C17_REAL_BIN")
	if bin == "" {
		self, err := os.Executable()
		if err != nil {
			return map[string]any{"error": err.Error()}, 2
		}
		bin = self + "-real"
	}
	if _, err := os.Stat(bin); err != nil {
		return map[string]any{"error": "unscaled binary not found (tools/build_c17.sh builds <out>-real): " + err.Error()}, 2
	}
	cmd := exec.Command(bin, "c17real")
	var stdout bytes.Buffer
	cmd.Stdout = &stdout
	cmd.Stderr = os.Stderr
	err := cmd.Run()
	rc := 0
	if err != nil {
		var ee *exec.ExitError
		if errors.As(err, &ee) {
			rc = ee.ExitCode()
		} else {
			return map[string]any{"error": err.Error()}, 2
		}
	}
	out := map[string]any{}
	sc := bufio.NewScanner(&stdout)
	sc.Buffer(make([]byte, 1<<20), 1<<20)
	for sc.Scan() {
		if strings.HasPrefix(sc.Text(), "C17REAL ") {
			_ = json.Unmarshal([]byte(strings.TrimPrefix(sc.Text(), "C17REAL ")), &out)
		}
	}
	if len(out) == 0 {
		return map[string]any{"error": fmt.Sprintf("no result line from %s c17real (exit %d)", bin, rc)}, 2
	}
	return out, rc
}

// c17real: page size 65536 (lock page 16385), unmodified constants everywhere.
func c17real(args []string) int {
	t := ev.Start()
	defer os.RemoveAll(filepath.Join(scn.ScratchRoot, fmt.Sprintf("lsmc-%d", os.Getpid())))
	out := map[string]any{"page_size": 65536}
	emit := func(code int) int {
		out["wall_s"] = t.S()
		b, _ := json.Marshal(out)
		fmt.Println("C17REAL " + string(b))
		return code
	}
	harness := func(msg string) int {
		out["error"] = msg
		fmt.Fprintln(os.Stderr, "c17real: harness error:", msg)
		return emit(2)
	}
	viol := func(kind, msg string) int {
		out["kind"], out["message"] = kind, msg
		fmt.Printf("c17real: VIOLATION %s: %s\n", kind, msg)
		return emit(1)
	}
	if ltx.PENDING_BYTE != c17RealPending {
		return harness(fmt.Sprintf("this binary was built with ltx.PENDING_BYTE = 0x%x; c17real needs the unscaled build (tools/build_c17.sh --real)", int64(ltx.PENDING_BYTE)))
	}
	if cur := c17PendingByte(0); cur != c17RealPending {
		return harness(fmt.Sprintf("SQLite's pending byte is 0x%x", cur))
	}
	const ps = 65536
	lock := int(ltx.LockPgno(ps))
	if lock != 16385 {
		return harness(fmt.Sprintf("ltx.LockPgno(65536) = %d", lock))
	}
	out["lock_pgno"] = lock
	// layer 2 at the real offsets, all page sizes (sparse database files of 1 GiB + a few pages)
	fillDir := filepath.Join(scn.ScratchRoot, fmt.Sprintf("lsmc-%d", os.Getpid()), "c17fill")
	nFill := 0
	for _, p := range c17PageSizes {
		lk := int(ltx.LockPgno(uint32(p)))
		if lk != c17RealPending/p+1 {
			return harness(fmt.Sprintf("ltx.LockPgno(%d) = %d", p, lk))
		}
		for _, fc := range c17FillCases(p, lk) {
			v, err := c17FillRun(fillDir, fc, true)
			if err != nil {
				return harness("growth-fill case: " + err.Error())
			}
			nFill++
			if v != nil {
				out["fill"] = fc
				os.RemoveAll(fillDir)
				return viol(v.Kind, v.Msg)
			}
		}
	}
	os.RemoveAll(fillDir)
	out["growth_fill_direct_calls_real_offsets"] = nFill
	cfg := cfgWith(func(c *scn.Config) {
		c.PageSize = ps
		c.MinCheckpointPageN = 1 << 30 // no litestream-initiated checkpoints: the operations below are the only ones
	})
	s, err := scn.NewOpt(cfg, func(s *scn.Scn) { s.NoLedger = true })
	if err != nil {
		return harness("new scenario: " + err.Error())
	}
	defer s.Destroy()
	// Second application connection: grows the database with zero blobs. It checkpoints on its own
	// (default wal_autocheckpoint) while litestream is not yet attached, which keeps the WAL small.
	app, err := sql.Open("sqlite", "file:"+s.DBPath+"?_pragma=busy_timeout(10000)")
	if err != nil {
		return harness(err.Error())
	}
	defer app.Close()
	app.SetMaxOpenConns(1)
	exec1 := func(q string) error {
		_, err := app.Exec(q)
		return err
	}
	pageCount := func() (int, error) {
		var n int
		err := app.QueryRow("PRAGMA page_count").Scan(&n)
		return n, err
	}
	if err := exec1("CREATE TABLE big (id INTEGER PRIMARY KEY, b BLOB)"); err != nil {
		return harness("create table: " + err.Error())
	}
	growTo := func(pages int) error {
		for {
			n, err := pageCount()
			if err != nil {
				return err
			}
			if n >= pages {
				return nil
			}
			rem := pages - n
			chunk := 64 // pages per transaction: 4 MiB
			if rem < chunk+2 {
				chunk = rem - 1
			}
			if chunk < 1 {
				chunk = 1
			}
			if err := exec1(fmt.Sprintf("INSERT INTO big (b) VALUES (zeroblob(%d))", chunk*ps-ps/2)); err != nil {
				return err
			}
		}
	}
	do := func(op string) (string, string) {
		o := s.Do(op)
		if o.Illegal {
			return "harness", op + " refused"
		}
		if o.Err != nil {
			switch c17OpName(op) {
			case "SW", "S", "LC":
				return "sync-failed", fmt.Sprintf("%s: %v", op, o.Err)
			case "SNAP":
				return "snapshot-failed", fmt.Sprintf("%s: %v", op, o.Err)
			case "CMP":
				return "compaction-failed", fmt.Sprintf("%s: %v", op, o.Err)
			}
			return "harness", fmt.Sprintf("%s: %v", op, o.Err)
		}
		return "", ""
	}
	// phase 1: below the boundary, first snapshot
	if err := growTo(lock - 40); err != nil {
		return harness("grow: " + err.Error())
	}
	history := []string{fmt.Sprintf("grow to %d pages (zeroblob rows, 4 MiB per transaction)", lock-40)}
	step := func(op string) (int, bool) {
		k, m := do(op)
		history = append(history, op)
		if k == "harness" {
			return harness(m), true
		}
		if k != "" {
			out["ops"] = history
			return viol(k, m), true
		}
		return 0, false
	}
	if rc, stop := step("SW"); stop {
		return rc
	}
	if err := exec1("PRAGMA wal_autocheckpoint = 0"); err != nil {
		return harness(err.Error())
	}
	// phase 2: one transaction crosses the 1 GiB offset, seen by one incremental sync
	if err := exec1(fmt.Sprintf("INSERT INTO big (b) VALUES (zeroblob(%d))", 80*ps)); err != nil {
		return harness("grow across: " + err.Error())
	}
	history = append(history, "one transaction: zeroblob(80 pages) crossing page 16385")
	n, err := pageCount()
	if err != nil {
		return harness(err.Error())
	}
	if n <= lock {
		return harness(fmt.Sprintf("database has %d pages after crossing insert", n))
	}
	for _, op := range []string{"SW", "SNAP", "W1", "SW", "CMP:1", "LC:TRUNCATE", "W1", "SW"} {
		if rc, stop := step(op); stop {
			return rc
		}
	}
	out["ops"] = history
	n, _ = pageCount()
	out["pages"] = n
	out["bytes"] = int64(n) * ps

	// every LTX file, streamed
	files, spanning, pagesSeen := 0, 0, int64(0)
	for _, root := range []string{s.ReplicaDir, s.LocalLTXRoot()} {
		for l, fs := range scn.AllLevels(root) {
			for _, f := range fs {
				p := filepath.Join(litestream.LTXLevelDir(root, l), ltx.FormatFilename(f.Min, f.Max))
				fh, err := os.Open(p)
				if err != nil {
					continue
				}
				dec := ltx.NewDecoder(bufio.NewReaderSize(fh, 1<<20))
				if err := dec.DecodeHeader(); err != nil {
					fh.Close()
					return viol("restore-differs", fmt.Sprintf("%s does not decode: %v", p, err))
				}
				files++
				if int(dec.Header().Commit) > lock {
					spanning++
				}
				buf := make([]byte, ps)
				for {
					var ph ltx.PageHeader
					if err := dec.DecodePage(&ph, buf); err == io.EOF {
						break
					} else if err != nil {
						fh.Close()
						return viol("restore-differs", fmt.Sprintf("%s does not decode: %v", p, err))
					}
					pagesSeen++
					if int(ph.Pgno) == lock {
						fh.Close()
						return viol("lock-page-replicated", fmt.Sprintf("%s contains page %d", p, lock))
					}
				}
				fh.Close()
			}
		}
	}
	out["ltx_files"], out["ltx_files_spanning_lock_page"], out["ltx_pages_decoded"] = files, spanning, pagesSeen
	if spanning == 0 {
		return harness("no LTX file spans the lock page")
	}

	// source: checkpointed copy (db + wal copied aside, checkpointed by SQLite)
	side := filepath.Join(s.Dir, "side")
	if err := os.MkdirAll(side, 0o755); err != nil {
		return harness(err.Error())
	}
	s.RefreshSeqRoot()
	if err := c17CopyFile(s.DBPath, filepath.Join(side, "db")); err != nil {
		return harness(err.Error())
	}
	if err := c17CopyFile(s.DBPath+"-wal", filepath.Join(side, "db-wal")); err != nil && !os.IsNotExist(err) {
		return harness(err.Error())
	}
	sc, err := sql.Open("sqlite", "file:"+filepath.Join(side, "db")+"?_pragma=locking_mode(EXCLUSIVE)&_pragma=wal_autocheckpoint(0)")
	if err != nil {
		return harness(err.Error())
	}
	var a, b, c int
	if err := sc.QueryRow("PRAGMA wal_checkpoint(TRUNCATE)").Scan(&a, &b, &c); err != nil {
		sc.Close()
		return harness("checkpoint copy: " + err.Error())
	}
	sc.Close()

	// restore, streamed comparison
	rout := filepath.Join(s.Dir, "restored")
	rc := file.NewReplicaClient(s.ReplicaDir)
	rr := litestream.NewReplicaWithClient(nil, rc)
	opt := litestream.NewRestoreOptions()
	opt.OutputPath = rout
	if err := rr.Restore(context.Background(), opt); err != nil {
		return viol("restore-differs", "restore failed: "+err.Error())
	}
	diff, lockZero, srcLockZero, pages, digest, err := c17StreamCompare(filepath.Join(side, "db"), rout, ps, lock, int(s.SeqRoot))
	if err != nil {
		return harness("compare: " + err.Error())
	}
	out["pages_compared"], out["restored_sha256_16"] = pages, digest
	if !srcLockZero {
		return harness("source lock page is not empty")
	}
	if diff != "" {
		return viol("restore-differs", diff)
	}
	if !lockZero {
		return viol("lock-page-not-empty", fmt.Sprintf("restored page %d is not all zero", lock))
	}
	ic, err := sql.Open("sqlite", "file:"+rout+"?_pragma=locking_mode(EXCLUSIVE)")
	if err != nil {
		return harness(err.Error())
	}
	var msg string
	if err := ic.QueryRow("PRAGMA integrity_check").Scan(&msg); err != nil || msg != "ok" {
		ic.Close()
		return viol("integrity-failed", fmt.Sprintf("%v %s", err, msg))
	}
	ic.Close()
	out["result"] = "held"
	fmt.Printf("c17real: held: %d pages (%.2f GiB), lock page %d, %d LTX files (%d spanning), %.0fs\n", n, float64(n)*ps/(1<<30), lock, files, spanning, t.S())
	return emit(0)
}

func c17CopyFile(src, dst string) error {
	in, err := os.Open(src)
	if err != nil {
		return err
	}
	defer in.Close()
	o, err := os.Create(dst)
	if err != nil {
		return err
	}
	if _, err := io.Copy(o, in); err != nil {
		o.Close()
		return err
	}
	return o.Close()
}

// c17StreamCompare compares two database files page by page without loading them.
func c17StreamCompare(want, got string, ps, lock, skip int) (diff string, gotLockZero, wantLockZero bool, pages int, digest string, err error) {
	fw, err := os.Open(want)
	if err != nil {
		return
	}
	defer fw.Close()
	fg, err := os.Open(got)
	if err != nil {
		return
	}
	defer fg.Close()
	sw, _ := fw.Stat()
	sg, _ := fg.Stat()
	if sw.Size() != sg.Size() {
		diff = fmt.Sprintf("size: source %d bytes, restored %d bytes", sw.Size(), sg.Size())
		return
	}
	rw, rg := bufio.NewReaderSize(fw, 4<<20), bufio.NewReaderSize(fg, 4<<20)
	bw, bg := make([]byte, ps), make([]byte, ps)
	h := sha256.New()
	gotLockZero, wantLockZero = true, true
	nd, first := 0, 0
	for p := 1; int64(p-1)*int64(ps) < sw.Size(); p++ {
		if _, err = io.ReadFull(rw, bw); err != nil {
			return
		}
		if _, err = io.ReadFull(rg, bg); err != nil {
			return
		}
		pages++
		h.Write(bg)
		if p == lock {
			gotLockZero, wantLockZero = allZero(bg), allZero(bw)
			continue
		}
		if p == skip {
			continue
		}
		if !bytes.Equal(bw, bg) {
			if first == 0 {
				first = p
			}
			nd++
		}
	}
	if nd > 0 {
		diff = fmt.Sprintf("%d pages differ, first page %d (of %d)", nd, first, pages)
	}
	digest = hex.EncodeToString(h.Sum(nil))[:16]
	return
}
