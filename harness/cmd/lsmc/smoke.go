package main

import (
	"fmt"
	"strings"
	"time"

	"lsverif/scn"
)

func init() { register("smoke", smoke) }

// smoke runs one history given on the command line and prints the trace and oracle verdict.
func smoke(args []string) int {
	cfg := scn.DefaultConfig()
	ops := args
	if len(ops) == 0 {
		ops = strings.Fields("W1 SW W3 SW LC:PASSIVE W1 SW CK:TRUNCATE W1 SW CL")
	}
	t0 := time.Now()
	s, err := scn.New(cfg)
	if err != nil {
		fmt.Println("new:", err)
		return 2
	}
	defer s.Destroy()
	for _, op := range ops {
		o := s.Do(op)
		fmt.Printf("%-12s %-8s key=%s\n", op, o, s.Key())
		if o.Ack {
			p, err := s.AckOracle(true)
			fmt.Printf("   oracle: %v %v\n", p, err)
		}
	}
	fmt.Println("ledger:", len(s.Ledger), "elapsed:", time.Since(t0))
	return 0
}
