package main

import (
	"bytes"
	"fmt"
	"io"
	"os"
	"path/filepath"
	"sort"
	"strconv"

	"github.com/superfly/ltx"

	"lsverif/scn"
)

// ltxFile is a decoded LTX file.
type ltxFile struct {
	Hdr   ltx.Header
	Pages map[uint32][]byte
}

func decodeLTX(b []byte) (*ltxFile, error) {
	dec := ltx.NewDecoder(bytes.NewReader(b))
	if err := dec.DecodeHeader(); err != nil {
		return nil, err
	}
	f := &ltxFile{Hdr: dec.Header(), Pages: map[uint32][]byte{}}
	for {
		var ph ltx.PageHeader
		buf := make([]byte, f.Hdr.PageSize)
		if err := dec.DecodePage(&ph, buf); err == io.EOF {
			break
		} else if err != nil {
			return nil, err
		}
		f.Pages[ph.Pgno] = buf
	}
	if err := dec.Close(); err != nil {
		return nil, err
	}
	return f, nil
}

// archive keeps a copy of every level-0 file ever seen on the replica (retention may delete them later).
type archive struct {
	l0 map[ltx.TXID][]byte
}

func newArchive() *archive { return &archive{l0: map[ltx.TXID][]byte{}} }

func (a *archive) update(s *scn.Scn) {
	for _, f := range scn.ListLevel(s.ReplicaDir, 0) {
		if _, ok := a.l0[f.Max]; ok || f.Min != f.Max {
			continue
		}
		if b, err := os.ReadFile(s.ReplicaFilePath(f)); err == nil {
			a.l0[f.Max] = b
		}
	}
}

// fold is the reference re-composition of level-0 files a..b: apply page maps
// in order, drop pages above the last commit; timestamp is the last input's.
func (a *archive) fold(from, to ltx.TXID) (*ltxFile, error) {
	out := &ltxFile{Pages: map[uint32][]byte{}}
	for n := from; n <= to; n++ {
		b, ok := a.l0[n]
		if !ok {
			return nil, fmt.Errorf("level-0 file %d was never seen on the replica", n)
		}
		f, err := decodeLTX(b)
		if err != nil {
			return nil, fmt.Errorf("decode archived L0 %d: %w", n, err)
		}
		for p, d := range f.Pages {
			out.Pages[p] = d
		}
		out.Hdr = f.Hdr
	}
	for p := range out.Pages {
		if p > out.Hdr.Commit {
			delete(out.Pages, p)
		}
	}
	out.Hdr.MinTXID, out.Hdr.MaxTXID = from, to
	return out, nil
}

// image materialises the database image after folding 1..to (requires L0 #1 to be a full snapshot).
func (a *archive) image(to ltx.TXID, pageSize int) (*scn.Image, error) {
	f, err := a.fold(1, to)
	if err != nil {
		return nil, err
	}
	im := &scn.Image{PageSize: pageSize, Data: make([]byte, int(f.Hdr.Commit)*pageSize)}
	lock := ltx.LockPgno(uint32(pageSize))
	for p := uint32(1); p <= f.Hdr.Commit; p++ {
		d, ok := f.Pages[p]
		if !ok {
			if p == lock {
				continue
			}
			return nil, fmt.Errorf("fold 1..%d lacks page %d of %d", to, p, f.Hdr.Commit)
		}
		copy(im.Data[int(p-1)*pageSize:], d)
	}
	return im, nil
}

func pagesEqual(a, b map[uint32][]byte, skip uint32) string {
	var ks []uint32
	seen := map[uint32]bool{}
	for p := range a {
		ks = append(ks, p)
		seen[p] = true
	}
	for p := range b {
		if !seen[p] {
			ks = append(ks, p)
		}
	}
	sort.Slice(ks, func(i, j int) bool { return ks[i] < ks[j] })
	for _, p := range ks {
		if p == skip {
			continue
		}
		x, okx := a[p]
		y, oky := b[p]
		if okx != oky {
			return fmt.Sprintf("page %d present in one side only (want=%v got=%v)", p, okx, oky)
		}
		if !bytes.Equal(x, y) {
			return fmt.Sprintf("page %d differs", p)
		}
	}
	return ""
}

func readReplicaFile(s *scn.Scn, f scn.FileRef) ([]byte, error) {
	return os.ReadFile(filepath.Join(s.ReplicaDir, "ltx", strconv.Itoa(f.Level), ltx.FormatFilename(f.Min, f.Max)))
}

// copyTree copies a directory tree (regular files and directories), preserving mtimes.
func copyTree(src, dst string) error {
	return filepath.Walk(src, func(p string, fi os.FileInfo, err error) error {
		if err != nil {
			return err
		}
		rel, _ := filepath.Rel(src, p)
		out := filepath.Join(dst, rel)
		if fi.IsDir() {
			return os.MkdirAll(out, 0o755)
		}
		b, err := os.ReadFile(p)
		if err != nil {
			return err
		}
		if err := os.WriteFile(out, b, 0o644); err != nil {
			return err
		}
		return os.Chtimes(out, fi.ModTime(), fi.ModTime())
	})
}
