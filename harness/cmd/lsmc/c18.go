//go:build vfs

package main

// C18 — a VFS read replica serves the same pages as a full restore.
//
// The check has its own executor: a history is a list of primary operations
// (executed by the scenario driver on the real litestream objects) interleaved
// with VFS actions executed here on a real litestream.VFSFile opened through
// (*litestream.VFS).Open on the scenario's file replica:
//
//	VOPEN    open the VFS main-db file (restore plan -> page index)
//	VPOLL    one iteration of the replica poll (VerifPoll hook = pollReplicaClient)
//	VLOCK    take a SHARED lock (polls then go to the pending index)
//	VUNLOCK  release it (pending index applied)
//
// After VOPEN, every VPOLL and every VUNLOCK, and once more after a final
// VPOLL at the end of the history, every page of the restore at the TXID the
// view stands at is read through ReadAt and compared, and FileSize is compared.

import (
	"bytes"
	"context"
	"encoding/json"
	"errors"
	"fmt"
	"log/slog"
	"os"
	"path/filepath"
	"sort"
	"strings"
	"sync"
	"time"

	"github.com/benbjohnson/litestream"
	"github.com/benbjohnson/litestream/file"
	_ "github.com/mattn/go-sqlite3" // links the C sqlite3 symbols that sqlite3vfs references
	"github.com/psanford/sqlite3vfs"
	"github.com/superfly/ltx"

	"lsverif/ev"
	"lsverif/explore"
	"lsverif/scn"
)

func init() { register("c18", c18) }

// c18Layer is one exhaustive search of C18.
type c18Layer struct {
	Name     string
	Cfg      scn.Config
	Cache    int  // VFS.CacheSize in bytes; 0 = litestream's default (10 MB: every page read stays cached)
	TT       bool // time-travel oracle at the end of every history (driver keeps file times >= 3 ms apart)
	Hydrate  bool // VFS opened with background hydration into a persistent local file (reads served from it)
	Alphabet []string
	Depth    int
	Seeds    [][]string
	Merge    bool
	MaxRuns  int64
}

func (l c18Layer) class() string {
	c := "dflt"
	if l.Cache > 0 {
		c = fmt.Sprintf("%dB", l.Cache)
	}
	if l.Hydrate {
		c += "+hydrate"
	}
	return fmt.Sprintf("%s/l0ret%s/vfscache=%s", cfgClass(l.Cfg), map[bool]string{true: "1ns", false: "keep"}[l.Cfg.L0RetentionNS == 1], c)
}

// c18Detail is what a C18 replay file contains.
type c18Detail struct {
	Config  scn.Config `json:"config"`
	Cache   int        `json:"vfs_cache_bytes"`
	TT      bool       `json:"time_travel"`
	History []string   `json:"history"`
	Trace   []string   `json:"trace"`
	Problem string     `json:"problem"`
	Layer   string     `json:"layer"`
}

// c18State is the per-scenario state of the check.
type c18State struct {
	arch    *archive
	cache   int
	f       *litestream.VFSFile
	locked  bool
	view    ltx.TXID // TXID whose state the view must show
	lastPos ltx.TXID
	probs   []*scn.Problem
	seen    map[string]bool
	at      string            // history element being executed ("final-" prefix: end-of-history poll/unlock)
	ats     map[string]string // problem kind -> element at which it was first observed
	notes   map[string]bool
	checks  int
	polls   int
	adv     int  // polls that advanced the position
	pages   int  // pages compared
	goneObs bool // a read of a page whose file left the replica has been observed failing in this history
	gate    *c18Gate
	hydrate bool
	tt      bool     // a target time is set (VTTSET without VTTRESET yet)
	preTT   ltx.TXID // position before VTTSET
}

// c18Gate wraps the VFS's replica client: when armed, the next level-0 listing with a seek position (a poll's
// listing) parks until released (operation VPTT).
type c18Gate struct {
	litestream.ReplicaClient
	mu      sync.Mutex
	armed   bool
	reached chan struct{}
	release chan struct{}
}

func (g *c18Gate) arm() {
	g.mu.Lock()
	g.armed, g.reached, g.release = true, make(chan struct{}), make(chan struct{})
	g.mu.Unlock()
}

func (g *c18Gate) LTXFiles(ctx context.Context, level int, seek ltx.TXID, useMetadata bool) (ltx.FileIterator, error) {
	g.mu.Lock()
	park := g.armed && level == 0 && seek > 0
	var reached, release chan struct{}
	if park {
		g.armed = false
		reached, release = g.reached, g.release
	}
	g.mu.Unlock()
	if park {
		close(reached)
		<-release
	}
	return g.ReplicaClient.LTXFiles(ctx, level, seek, useMetadata)
}

func (st *c18State) add(kind, detail string) {
	if st.seen[kind] {
		return
	}
	st.seen[kind] = true
	st.ats[kind] = st.at
	st.probs = append(st.probs, &scn.Problem{Kind: kind, Detail: detail})
}

func (st *c18State) note(n string) { st.notes[n] = true }

func (st *c18State) close() {
	if st.f != nil {
		st.f.Close()
		st.f = nil
	}
}

// c18Filter is the static legality of VFS actions: VOPEN once, the others only
// after it, VLOCK/VUNLOCK alternating.
func c18Filter(hist []string) bool {
	opened, locked, tt := false, false, false
	for _, op := range hist {
		switch op {
		case "VTTSET":
			if !opened || tt {
				return false
			}
			tt = true
		case "VTTRESET":
			if !tt {
				return false
			}
			tt = false
		case "VOPEN":
			if opened {
				return false
			}
			opened = true
		case "VPOLL":
			if !opened {
				return false
			}
		case "VLOCK":
			if !opened || locked {
				return false
			}
			locked = true
		case "VUNLOCK":
			if !opened || !locked {
				return false
			}
			locked = false
		}
	}
	return true
}

func c18Record(s *scn.Scn, op, res string) {
	s.History = append(s.History, op)
	s.Trace = append(s.Trace, op+"="+res)
}

// do executes one history element; false = illegal here.
func (st *c18State) do(s *scn.Scn, op string) bool {
	ctx := context.Background()
	if !strings.HasPrefix(st.at, "final") {
		st.at = op
	}
	switch op {
	case "VOPEN":
		if st.f == nil && len(scn.AllLevels(s.ReplicaDir)) == 0 {
			return false
		}
		if st.f != nil {
			return false
		}
		client := &c18Gate{ReplicaClient: file.NewReplicaClient(s.ReplicaDir)}
		st.gate = client
		// A read-only VFSFile.Open waits (PollInterval) as long as no restore plan exists: not an open point.
		if _, err := litestream.CalcRestorePlan(ctx, client, 0, time.Time{}, slog.Default()); err != nil {
			if errors.Is(err, litestream.ErrTxNotAvailable) {
				return false
			}
		}
		v := litestream.NewVFS(client, slog.Default())
		v.PollInterval = 24 * time.Hour // the background monitor never ticks; polls are driven by VPOLL
		if st.cache > 0 {
			v.CacheSize = st.cache
		}
		if st.hydrate {
			v.HydrationEnabled = true
			v.HydrationPath = filepath.Join(s.Dir, "vfs-hydration.db") // persistent: a later VOPEN resumes from it
		}
		vf, _, err := v.Open("c18.db", sqlite3vfs.OpenMainDB|sqlite3vfs.OpenReadOnly)
		if err != nil {
			if _, rerr := s.Restore(scn.RestoreOpt{}); rerr == nil {
				st.add("vfs-open-failed", fmt.Sprintf("VFS open failed (%s) where a full restore succeeds [%s]", scn.ErrClass(err), scn.Shape(s.ReplicaDir)))
				c18Record(s, op, "err:"+scn.ErrClass(err))
				return true
			}
			return false
		}
		st.f = vf.(*litestream.VFSFile)
		if st.hydrate {
			// reads are served from the hydration file once it is complete: wait for it (bounded)
			for i := 0; i < 5000; i++ {
				en, done, herr := st.f.VerifHydration()
				if !en || done || herr != nil {
					if herr != nil {
						st.add("vfs-hydration-failed", scn.ErrClass(herr))
					}
					break
				}
				time.Sleep(time.Millisecond)
			}
		}
		st.view = st.f.Pos().TXID
		st.lastPos = st.view
		c18Record(s, op, fmt.Sprintf("ok pos=%d", st.view))
		st.check(s, "open")
		return true
	case "VPOLL":
		if st.f == nil {
			return false
		}
		st.poll(s, op)
		return true
	case "VTTSET":
		// time travel switched on (T = a candidate time in the middle of the replica's history) and left on: the
		// operations that follow happen while the target time is set
		// (also under a held SHARED lock: PRAGMA litestream_time inside an open read transaction)
		if st.f == nil || st.tt {
			return false
		}
		Ts, ts, terr := c18Times(s, st.arch)
		if terr != nil || len(Ts) == 0 {
			return false
		}
		T := Ts[len(Ts)/2]
		tt := time.UnixMilli(T).UTC()
		want, rerr := s.Restore(scn.RestoreOpt{Timestamp: tt})
		if rerr != nil {
			return false
		}
		if verr := st.f.SetTargetTime(ctx, tt); verr != nil {
			st.add("vfs-tt-availability-differs", fmt.Sprintf("T=%s: restore succeeds, SetTargetTime: %v", relT(T, ts), verr))
			c18Record(s, op, "err")
			return true
		}
		st.tt, st.preTT = true, st.lastPos
		// going back is what time travel is for: polls while the target time is set are judged from here
		st.lastPos, st.view = st.f.Pos().TXID, st.f.Pos().TXID
		st.compare(s, want, "tt-", fmt.Sprintf("time travel to T=%s (pos %d)", relT(T, ts), st.f.Pos().TXID))
		c18Record(s, op, "ok")
		return true
	case "VTTRESET":
		if st.f == nil || !st.tt {
			return false
		}
		if err := st.f.ResetTime(ctx); err != nil {
			st.add("vfs-tt-reset-failed", scn.ErrClass(err))
		}
		st.tt = false
		pos := st.f.Pos().TXID
		if pos < st.preTT {
			st.add("vfs-pos-regressed", fmt.Sprintf("ResetTime after time travel moved the position from %d (before SetTargetTime) back to %d", st.preTT, pos))
		}
		st.lastPos, st.view = pos, pos
		c18Record(s, op, fmt.Sprintf("ok pos=%d", pos))
		st.check(s, "after ResetTime")
		return true
	case "VCLOSE":
		if st.f == nil || st.locked {
			return false
		}
		if err := st.f.Close(); err != nil {
			st.add("vfs-close-failed", scn.ErrClass(err))
		}
		st.f, st.gate = nil, nil
		c18Record(s, op, "ok")
		return true
	case "VPTT":
		// A poll with time travel switched on in the middle of it: the poll is parked at its level-0 listing,
		// SetTargetTime(T) completes (T = a candidate time in the middle of the replica's history), the poll is
		// released and finishes. The view must then be the timestamp restore for T, whatever the poll found.
		// One fixed interleaving, joined before the operation returns.
		if st.f == nil || st.locked || st.gate == nil {
			return false
		}
		Ts, ts, terr := c18Times(s, st.arch)
		if terr != nil || len(Ts) == 0 {
			return false
		}
		T := Ts[len(Ts)/2]
		tt := time.UnixMilli(T).UTC()
		want, rerr := s.Restore(scn.RestoreOpt{Timestamp: tt})
		if rerr != nil {
			return false
		}
		st.gate.arm()
		pollDone := make(chan error, 1)
		go func() { pollDone <- st.f.VerifPoll(ctx) }()
		select {
		case <-st.gate.reached:
		case perr := <-pollDone:
			// the poll did not list level 0 (nothing to park on): plain poll
			st.gate.mu.Lock()
			st.gate.armed = false
			st.gate.mu.Unlock()
			_ = perr
			c18Record(s, op, "ok noqueue")
			st.view = st.f.Pos().TXID
			st.lastPos = st.view
			st.check(s, "poll")
			return true
		}
		verr := st.f.SetTargetTime(ctx, tt)
		close(st.gate.release)
		<-pollDone
		if verr != nil {
			st.add("vfs-tt-availability-differs", fmt.Sprintf("T=%s: restore succeeds, SetTargetTime during a poll: %v", relT(T, ts), verr))
		} else {
			st.compare(s, want, "tt-", fmt.Sprintf("time travel to T=%s set while a poll was in flight (pos %d)", relT(T, ts), st.f.Pos().TXID))
		}
		if err := st.f.ResetTime(ctx); err != nil {
			st.add("vfs-tt-reset-failed", scn.ErrClass(err))
		}
		pos := st.f.Pos().TXID
		st.lastPos, st.view = pos, pos
		c18Record(s, op, fmt.Sprintf("ok pos=%d", pos))
		st.check(s, "after ResetTime")
		return true
	case "VLOCK":
		if st.f == nil || st.locked {
			return false
		}
		if err := st.f.Lock(sqlite3vfs.LockShared); err != nil {
			st.add("vfs-lock-failed", scn.ErrClass(err))
		}
		st.locked = true
		c18Record(s, op, "ok")
		return true
	case "VUNLOCK":
		if st.f == nil || !st.locked {
			return false
		}
		if err := st.f.Unlock(sqlite3vfs.LockNone); err != nil {
			st.add("vfs-unlock-failed", scn.ErrClass(err))
		}
		st.locked = false
		st.view = st.f.Pos().TXID
		c18Record(s, op, fmt.Sprintf("ok pos=%d", st.view))
		st.check(s, "unlock")
		return true
	}
	o := s.Do(op)
	if o.Illegal {
		return false
	}
	st.arch.update(s)
	return true
}

func (st *c18State) poll(s *scn.Scn, op string) {
	st.polls++
	err := st.f.VerifPoll(context.Background())
	pos := st.f.Pos().TXID
	if pos < st.lastPos {
		st.add("vfs-pos-regressed", fmt.Sprintf("poll moved the position from %d back to %d [%s]", st.lastPos, pos, scn.Shape(s.ReplicaDir)))
	}
	if pos > st.lastPos {
		st.adv++
	}
	res := fmt.Sprintf("ok pos=%d", pos)
	if err != nil {
		res = fmt.Sprintf("err:%s pos=%d", scn.ErrClass(err), pos)
		st.note("pollerr")
		if pos != st.lastPos {
			st.add("vfs-poll-error-moved-position", fmt.Sprintf("poll failed (%s) but the position moved %d -> %d", scn.ErrClass(err), st.lastPos, pos))
		}
	}
	st.lastPos = pos
	if !st.locked {
		st.view = pos
	}
	c18Record(s, op, res)
	st.check(s, strings.ToLower(op))
}

// reference returns the database image of TXID n: a full restore from the
// replica, else the fold of the archived level-0 files.
func (st *c18State) reference(s *scn.Scn, n ltx.TXID) (*scn.Image, string) {
	if im, err := s.Restore(scn.RestoreOpt{TXID: n}); err == nil {
		return im, "restore"
	}
	if im, err := st.arch.image(n, s.Cfg.PageSize); err == nil {
		return im, "fold"
	}
	return nil, ""
}

// c18Mask blanks the header bytes VFSFile.ReadAt rewrites on page 1: the
// journal-mode bytes 18,19 (set to 1,1) and the file change counter 24..27 (random).
func c18Mask(p []byte) []byte {
	q := append([]byte{}, p...)
	if len(q) >= 28 {
		q[18], q[19] = 0, 0
		q[24], q[25], q[26], q[27] = 0, 0, 0, 0
	}
	return q
}

func c18ElemString(e ltx.PageIndexElem) string {
	return fmt.Sprintf("L%d[%d,%d]", e.Level, e.MinTXID, e.MaxTXID)
}

func c18ElemExists(s *scn.Scn, e ltx.PageIndexElem) bool {
	_, err := os.Stat(s.ReplicaFilePath(scn.FileRef{Level: e.Level, Min: e.MinTXID, Max: e.MaxTXID}))
	return err == nil
}

// check compares the whole view with the reference image of st.view.
func (st *c18State) check(s *scn.Scn, where string) {
	want, src := st.reference(s, st.view)
	if want == nil {
		st.note("noref")
		return
	}
	st.checks++
	st.compare(s, want, "", fmt.Sprintf("%s at TXID %d (%s)", where, st.view, src))
}

// compare reads every page of want through the VFS file. pre is the kind prefix ("" or "tt-").
func (st *c18State) compare(s *scn.Scn, want *scn.Image, pre, where string) {
	f := st.f
	ps := s.Cfg.PageSize
	vs := f.VerifState()
	shape := scn.Shape(s.ReplicaDir)
	heldBack := st.locked && pre == "" && (len(vs.Pending) > 0 || vs.PendingReplace)
	size, err := f.FileSize()
	switch {
	case err != nil:
		st.add("vfs-"+pre+"size-failed", fmt.Sprintf("%s: FileSize: %s", where, scn.ErrClass(err)))
	case size != int64(len(want.Data)):
		if heldBack {
			// FileSize also counts the pending index; SQLite asks for the size when it takes the lock, not later.
			st.note("locked-size-counts-pending")
		} else {
			extra := ""
			if size > int64(len(want.Data)) {
				buf := make([]byte, ps)
				_, rerr := f.ReadAt(buf, int64(len(want.Data)))
				extra = fmt.Sprintf("; ReadAt(page %d) err=%v", want.Pages()+1, rerr)
			}
			st.add("vfs-"+pre+"size-differs", fmt.Sprintf("%s: FileSize=%d pages, restore has %d pages (index %d entries, commit %d)%s [%s]", where, size/int64(ps), want.Pages(), len(vs.Index), vs.Commit, extra, shape))
		}
	}
	lock := int(ltx.LockPgno(uint32(ps)))
	buf := make([]byte, ps)
	var nDiff, nMissing, nGone, nErr int
	var firstDiff, firstMissing, firstGone, firstErr string
	goneFailed := st.goneObs
	for p := 1; p <= want.Pages(); p++ {
		if p == lock {
			continue
		}
		e, inIdx := vs.Index[uint32(p)]
		gone := inIdx && !c18ElemExists(s, e)
		if gone && goneFailed {
			// Every read of a page whose file left the replica costs 225 ms of retries (6 attempts): one real
			// observation per history, the further ones are predicted from the index entry and counted.
			nGone++
			if firstGone == "" {
				firstGone = fmt.Sprintf("page %d -> %s (file absent; failing read observed earlier in this history)", p, c18ElemString(e))
			}
			continue
		}
		st.pages++
		n, err := f.ReadAt(buf, int64(p-1)*int64(ps))
		if err != nil {
			switch {
			case !inIdx:
				nMissing++
				if firstMissing == "" {
					firstMissing = fmt.Sprintf("page %d: %s", p, scn.ErrClass(err))
				}
			case gone:
				goneFailed, st.goneObs = true, true
				nGone++
				if firstGone == "" {
					firstGone = fmt.Sprintf("page %d -> %s: %s", p, c18ElemString(e), scn.ErrClass(err))
				}
			default:
				nErr++
				if firstErr == "" {
					firstErr = fmt.Sprintf("page %d -> %s: %s", p, c18ElemString(e), scn.ErrClass(err))
				}
			}
			continue
		}
		if n != ps {
			nErr++
			if firstErr == "" {
				firstErr = fmt.Sprintf("page %d: short read %d", p, n)
			}
			continue
		}
		got, exp := buf, want.Page(p)
		if p == 1 {
			got, exp = c18Mask(buf), c18Mask(exp)
		}
		if !bytes.Equal(got, exp) {
			nDiff++
			if firstDiff == "" {
				firstDiff = fmt.Sprintf("page %d served from %s", p, c18ElemString(e))
			}
		}
	}
	if nDiff > 0 {
		st.add("vfs-"+pre+"page-differs", fmt.Sprintf("%s: %d of %d pages differ from the restore, first: %s [%s]", where, nDiff, want.Pages(), firstDiff, shape))
	}
	if nMissing > 0 {
		st.add("vfs-"+pre+"read-failed", fmt.Sprintf("%s: %d of %d pages are not in the page index, first: %s (index %d entries, commit %d) [%s]", where, nMissing, want.Pages(), firstMissing, len(vs.Index), vs.Commit, shape))
	}
	if nGone > 0 {
		if st.locked && pre == "" {
			// A reader that keeps its SHARED lock across a retention pass loses pages (error, never other bytes).
			st.note("locked-read-file-gone")
		} else {
			st.add("vfs-"+pre+"read-failed-file-gone", fmt.Sprintf("%s: %d of %d pages point to files no longer on the replica, first: %s [%s]", where, nGone, want.Pages(), firstGone, shape))
		}
	}
	if nErr > 0 {
		st.add("vfs-"+pre+"read-error", fmt.Sprintf("%s: %d of %d pages unreadable, first: %s [%s]", where, nErr, want.Pages(), firstErr, shape))
	}
}

// key is the VFS part of the canonical state key (merged layers).
func (st *c18State) key() string {
	if st.f == nil {
		return " vfs=none"
	}
	vs := st.f.VerifState()
	enc := func(m map[uint32]ltx.PageIndexElem) string {
		ks := make([]int, 0, len(m))
		for k := range m {
			ks = append(ks, int(k))
		}
		sort.Ints(ks)
		var sb strings.Builder
		for _, k := range ks {
			e := m[uint32(k)]
			fmt.Fprintf(&sb, "%d:%d.%d.%d,", k, e.Level, e.MinTXID, e.MaxTXID)
		}
		return sb.String()
	}
	return fmt.Sprintf(" vfs=%v/%d/%d/c%d/%v idx=%s pend=%s", st.locked, vs.Pos.TXID, vs.MaxTXID1, vs.Commit, vs.PendingReplace, enc(vs.Index), enc(vs.Pending))
}

// c18Times is the candidate set of C15: at / 1 ms before / 1 ms after / between
// the replication times of every TXID and around every higher-level file time.
func c18Times(s *scn.Scn, a *archive) ([]int64, []int64, error) {
	var maxT ltx.TXID
	for n := range a.l0 {
		if n > maxT {
			maxT = n
		}
	}
	if maxT == 0 {
		return nil, nil, nil
	}
	ts := make([]int64, maxT+1)
	for j := ltx.TXID(1); j <= maxT; j++ {
		b, ok := a.l0[j]
		if !ok {
			return nil, nil, fmt.Errorf("level-0 file %d was never seen on the replica", j)
		}
		f, err := decodeLTX(b)
		if err != nil {
			return nil, nil, fmt.Errorf("archived L0 %d: %w", j, err)
		}
		ts[j] = f.Hdr.Timestamp
	}
	cand := map[int64]bool{ts[1] - 1: true, ts[maxT] + 1: true}
	for j := ltx.TXID(1); j <= maxT; j++ {
		cand[ts[j]], cand[ts[j]+1], cand[ts[j]-1] = true, true, true
		if j < maxT && ts[j+1]-ts[j] >= 2 {
			cand[(ts[j]+ts[j+1])/2] = true
		}
	}
	for lvl, fs := range scn.AllLevels(s.ReplicaDir) {
		if lvl == 0 {
			continue
		}
		for _, f := range fs {
			m := f.MTime.UnixMilli()
			cand[m-1], cand[m], cand[m+1] = true, true, true
		}
	}
	var Ts []int64
	for t := range cand {
		Ts = append(Ts, t)
	}
	sort.Slice(Ts, func(i, j int) bool { return Ts[i] < Ts[j] })
	return Ts, ts, nil
}

// timeTravel checks SetTargetTime(T) against the timestamp restore for every candidate T, then ResetTime.
func (st *c18State) timeTravel(s *scn.Scn) (int, error) {
	Ts, ts, err := c18Times(s, st.arch)
	if err != nil {
		return 0, err
	}
	ctx := context.Background()
	n := 0
	for _, T := range Ts {
		tt := time.UnixMilli(T).UTC()
		want, rerr := s.Restore(scn.RestoreOpt{Timestamp: tt})
		verr := st.f.SetTargetTime(ctx, tt)
		n++
		if (rerr != nil) != (verr != nil) {
			st.add("vfs-tt-availability-differs", fmt.Sprintf("T=%s: restore err=%v, SetTargetTime err=%v [%s]", relT(T, ts), rerr, verr, scn.Shape(s.ReplicaDir)))
			continue
		}
		if rerr != nil {
			continue
		}
		if tgt := st.f.TargetTime(); tgt == nil || !tgt.Equal(tt) {
			st.add("vfs-tt-target-not-set", fmt.Sprintf("T=%s: TargetTime()=%v", relT(T, ts), tgt))
		}
		st.compare(s, want, "tt-", fmt.Sprintf("time travel to T=%s (pos %d)", relT(T, ts), st.f.Pos().TXID))
	}
	if n > 0 {
		if err := st.f.ResetTime(ctx); err != nil {
			st.add("vfs-tt-reset-failed", scn.ErrClass(err))
			return n, nil
		}
		if st.f.TargetTime() != nil {
			st.add("vfs-tt-reset-failed", "TargetTime() still set after ResetTime")
		}
		pos := st.f.Pos().TXID
		if pos < st.lastPos {
			st.add("vfs-pos-regressed", fmt.Sprintf("ResetTime moved the position from %d back to %d", st.lastPos, pos))
		}
		st.lastPos, st.view = pos, pos
		st.check(s, "after ResetTime")
	}
	return n, nil
}

// final is the end-of-history oracle; returns the outcome class.
func (st *c18State) final(s *scn.Scn, tt bool) (string, error) {
	if st.f == nil {
		// A history without VOPEN ends with an open: every reachable replica state is an open point.
		st.at = "final-VOPEN"
		if !st.do(s, "VOPEN") || st.f == nil {
			return "no-vfs/" + shapeClass(s), nil
		}
	}
	if st.tt {
		st.at = "final-VTTRESET"
		st.do(s, "VTTRESET")
	}
	st.at = "final-VPOLL"
	st.poll(s, "VPOLL")
	if st.locked {
		st.at = "final-VUNLOCK"
		st.do(s, "VUNLOCK")
	}
	st.at = "final"
	// Does the view keep up with what a fresh restore would yield? (liveness, recorded only)
	if infos, err := litestream.CalcRestorePlan(context.Background(), file.NewReplicaClient(s.ReplicaDir), 0, time.Time{}, slog.Default()); err == nil && len(infos) > 0 {
		if latest := infos[len(infos)-1].MaxTXID; latest > st.lastPos {
			st.note("behind-latest")
		}
	}
	nT := 0
	if tt {
		n, err := st.timeTravel(s)
		if err != nil {
			return "", &scn.HarnessError{Msg: err.Error()}
		}
		nT = n
	}
	vs := st.f.VerifState()
	lv := map[int]bool{}
	for _, e := range vs.Index {
		lv[e.Level] = true
	}
	var ls []int
	for l := range lv {
		ls = append(ls, l)
	}
	sort.Ints(ls)
	var ns []string
	for n := range st.notes {
		ns = append(ns, n)
	}
	sort.Strings(ns)
	return fmt.Sprintf("ok/%s/idx-levels=%v/pages=%d/adv=%d/checks=%d/T=%d/%s", shapeClass(s), ls, bucket(len(vs.Index)), st.adv, bucket(st.checks), bucket(nT), strings.Join(ns, ",")), nil
}

// c18Check is the explorer glue (the part of HistCheck this check needs).
type c18Check struct {
	rep            *ev.Reporter
	harnessErr     error
	hmu            sync.Mutex
	unconfirmed    int
	unconfirmedMsg string
	notes          map[string]int // outcome notes -> number of executions showing them
	pagesCompared  int64
	comparisons    int64
}

func (hc *c18Check) exec(l c18Layer, hist []string) (legal bool, probs []*scn.Problem, outcome, key string, trace []string, err error) {
	legal, probs, _, outcome, key, trace, err = hc.exec2(l, hist)
	return
}

func (hc *c18Check) exec2(l c18Layer, hist []string) (legal bool, probs []*scn.Problem, ats map[string]string, outcome, key string, trace []string, err error) {
	s, err := scn.New(l.Cfg)
	if err != nil {
		return false, nil, nil, "", "", nil, err
	}
	defer s.Destroy()
	st := &c18State{arch: newArchive(), cache: l.Cache, hydrate: l.Hydrate, seen: map[string]bool{}, notes: map[string]bool{}, ats: map[string]string{}}
	s.User = st
	defer st.close()
	if l.TT {
		s.DistinctMS, s.TickGapMS = true, 3
	}
	for _, op := range hist {
		if !st.do(s, op) {
			return false, nil, nil, "", "", nil, nil
		}
	}
	key = s.Key() + st.key()
	outcome, err = st.final(s, l.TT)
	hc.hmu.Lock()
	if hc.notes == nil {
		hc.notes = map[string]int{}
	}
	for n := range st.notes {
		hc.notes[n]++
	}
	hc.pagesCompared += int64(st.pages)
	hc.comparisons += int64(st.checks)
	hc.hmu.Unlock()
	return true, st.probs, st.ats, outcome, key, s.Trace, err
}

func (hc *c18Check) setHarnessErr(err error) {
	hc.hmu.Lock()
	if hc.harnessErr == nil {
		hc.harnessErr = err
	}
	hc.hmu.Unlock()
}

func (hc *c18Check) runFunc(l c18Layer) explore.RunFunc {
	return func(hist []string) explore.Result {
		legal, probs, ats, outcome, key, trace, err := hc.exec2(l, hist)
		if err != nil {
			hc.setHarnessErr(fmt.Errorf("%s: %v: %w", l.Name, hist, err))
			return explore.Result{Legal: false}
		}
		if !legal {
			return explore.Result{Legal: false}
		}
		if len(probs) > 0 {
			// Replay-twice rule: identical observations required before reporting.
			for i := 0; i < 2; i++ {
				_, p2, _, _, t2, err2 := hc.exec(l, hist)
				if err2 != nil || !sameProblems(probs, p2) || strings.Join(t2, ";") != strings.Join(trace, ";") {
					hc.hmu.Lock()
					hc.unconfirmed++
					if hc.unconfirmedMsg == "" {
						hc.unconfirmedMsg = fmt.Sprintf("%s: nondeterministic replay of %v: first=%v again=%v err=%v", l.Name, hist, probs, p2, err2)
					}
					hc.hmu.Unlock()
					return explore.Result{Legal: true, Key: key, Outcome: "nondeterministic"}
				}
			}
			for _, p := range probs {
				hc.rep.Report(&ev.Violation{
					Kind:      p.Kind,
					Signature: p.Kind + "|" + l.class() + "|" + strings.Join(hist, " ") + "|at=" + ats[p.Kind],
					Detail:    c18Detail{Config: l.Cfg, Cache: l.Cache, TT: l.TT, History: hist, Trace: trace, Problem: p.String(), Layer: l.Name},
				})
			}
			outcome = "VIOLATION:" + probs[0].Kind
		}
		return explore.Result{Legal: true, Key: key, Outcome: outcome}
	}
}

type c18LayerReport struct {
	Name     string   `json:"name"`
	Config   string   `json:"config"`
	Alphabet []string `json:"alphabet"`
	Depth    int      `json:"depth"`
	Seeds    int      `json:"seeds"`
	Merge    bool     `json:"merged"`
	TT       bool     `json:"time_travel"`
	*explore.Stats
	Outcomes []string `json:"top_outcomes"`
}

func (hc *c18Check) runLayers(layers []c18Layer, budget time.Duration, assumptions []string, rule string) int {
	t := ev.Start()
	hc.rep = ev.NewReporter("C18")
	deadline := time.Now().Add(budget)
	total := &explore.Stats{Exhaustive: true, Outcomes: map[string]int{}}
	var reports []c18LayerReport
	for li, l := range layers {
		ld := deadline
		if left := time.Until(deadline); left > 0 {
			if share := time.Now().Add(left / time.Duration(len(layers)-li)); share.Before(ld) {
				ld = share
			}
		}
		o := explore.Options{
			Alphabet: l.Alphabet, Depth: l.Depth, Seed: l.Seeds, Merge: l.Merge,
			Deadline: ld, MaxRuns: l.MaxRuns, Shuffle: ev.Seed(), Filter: c18Filter,
		}
		// The seeds themselves are histories too (depth 0).
		st := explore.BFS(o, hc.runFunc(l))
		total.Add(st)
		reports = append(reports, c18LayerReport{Name: l.Name, Config: l.class(), Alphabet: l.Alphabet, Depth: l.Depth,
			Seeds: len(l.Seeds), Merge: l.Merge, TT: l.TT, Stats: st, Outcomes: st.OutcomeList(8)})
		fmt.Printf("[C18] %5.1fs layer %-34s runs=%d legal=%d states=%d depth=%d/%d outcomes=%d exhaustive=%v %s\n", t.S(), l.Name, st.Runs, st.LegalRuns, st.States, st.CompletedDepth, l.Depth, st.DistinctOutcome, st.Exhaustive, st.CapHit)
		if hc.harnessErr != nil {
			break
		}
	}
	if hc.harnessErr != nil {
		fmt.Fprintf(os.Stderr, "HARNESS ERROR (no verdict): %v\n", hc.harnessErr)
		return 2
	}
	samples := []any{}
	for _, s := range total.Samples {
		samples = append(samples, s)
	}
	if len(samples) == 0 {
		samples = append(samples, "(no legal history executed)")
	}
	e := &ev.Evidence{
		PropertyID: "C18", Tier: ev.Tier(), Seed: ev.Seed(), Level: "model_checking", WallS: t.S(),
		Violations:  hc.rep.Unknown(),
		Assumptions: assumptions,
		Coverage: map[string]any{
			"states":                        maxInt(total.States, 1),
			"transitions":                   maxInt64(total.Transitions, 1),
			"traces_validated_against_impl": total.LegalRuns,
			"samples":                       samples,
			"evaluations":                   total.Runs,
			"distinct_nontrivial":           total.DistinctOutcome,
			"rule":                          rule,
			"exhaustive":                    total.Exhaustive,
			"cap_hit":                       total.CapHit,
			"layers":                        reports,
			"known_finding_reproductions":   hc.rep.KnownCount(),
			"top_outcomes":                  total.OutcomeList(12),
			"outcome_notes":                 hc.notes,
			"view_comparisons":              hc.comparisons,
			"pages_compared":                hc.pagesCompared,
		},
	}
	if err := ev.Write(e); err != nil {
		fmt.Fprintln(os.Stderr, "write evidence:", err)
		return 2
	}
	code := hc.rep.Finish()
	if code == 0 && hc.unconfirmed > 0 {
		fmt.Fprintf(os.Stderr, "HARNESS ERROR (no verdict): %d oracle failures did not reproduce on replay, e.g. %s\n", hc.unconfirmed, hc.unconfirmedMsg)
		return 2
	}
	fmt.Printf("[C18] %s tier: runs=%d transitions=%d states=%d distinct_outcomes=%d exhaustive=%v wall=%.1fs exit=%d\n",
		ev.Tier(), total.Runs, total.Transitions, total.States, total.DistinctOutcome, total.Exhaustive, t.S(), code)
	return code
}

// printRun executes one history and prints everything observed.
func (hc *c18Check) printRun(l c18Layer, hist []string) int {
	legal, probs, ats, outcome, _, trace, err := hc.exec2(l, hist)
	fmt.Printf("history: %s\nconfig: %s time_travel=%v\nlegal=%v outcome=%s err=%v\n", strings.Join(hist, " "), l.class(), l.TT, legal, outcome, err)
	for _, t := range trace {
		fmt.Println("  ", t)
	}
	var he *scn.HarnessError
	if errors.As(err, &he) || (err != nil) {
		return 2
	}
	for _, p := range probs {
		fmt.Printf("PROBLEM: %s\n  signature: %s|%s|%s|at=%s\n", p, p.Kind, l.class(), strings.Join(hist, " "), ats[p.Kind])
	}
	if len(probs) > 0 {
		return 1
	}
	return 0
}

func (hc *c18Check) replay(path string) int {
	b, err := os.ReadFile(path)
	if err != nil {
		fmt.Fprintln(os.Stderr, err)
		return 2
	}
	var v struct {
		Detail c18Detail `json:"detail"`
	}
	if err := json.Unmarshal(b, &v); err != nil {
		fmt.Fprintln(os.Stderr, err)
		return 2
	}
	d := v.Detail
	return hc.printRun(c18Layer{Name: d.Layer, Cfg: d.Config, Cache: d.Cache, TT: d.TT}, d.History)
}

func c18(args []string) int {
	hc := &c18Check{}
	// the scenario driver removes each scenario directory; remove this process's (then empty) scratch parent too
	defer os.RemoveAll(filepath.Join(scn.ScratchRoot, fmt.Sprintf("lsmc-%d", os.Getpid())))
	if p := replayArg(args); p != "" {
		return hc.replay(p)
	}
	thorough := ev.Tier() == "thorough"
	d := func(q, t int) int {
		if thorough {
			return t
		}
		return q
	}
	mk := func(ps int, av string, l0ret int64) scn.Config {
		return cfgWith(func(c *scn.Config) {
			c.UseStore = false
			c.PageSize, c.AutoVacuum, c.L0RetentionNS = ps, av, l0ret
		})
	}
	keep, prune := int64(1000*time.Hour), int64(1)
	n512, i512, n4096 := mk(512, "NONE", keep), mk(512, "INCREMENTAL", keep), mk(4096, "NONE", keep)
	n512p, i512p := mk(512, "NONE", prune), mk(512, "INCREMENTAL", prune)
	one := func(c scn.Config) int { return c.PageSize } // a page cache of one page

	if h := histArg(args); h != nil {
		// lsmc c18 --history "W3 SW VOPEN ..." [--cfg n512|i512|n4096|n512p|i512p] [--cache N] [--tt]
		l := c18Layer{Name: "adhoc", Cfg: n512}
		for i, a := range args {
			switch a {
			case "--cfg":
				l.Cfg = map[string]scn.Config{"n512": n512, "i512": i512, "n4096": n4096, "n512p": n512p, "i512p": i512p}[args[i+1]]
			case "--cache":
				fmt.Sscan(args[i+1], &l.Cache)
			case "--tt":
				l.TT = true
			}
		}
		return hc.printRun(l, h)
	}

	full := strings.Fields("W1 W3 U D IVAC VAC SW CMP:1 CMP:2 SNAP RETL0A:2 VOPEN VPOLL VLOCK VUNLOCK")
	sub := func(ops string) []string { return strings.Fields(ops) }
	seeds := func(ss ...string) [][]string {
		var out [][]string
		for _, s := range ss {
			out = append(out, strings.Fields(s))
		}
		return out
	}
	// Seed prefixes: freelist, shrink behind a full-size first file / snapshot (open after shrink),
	// shrink seen by a poll (whole and partial), compacted chains, a reader left behind pruned level-0 files.
	sNone := seeds("W3 W3 SW D SW", "W3 W3 SW SNAP D VAC SW", "W3 W3 SW VOPEN D VAC SW", "W1 SW W1 SW CMP:1 W1 SW VOPEN")
	sIncr := seeds("W3 W3 SW D SW", "W3 W3 SW SNAP D IVAC SW", "W3 W3 SW VOPEN D IVAC SW", "W1 SW W1 SW CMP:1 W1 SW VOPEN")
	sPoll := seeds("W3 SW VOPEN", "W3 SW W1 SW CMP:1 W1 SW VOPEN")
	sLock := seeds("W3 W3 SW VOPEN VLOCK", "W1 SW CMP:1 W3 SW VOPEN W1 SW VLOCK")
	sHold := seeds("W3 W3 SW VOPEN VLOCK D VAC SW VPOLL", "W3 W3 SW VOPEN VLOCK D VAC SW", "W3 W3 SW VOPEN VLOCK W3 SW VPOLL", "W1 SW VOPEN VLOCK W3 W3 SW VPOLL D VAC SW")
	aHold := sub("VPOLL VUNLOCK VLOCK W1 SW")
	sBatch := seeds("W3 W3 SW VOPEN W3 SW D VAC SW", "W3 SW VOPEN W3 W3 SW D SW VAC SW", "W3 W3 SW VOPEN U SW D VAC SW W1 SW", "W3 SW VOPEN W3 SW W3 SW D VAC SW")
	sGap := seeds("W1 SW VOPEN W3 SW U SW W1 SW", "W1 SW W1 SW CMP:1 W1 SW VOPEN W1 SW W1 SW", "W1 SW CMP:1 W1 SW CMP:1 CMP:2 W1 SW VOPEN W1 SW")
	sTT := seeds("W1 SW W3 SW D VAC SW W1 SW", "W1 SW W1 SW CMP:1 W1 SW SNAP W1 SW", "W3 SW W1 SW CMP:1 D VAC SW CMP:1 CMP:2 W1 SW")
	sTTI := seeds("W3 W3 SW D IVAC SW W1 SW CMP:1 W1 SW", "W3 SW SNAP W3 SW D SW IVAC SW")
	aExact := sub("W3 D VAC SW VOPEN VPOLL")
	aExactI := sub("W3 D IVAC SW VOPEN VPOLL")
	aPoll := sub("W1 D VAC SW CMP:1 VPOLL")
	aPollI := sub("W1 D IVAC SW CMP:1 VPOLL")
	aLock := sub("W1 D IVAC SW VPOLL VUNLOCK VLOCK")
	aGap := sub("W1 SW CMP:1 CMP:2 RETL0A:2 VOPEN VPOLL VLOCK VUNLOCK")
	aTT := sub("W1 D VAC SW CMP:1 SNAP VOPEN VPOLL")
	aTTI := sub("W1 D IVAC SW CMP:1 SNAP VOPEN VPOLL")
	// Small layers first: under load the time budget then cuts the broad layers, not the targeted ones.
	layers := []c18Layer{
		{Name: "pruned/512-none/cache1", Cfg: n512p, Cache: one(n512p), Alphabet: aGap, Depth: d(2, 3), Seeds: sGap},
		{Name: "retention/512-none/cache1", Cfg: n512, Cache: one(n512), Alphabet: aGap, Depth: d(2, 3), Seeds: append(sGap, strings.Fields("W1 SW VOPEN W1 SW W1 SW W1 SW CMP:1"))},
		{Name: "pruned/512-incr/cache-default", Cfg: i512p, Alphabet: aGap, Depth: d(2, 3), Seeds: sGap},
		{Name: "locked/512-none/l0-pruned/cache-default", Cfg: n512p, Alphabet: sub("W1 D VAC SW CMP:1 VPOLL VUNLOCK VLOCK"), Depth: d(2, 4), Seeds: sLock},
		// one poll that covers several new files (the reader did not poll between the primary's syncs), ending in
		// or containing a shrink: what the batch collected before the shrinking file must not survive it
		{Name: "batched-poll/512-none/cache-default", Cfg: n512, Alphabet: sub("VPOLL W1 SW VLOCK VUNLOCK"), Depth: d(2, 4), Seeds: sBatch},
		{Name: "batched-poll/512-none/cache1", Cfg: n512, Cache: one(n512), Alphabet: sub("VPOLL W3 SW"), Depth: d(2, 3), Seeds: sBatch},
		// a read lock held across several polls: whatever a poll defers to the unlock (pending index, pending
		// replace after a shrink) must survive further polls, with and without new files, until VUNLOCK
		{Name: "held-lock/512-none/cache-default", Cfg: n512, Alphabet: aHold, Depth: d(3, 5), Seeds: sHold},
		{Name: "held-lock/512-none/cache1", Cfg: n512, Cache: one(n512), Alphabet: aHold, Depth: d(2, 4), Seeds: sHold},
		{Name: "seeded/512-none/cache-default", Cfg: n512, Alphabet: aPoll, Depth: d(2, 3), Seeds: sNone},
		{Name: "seeded/512-incr/cache-default", Cfg: i512, Alphabet: aPollI, Depth: d(2, 3), Seeds: sIncr},
		{Name: "seeded/4096-none/cache1", Cfg: n4096, Cache: one(n4096), Alphabet: aPoll, Depth: d(2, 3), Seeds: sNone},
		{Name: "polls/512-none/cache-default", Cfg: n512, Alphabet: aPoll, Depth: d(3, 5), Seeds: sPoll},
		{Name: "polls/512-incr/cache1", Cfg: i512, Cache: one(i512), Alphabet: aPollI, Depth: d(3, 5), Seeds: sPoll},
		// background hydration into a persistent local file: reads come from that file; a reopened reader resumes
		// from it and catches up with what was replicated while it was closed
		{Name: "hydrated/512-none/reopen", Cfg: n512, Hydrate: true, Alphabet: sub("VOPEN VCLOSE VPOLL W1 U SW"), Depth: d(3, 4),
			Seeds: seeds("W3 SW VOPEN VCLOSE U SW W1 SW", "W3 SW W1 SW VOPEN W1 SW VPOLL VCLOSE U SW", "W3 W3 SW VOPEN D VAC SW VPOLL VCLOSE W1 SW")},
		// writes replicated WHILE a target time is set, then back to latest: with and without hydration
		{Name: "hydrated/512-none/writes-during-time-travel", Cfg: n512, Hydrate: true, Alphabet: sub("VTTSET VTTRESET U W1 SW VPOLL"), Depth: d(4, 5),
			Seeds: seeds("W3 SW W1 SW VOPEN", "W3 SW U SW W1 SW VOPEN VTTSET")},
		{Name: "time-travel/512-none/writes-during-time-travel", Cfg: n512, Alphabet: sub("VTTSET VTTRESET U W1 SW VPOLL"), Depth: d(3, 5),
			Seeds: seeds("W3 SW W1 SW VOPEN", "W3 SW U SW W1 SW VOPEN VTTSET")},
		// growth that a poll staged under a held lock (merged at unlock), then a shrink to a size between the size at
		// open and the grown size: the shrink must still be recognised as one
		{Name: "held-lock/512-none/growth-under-lock-then-shrink", Cfg: n512, Alphabet: sub("DL VAC SW VPOLL W1"), Depth: d(4, 5),
			Seeds: seeds("W3 SW VOPEN VLOCK W3 SW VPOLL VUNLOCK", "W3 SW VOPEN VLOCK W3 W3 SW VPOLL VUNLOCK D", "W3 SW VOPEN VLOCK W3 SW VPOLL W3 SW VPOLL VUNLOCK",
				"W3 SW VOPEN VLOCK W3 SW VPOLL W3 SW VPOLL VUNLOCK DL VAC SW", "W3 SW VOPEN VLOCK W3 W3 SW VPOLL VUNLOCK DL VAC SW")},
		// a target time set INSIDE an open read transaction that has already seen a poll stage newer files
		{Name: "time-travel/512-none/set-under-held-lock", Cfg: n512, Alphabet: sub("W1 U SW VPOLL VTTSET VUNLOCK VTTRESET"), Depth: d(4, 5),
			Seeds: seeds("W3 SW W1 SW VOPEN VLOCK", "W3 SW U SW W1 SW VOPEN VLOCK W1 SW VPOLL", "W3 SW W3 SW VOPEN VLOCK D VAC SW VPOLL")},
		{Name: "time-travel/512-none/set-during-poll", Cfg: n512, Alphabet: sub("VPTT W1 SW VPOLL"), Depth: d(2, 3),
			Seeds: seeds("W1 SW W1 SW W1 SW VOPEN W1 SW W1 SW", "W1 SW W3 SW VOPEN D VAC SW W1 SW")},
		{Name: "time-travel/512-none", Cfg: n512, Cache: one(n512), TT: true, Alphabet: aTT, Depth: d(1, 3), Seeds: sTT},
		{Name: "time-travel/512-incr/l0-pruned", Cfg: i512p, TT: true, Alphabet: aTTI, Depth: d(1, 3), Seeds: sTTI},
		{Name: "locked/512-incr/cache1", Cfg: i512, Cache: one(i512), Alphabet: aLock, Depth: d(3, 4), Seeds: sLock},
		{Name: "exact/512-none/cache1", Cfg: n512, Cache: one(n512), Alphabet: aExact, Depth: d(4, 6), Seeds: seeds("W3 SW")},
		{Name: "exact/512-incr/cache1", Cfg: i512, Cache: one(i512), Alphabet: aExactI, Depth: d(4, 6), Seeds: seeds("W3 SW")},
		{Name: "seeded/512-none/cache1", Cfg: n512, Cache: one(n512), Alphabet: full, Depth: d(2, 3), Seeds: sNone},
		{Name: "seeded/512-incr/cache1", Cfg: i512, Cache: one(i512), Alphabet: full, Depth: d(2, 3), Seeds: sIncr},
		{Name: "merged/512-incr/wide/cache1", Cfg: i512, Cache: one(i512), Alphabet: full, Depth: d(6, 10), Merge: true, MaxRuns: int64(d(300, 40000)), Seeds: seeds("W3 W3 SW")},
	}
	return hc.runLayers(layers, ev.Budget(85*time.Second, 45*time.Minute),
		[]string{
			"the VFS file is a real litestream.VFSFile obtained from (*litestream.VFS).Open on the scenario's file replica (read-only, no hydration); the background monitor is parked (PollInterval 24h) and each VPOLL runs exactly one pollReplicaClient iteration through the VerifPoll hook",
			"reference image of TXID n: Replica.Restore(TXID=n) from the replica directory alone; if that TXID is no longer restorable (compacted away), the fold of the level-0 files archived by the harness when they first appeared",
			"page 1 is compared with bytes 18,19 (journal mode, rewritten to 1,1) and 24..27 (change counter, randomised) masked: exactly what VFSFile.ReadAt rewrites",
			"VFS page cache sizes: one page (every read goes to the index and the replica) and the 10 MB default (every page the oracle has read stays cached, so stale cache entries show)",
			"while the harness holds the SHARED lock the view must stay at the lock-time TXID; there FileSize counting pending pages and reads of pages whose file was pruned meanwhile are recorded as outcome notes, not violations (SQLite asks for the size when it takes the lock; an object store offers no snapshots); other bytes under the lock are a violation",
			"a view that stays behind the newest restorable TXID after a poll (liveness) is recorded as the outcome note behind-latest, not as a violation of C18",
			"time travel: candidate times as in C15 (replication time of every TXID -1/0/+1 ms, midpoints, +-1 ms around higher-level file times); reference is Restore(Timestamp=T); both failing counts as agreement",
		},
		"every history over the layer alphabet (primary: W1 W3 U D IVAC VAC; replication: SW CMP:1 CMP:2 SNAP RETL0A:2; reader: VOPEN VPOLL VLOCK VUNLOCK) up to the layer depth beyond each seed prefix, page sizes 512/4096, auto_vacuum NONE/INCREMENTAL, level-0 files kept or pruned by compaction; after VOPEN (a history without VOPEN ends with one), every VPOLL and VUNLOCK and a final VPOLL(+VUNLOCK): FileSize == size of Restore(TXID=Pos) and ReadAt of every page == the restored page (masked header bytes), Pos never decreases; time-travel layers: for every candidate T, SetTargetTime(T) view == Restore(Timestamp=T), ResetTime returns to the latest view")
}
