//go:build c12 || c12race

package main

// Scenario table and operation bodies shared by the schedule explorer (tag c12:
// litestream compiled from the rewritten sources, threads run under lsverif/vsched)
// and by the race pass (tag c12race: unrewritten sources, free-running goroutines,
// race detector).

import (
	"context"
	"database/sql"
	"errors"
	"fmt"
	"io"
	"log/slog"
	"os"
	"strings"
	"sync"
	"time"

	"github.com/benbjohnson/litestream"
	"github.com/benbjohnson/litestream/file"
	"github.com/superfly/ltx"

	"lsverif/scn"
	"lsverif/vsched"
)

// c12Scenario is one concurrent scenario: a sequential prefix, then N threads
// each running a short list of operations on the shared objects.
type c12Scenario struct {
	Name      string
	Prefix    []string   // scn alphabet, run sequentially before the explored phase
	Setup     []string   // extra sequential setup steps (c12 op codes) after the prefix
	Threads   [][]string // per thread: c12 op codes
	Retention bool       // retention runs: level-0 names need not be gapless
	Thorough  bool       // only in the thorough tier
	// ExpectClosed: a close-type operation runs on the scenario DB and nothing re-opens it,
	// so at quiescence it must be closed with every handle released.
	ExpectClosed bool
	// Suffix: c12 op codes run sequentially after the concurrent phase (and after the closing SyncAndWait), before
	// the oracles: "the daemon goes on with its periodic duties" - damage done to cached state by the concurrent
	// phase shows in the files the NEXT pass writes.
	Suffix []string
	// Env: exploration settings this scenario needs (e.g. C12_PIPE=prefer C12_FS=all); given to its worker
	// process and re-applied on replay.
	Env []string
}

func (sc *c12Scenario) String() string {
	var ts []string
	for _, t := range sc.Threads {
		ts = append(ts, strings.Join(t, ","))
	}
	return fmt.Sprintf("%s: prefix[%s] setup[%s] threads{%s}", sc.Name, strings.Join(sc.Prefix, " "), strings.Join(sc.Setup, " "), strings.Join(ts, " || "))
}

// Operation codes (thread alphabet):
//
//	SYNC   DB.Sync                      RSYNC  Replica.Sync              SW     DB.SyncAndWait
//	CKP    DB.Checkpoint(PASSIVE)       CKT    DB.Checkpoint(TRUNCATE)   FSNAP  DB.Snapshot
//	SNAP   Store.CompactDB(snapshot)    CMP1   Store.CompactDB(level 1)  RETL0  DB.EnforceL0RetentionByTime
//	RET9   Store.EnforceSnapshotRetention  STATUS DB.SyncStatus          DIAG   DB.SyncDiagnostic
//	RSET   DB.ResetLocalState           REG    Store.RegisterDB(new DB object, same path)
//	UNREG  Store.UnregisterDB           DISABLE/ENABLE Store.DisableDB/EnableDB
//	CLOSE  DB.Close                     CLOSEX DB.Close(already-cancelled ctx)   SCLOSE Store.Close
//	SYNCDB Store.SyncDB(wait=true)      W      application INSERT (own statement = one atomic step)
//	POS    DB.Pos (position query outside the sync executor)   CMP2   Store.CompactDB(level 2)
//	TXC/TXR application transaction BEGIN IMMEDIATE; INSERT; yield; INSERT; yield; COMMIT|ROLLBACK on a second connection
var c12Pairs = func() []*c12Scenario {
	core := []string{"SYNC", "CKP", "CKT", "FSNAP", "CMP1", "RETL0", "CLOSE", "RSET", "W"}
	// prefix: a synced position, then one unsynced committed write (local WAL ahead of the local LTX, LTX ahead of nothing)
	base := strings.Fields("W3 SW W1 S W1")
	var out []*c12Scenario
	short := map[string]string{"SYNC": "sync", "CKP": "ckpassive", "CKT": "cktruncate", "FSNAP": "snapshot", "CMP1": "compact1", "RETL0": "retl0",
		"CLOSE": "close", "RSET": "reset", "W": "appwrite", "RSYNC": "rsync", "SW": "syncwait", "REG": "register", "UNREG": "unregister",
		"ENABLE": "enable", "DISABLE": "disable", "SNAP": "storesnapshot", "RET9": "ret9", "STATUS": "status", "DIAG": "diag", "SCLOSE": "storeclose",
		"SYNCDB": "storesync", "CMP2": "compact2", "TXC": "apptx", "TXR": "apptxrollback", "CLOSEX": "closecancelled", "LIST": "storelist"}
	prio := map[string]int{}
	for i, o := range []string{"CLOSE", "CLOSEX", "SCLOSE", "DISABLE", "UNREG", "REG", "ENABLE", "FSNAP", "SNAP", "CKT", "CKP", "SYNC", "SW", "RSYNC", "SYNCDB", "CMP1", "RETL0", "RET9", "RSET", "STATUS", "DIAG", "LIST", "TXC", "TXR", "W"} {
		prio[o] = i
	}
	mk := func(a, b string) *c12Scenario {
		if prio[b] < prio[a] {
			a, b = b, a
		}
		sc := &c12Scenario{Name: short[a] + "-vs-" + short[b], Prefix: base, Threads: [][]string{{a}, {b}}}
		for _, o := range []string{a, b} {
			switch o {
			case "CMP1", "RETL0", "RET9":
				sc.Retention = true
				// L1 must exist and L0 must hold compacted and uncompacted files
				sc.Prefix = strings.Fields("W3 SW W1 SW CMP:1 W1 SW W1 S W1")
			case "CLOSE", "CLOSEX", "SCLOSE", "DISABLE", "UNREG":
				sc.ExpectClosed = true
			}
		}
		for _, o := range []string{a, b} {
			if o == "ENABLE" || o == "REG" {
				sc.ExpectClosed = false
			}
		}
		return sc
	}
	for i := 0; i < len(core); i++ {
		for j := i + 1; j < len(core); j++ {
			out = append(out, mk(core[i], core[j]))
		}
	}
	out = append(out, mk("SYNC", "SYNC"), mk("SW", "SW"), mk("RSYNC", "RSYNC"), mk("RSYNC", "RETL0"), mk("W", "W"),
		mk("CLOSE", "CLOSE"), mk("CLOSEX", "SYNC"), mk("DISABLE", "SYNCDB"), mk("ENABLE", "DISABLE"), mk("REG", "UNREG"))
	rr := mk("REG", "REG")
	rr.Setup = []string{"UNREG"} // start from an empty store: both threads race to register the path
	out = append(out, rr)
	ed := mk("ENABLE", "ENABLE")
	ed.Setup = []string{"DISABLE"}
	out = append(out, ed)
	// Store.EnableDB against the registry changing under it (regression for F21, and the re-registration variant:
	// the path is unregistered AND registered again as a new instance while EnableDB is opening the old one)
	out = append(out, mk("UNREG", "ENABLE"))
	out = append(out, &c12Scenario{Name: "enable-vs-unregister+register", Prefix: base, Setup: []string{"DISABLE"},
		Threads: [][]string{{"ENABLE"}, {"UNREG", "REG"}}})
	// a store-wide pass over the managed databases against the registry changing under it
	for _, sc := range []*c12Scenario{mk("UNREG", "LIST"), mk("REG", "LIST")} {
		sc.Setup = []string{"REG2"}
		out = append(out, sc)
	}
	// two levels' compaction passes at once right after the object was re-opened (level-maximum cache cold), then the
	// next level-1 pass: every level must still be one gapless, non-overlapping sequence (C06's layout clause under
	// concurrency; the Store's level monitors all fire at start-up)
	out = append(out, &c12Scenario{Name: "compact1-vs-compact2-cold-cache", Prefix: strings.Fields("W3 SW W1 SW CMP:1 W1 SW W1 S W1"),
		Setup: []string{"DISABLE", "ENABLE"}, Threads: [][]string{{"CMP1"}, {"CMP2"}}, Retention: true, Suffix: []string{"W", "SW", "CMP1", "CMP2"}})
	// a position query from outside the sync executor (GET /txid, the monitors) while the position cache is cold
	// (object just re-opened) against a sync that publishes a new position; then the next commit is replicated
	out = append(out, &c12Scenario{Name: "pos-vs-syncwait-cold-cache", Prefix: base, Setup: []string{"DISABLE", "ENABLE", "W"},
		Threads: [][]string{{"POS"}, {"SW"}}, Suffix: []string{"W", "SW"}})
	out = append(out, &c12Scenario{Name: "pos-vs-sync-cold-cache", Prefix: base, Setup: []string{"DISABLE", "ENABLE", "W"},
		Threads: [][]string{{"POS"}, {"SYNC", "RSYNC"}}, Suffix: []string{"W", "SW"}})
	// application transaction against sync and checkpoints (C02 half)
	out = append(out, mk("TXC", "SYNC"), mk("TXC", "CKT"), mk("TXR", "SYNC"), mk("TXC", "FSNAP"))

	// thorough: every remaining pair of the full operation set
	all := []string{"SYNC", "RSYNC", "SW", "CKP", "CKT", "FSNAP", "SNAP", "CMP1", "RETL0", "RET9", "STATUS", "DIAG", "RSET", "REG", "UNREG", "DISABLE", "ENABLE", "CLOSE", "SCLOSE", "SYNCDB", "W", "TXC"}
	have := map[string]bool{}
	for _, sc := range out {
		have[sc.Name] = true
	}
	for i := 0; i < len(all); i++ {
		for j := i; j < len(all); j++ {
			sc := mk(all[i], all[j])
			rev := short[all[j]] + "-vs-" + short[all[i]]
			if have[sc.Name] || have[rev] {
				continue
			}
			have[sc.Name] = true
			sc.Thorough = true
			out = append(out, sc)
		}
	}
	// thorough: triples
	tri := func(name string, prefix string, ths ...[]string) {
		sc := &c12Scenario{Name: name, Prefix: strings.Fields(prefix), Threads: ths, Thorough: true}
		for _, t := range ths {
			for _, o := range t {
				switch o {
				case "CMP1", "RETL0", "RET9":
					sc.Retention = true
				case "CLOSE", "SCLOSE", "DISABLE", "UNREG":
					sc.ExpectClosed = true
				}
			}
		}
		for _, t := range ths {
			for _, o := range t {
				if o == "ENABLE" || o == "REG" {
					sc.ExpectClosed = false
				}
			}
		}
		out = append(out, sc)
	}
	b := "W3 SW W1 S W1"
	r := "W3 SW W1 SW CMP:1 W1 SW W1 S W1"
	tri("3:snapshot-ckt-sync", b, []string{"FSNAP"}, []string{"CKT"}, []string{"SYNC"})
	tri("3:close-sync-snapshot", b, []string{"CLOSE"}, []string{"SYNC"}, []string{"FSNAP"})
	tri("3:register-register-unregister", b, []string{"REG"}, []string{"REG"}, []string{"UNREG"})
	tri("3:retl0-compact1-sync", r, []string{"RETL0"}, []string{"CMP1"}, []string{"SW"})
	tri("3:apptx-sync-ckt", b, []string{"TXC"}, []string{"SYNC"}, []string{"CKT"})
	tri("3:appwrite-sync-ckp", b, []string{"W"}, []string{"SYNC"}, []string{"CKP"})
	tri("3:snapshot-ckp-appwrite", b, []string{"FSNAP"}, []string{"CKP"}, []string{"W"})
	tri("3:syncwait-syncwait-appwrite", b, []string{"SW"}, []string{"SW"}, []string{"W"})
	tri("3:close-ckt-appwrite", b, []string{"CLOSE"}, []string{"CKT"}, []string{"W"})
	tri("3:disable-enable-sync", b, []string{"DISABLE"}, []string{"ENABLE"}, []string{"SYNCDB"})
	tri("3:reset-sync-rsync", b, []string{"RSET"}, []string{"SYNC"}, []string{"RSYNC"})
	tri("3:ret9-snapshot-sync", r, []string{"RET9"}, []string{"FSNAP"}, []string{"SW"})
	tri("3:compact1-compact1-retl0", r, []string{"CMP1"}, []string{"CMP1"}, []string{"RETL0"})
	tri("3:storeclose-sync-snapshot", b, []string{"SCLOSE"}, []string{"SYNC"}, []string{"FSNAP"})
	tri("3:sync-then-ckt--write-then-sync--snapshot", b, []string{"SYNC", "CKT"}, []string{"W", "SYNC"}, []string{"FSNAP"})
	// Regression scenarios of repaired defects that were first found in the thorough tier: part of the quick tier,
	// each with the exploration settings it needs (F20: two snapshots interleaved inside the upload stream; F25: reset
	// against an in-flight replica upload).
	for _, sc := range out {
		switch sc.Name {
		case "snapshot-vs-snapshot":
			sc.Thorough = false
			sc.Env = []string{"C12_PIPE=prefer", "C12_FS=all"}
		case "3:reset-sync-rsync":
			sc.Thorough = false
		}
	}
	return out
}()

func c12FindScenario(name string) *c12Scenario {
	for _, sc := range c12Pairs {
		if sc.Name == name {
			return sc
		}
	}
	return nil
}

// c12World is the state of one execution.
type c12World struct {
	S       *scn.Scn
	Sc      *c12Scenario
	Second  *litestream.DB   // REG2: a second database of the same store (own path)
	Extra   []*litestream.DB // instances created by REG operations (index = creation order)
	ExtraBy []int            // thread index that created Extra[i]
	Results [][]string       // per thread, per op
	Marks   [][]c12OpMark    // per thread, per op: the thread's own scheduling steps spent in it
	Uploads map[string]int   // level-0 uploads per file name in the concurrent phase
	upMu    sync.Mutex
	phase   bool // concurrent phase running (uploads are counted)
	txDB    *sql.DB
	mu      sync.Mutex // harness bookkeeping (Extra, application connection) under free-running threads
	appMu   sync.Mutex // serialises the harness's own application-write bookkeeping (scn.Do is not thread-safe)
}

func c12Config() scn.Config {
	cfg := scn.DefaultConfig()
	cfg.MinCheckpointPageN = 1000 // no automatic checkpoints inside Sync: checkpoints are explicit operations
	return cfg
}

// c12OpMark attributes scheduling steps and local effects to one operation of a thread.
type c12OpMark struct {
	Op       string
	From, To int  // the thread's own step counter before / after the operation
	NewL0    bool // the operation left a new local level-0 file behind
}

// c12Client wraps the replica client: every storage request is a scheduling point
// (requests are the visible operations of the replica side) and level-0 uploads are counted.
type c12Client struct {
	inner litestream.ReplicaClient
	w     *c12World
}

func (c *c12Client) Type() string                        { return c.inner.Type() }
func (c *c12Client) Init(ctx context.Context) error      { return c.inner.Init(ctx) }
func (c *c12Client) SetLogger(l *slog.Logger)            { c.inner.SetLogger(l) }
func (c *c12Client) DeleteAll(ctx context.Context) error { return c.inner.DeleteAll(ctx) }
func (c *c12Client) LTXFiles(ctx context.Context, level int, seek ltx.TXID, useMetadata bool) (ltx.FileIterator, error) {
	vsched.Yield("replica", fmt.Sprintf("list:L%d", level))
	return c.inner.LTXFiles(ctx, level, seek, useMetadata)
}
func (c *c12Client) OpenLTXFile(ctx context.Context, level int, minTXID, maxTXID ltx.TXID, offset, size int64) (io.ReadCloser, error) {
	vsched.Yield("replica", fmt.Sprintf("open:L%d/%d-%d", level, minTXID, maxTXID))
	return c.inner.OpenLTXFile(ctx, level, minTXID, maxTXID, offset, size)
}
func (c *c12Client) WriteLTXFile(ctx context.Context, level int, minTXID, maxTXID ltx.TXID, r io.Reader) (*ltx.FileInfo, error) {
	name := fmt.Sprintf("L%d/%d-%d", level, minTXID, maxTXID)
	vsched.Yield("replica", "write:"+name)
	if level == 0 {
		c.w.upMu.Lock()
		if c.w.phase {
			c.w.Uploads[name]++
		}
		c.w.upMu.Unlock()
	}
	return c.inner.WriteLTXFile(ctx, level, minTXID, maxTXID, r)
}
func (c *c12Client) DeleteLTXFiles(ctx context.Context, a []*ltx.FileInfo) error {
	vsched.Yield("replica", fmt.Sprintf("delete:%d", len(a)))
	return c.inner.DeleteLTXFiles(ctx, a)
}

func c12NewWorld(sc *c12Scenario) (*c12World, error) {
	w := &c12World{Sc: sc, Results: make([][]string, len(sc.Threads)), Marks: make([][]c12OpMark, len(sc.Threads)), Uploads: map[string]int{}}
	s, err := scn.NewOpt(c12Config(), func(s *scn.Scn) {
		s.WrapClient = func(inner litestream.ReplicaClient) litestream.ReplicaClient { return &c12Client{inner: inner, w: w} }
	})
	if err != nil {
		return nil, err
	}
	w.S = s
	s.Store.SnapshotRetention = time.Nanosecond
	for _, op := range sc.Prefix {
		if o := s.Do(op); o.Illegal || o.Err != nil {
			w.Destroy()
			return nil, fmt.Errorf("prefix op %s: %s", op, o.String())
		}
	}
	for _, op := range sc.Setup {
		if r := w.Op(-1, op); !strings.HasPrefix(r, "ok") {
			w.Destroy()
			return nil, fmt.Errorf("setup op %s: %s", op, r)
		}
	}
	return w, nil
}

func (w *c12World) Destroy() {
	if w.txDB != nil {
		w.txDB.Close()
	}
	for _, d := range w.Extra {
		d.VerifAbandon()
	}
	if w.Second != nil {
		w.Second.VerifAbandon()
	}
	w.S.Destroy()
}

func c12Class(err error) string {
	if err == nil {
		return "ok"
	}
	switch {
	case errors.Is(err, litestream.ErrNoCompaction):
		return "ok:nocompaction"
	case errors.Is(err, litestream.ErrCompactionTooEarly):
		return "ok:tooearly"
	case strings.Contains(err.Error(), "no position, waiting for data"):
		return "ok:waitfordata"
	}
	return "err:" + scn.ErrClass(err)
}

func (w *c12World) newInstance() *litestream.DB {
	s := w.S
	db := litestream.NewDB(s.DBPath)
	db.MonitorInterval = 0
	db.BusyTimeout = 0
	db.MinCheckpointPageN = s.Cfg.MinCheckpointPageN
	db.TruncatePageN = s.Cfg.TruncatePageN
	db.CheckpointInterval = 0
	db.ShutdownSyncTimeout = 0
	db.MaxSyncWALBytes = 0
	client := file.NewReplicaClient(s.ReplicaDir)
	rep := litestream.NewReplicaWithClient(db, client)
	rep.MonitorEnabled = false
	db.Replica = rep
	client.Replica = rep
	rep.Client = &c12Client{inner: client, w: w}
	return db
}

// Op runs one operation of thread ti (-1 = sequential setup) and returns its result class.
func (w *c12World) Op(ti int, op string) string {
	s := w.S
	ctx := context.Background()
	switch op {
	case "SYNC":
		return c12Class(s.DB.Sync(ctx))
	case "RSYNC":
		return c12Class(s.DB.Replica.Sync(ctx))
	case "SW":
		return c12Class(s.DB.SyncAndWait(ctx))
	case "CKP":
		return c12Class(s.DB.Checkpoint(ctx, litestream.CheckpointModePassive))
	case "CKT":
		return c12Class(s.DB.Checkpoint(ctx, litestream.CheckpointModeTruncate))
	case "FSNAP":
		_, err := s.DB.Snapshot(ctx)
		return c12Class(err)
	case "SNAP":
		_, err := s.Store.CompactDB(ctx, s.DB, s.Store.SnapshotLevel())
		return c12Class(err)
	case "CMP1":
		lvl, err := s.Levels().Level(1)
		if err != nil {
			panic(err)
		}
		_, err = s.Store.CompactDB(ctx, s.DB, lvl)
		return c12Class(err)
	case "CMP2":
		lvl, err := s.Levels().Level(2)
		if err != nil {
			panic(err)
		}
		_, err = s.Store.CompactDB(ctx, s.DB, lvl)
		return c12Class(err)
	case "RETL0":
		return c12Class(s.DB.EnforceL0RetentionByTime(ctx))
	case "RET9":
		return c12Class(s.Store.EnforceSnapshotRetention(ctx, s.DB))
	case "STATUS":
		st, err := s.DB.SyncStatus(ctx)
		if err != nil {
			return c12Class(err)
		}
		if st.RemoteTXID > st.LocalTXID {
			return "ok:remote-ahead"
		}
		return "ok"
	case "DIAG":
		_ = s.DB.SyncDiagnostic()
		return "ok"
	case "POS":
		// what the /txid handler, the replica monitor and the snapshot monitor do outside the sync executor
		if _, err := s.DB.Pos(); err != nil {
			return c12Class(err)
		}
		return "ok"
	case "LIST":
		// what every store-wide pass does (compaction / retention / heartbeat monitors, the list and status
		// handlers): take the list of managed databases, then visit each one
		n := 0
		for _, db := range s.Store.DBs() {
			if db.IsOpen() {
				n++
			}
			_ = db.Path()
		}
		return "ok"
	case "RSET":
		return c12Class(s.DB.ResetLocalState(ctx))
	case "REG":
		db := w.newInstance()
		w.mu.Lock()
		w.Extra = append(w.Extra, db)
		w.ExtraBy = append(w.ExtraBy, ti)
		name := fmt.Sprintf("DB%d", len(w.Extra)+1)
		w.mu.Unlock()
		c12NameInstance(name, db)
		return c12Class(s.Store.RegisterDB(db))
	case "REG2":
		// setup only: a SECOND database (own path, own replica directory) managed by the same store, so that
		// store-wide passes have more than one element to visit
		path2 := s.DBPath + "-second"
		sq, err := sql.Open("sqlite", "file:"+path2+"?_pragma=busy_timeout(0)")
		if err != nil {
			panic(err)
		}
		for _, q := range []string{"PRAGMA journal_mode = wal", "CREATE TABLE IF NOT EXISTS t (id INTEGER PRIMARY KEY, v TEXT)", "INSERT INTO t (v) VALUES ('second')"} {
			if _, err := sq.Exec(q); err != nil {
				panic(err)
			}
		}
		sq.Close()
		db := litestream.NewDB(path2)
		db.MonitorInterval = 0
		db.BusyTimeout = 0
		db.ShutdownSyncTimeout = 0
		client := file.NewReplicaClient(s.ReplicaDir + "-second")
		rep := litestream.NewReplicaWithClient(db, client)
		rep.MonitorEnabled = false
		db.Replica = rep
		client.Replica = rep
		w.Second = db
		c12NameInstance("DBsecond", db)
		return c12Class(s.Store.RegisterDB(db))
	case "UNREG":
		return c12Class(s.Store.UnregisterDB(ctx, s.DBPath))
	case "DISABLE":
		return c12Class(s.Store.DisableDB(ctx, s.DBPath))
	case "ENABLE":
		return c12Class(s.Store.EnableDB(ctx, s.DBPath))
	case "CLOSE":
		return c12Class(s.DB.Close(ctx))
	case "CLOSEX":
		cctx, cancel := context.WithCancel(ctx)
		cancel()
		return c12Class(s.DB.Close(cctx))
	case "SCLOSE":
		return c12Class(s.Store.Close(ctx))
	case "SYNCDB":
		_, err := s.Store.SyncDB(ctx, s.DBPath, true)
		return c12Class(err)
	case "W":
		vsched.Yield("app", "INSERT")
		w.appMu.Lock() // never held across a scheduling point
		o := s.Do("W1")
		w.appMu.Unlock()
		return o.String()
	case "TXC", "TXR":
		return w.appTx(op == "TXC")
	}
	panic("c12: unknown op " + op)
}

// appTx is the application's multi-statement transaction on its own connection.
func (w *c12World) appTx(commit bool) string {
	s := w.S
	ctx := context.Background()
	w.mu.Lock()
	if w.txDB == nil {
		db, err := sql.Open("sqlite", "file:"+s.DBPath+"?_pragma=busy_timeout(0)&_pragma=wal_autocheckpoint(0)")
		if err != nil {
			w.mu.Unlock()
			return "err:open"
		}
		w.txDB = db
	}
	txDB := w.txDB
	w.mu.Unlock()
	c, err := txDB.Conn(ctx)
	if err != nil {
		return "err:" + scn.ErrClass(err)
	}
	defer c.Close()
	step := func(what, q string, args ...any) error {
		vsched.Yield("app", what)
		_, err := c.ExecContext(ctx, q, args...)
		return err
	}
	if err := step("BEGIN", "BEGIN IMMEDIATE"); err != nil {
		return "begin:" + scn.ErrClass(err)
	}
	pay := strings.Repeat("x", 700)
	if err := step("INSERT#1", "INSERT INTO t (v) VALUES (?)", "tx1"+pay); err != nil {
		c.ExecContext(ctx, "ROLLBACK")
		return "insert1:" + scn.ErrClass(err)
	}
	if err := step("INSERT#2", "INSERT INTO t (v) VALUES (?)", "tx2"+pay); err != nil {
		c.ExecContext(ctx, "ROLLBACK")
		return "insert2:" + scn.ErrClass(err)
	}
	end := "ROLLBACK"
	if commit {
		end = "COMMIT"
	}
	err = step(end, end)
	w.appMu.Lock()
	s.RecordLedgerNow()
	w.appMu.Unlock()
	if err != nil {
		c.ExecContext(ctx, "ROLLBACK")
		return strings.ToLower(end) + ":" + scn.ErrClass(err)
	}
	return "ok"
}

// c12ThreadBody runs the operations of thread ti; after each one the committed source
// state is recorded in the scenario ledger (safe: only the running managed thread executes).
func (w *c12World) ThreadBody(ti int, record bool) {
	w.upMu.Lock()
	w.phase = true
	w.upMu.Unlock()
	for _, op := range w.Sc.Threads[ti] {
		m := c12OpMark{Op: op, From: c12Steps()}
		before := w.localL0()
		r := w.Op(ti, op)
		m.To = c12Steps()
		m.NewL0 = w.localL0() > before
		w.Results[ti] = append(w.Results[ti], op+"="+r)
		w.Marks[ti] = append(w.Marks[ti], m)
		if record {
			w.appMu.Lock()
			w.S.RecordLedgerNow()
			w.appMu.Unlock()
		}
	}
}

// localL0 is the highest TXID among the local level-0 file names (plain directory read, no shim).
func (w *c12World) localL0() ltx.TXID {
	ents, err := os.ReadDir(litestream.LTXLevelDir(w.S.DB.MetaPath(), 0))
	if err != nil {
		return 0
	}
	var m ltx.TXID
	for _, e := range ents {
		if _, mx, err := ltx.ParseFilename(e.Name()); err == nil && mx > m {
			m = mx
		}
	}
	return m
}
