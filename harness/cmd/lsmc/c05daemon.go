package main

import (
	"fmt"
	"time"

	"github.com/benbjohnson/litestream"

	"lsverif/faultclient"
	"lsverif/scn"
)

// C05, daemon-mode phase. The enumeration in c05.go replaces litestream's monitors by explicit operations, which
// makes every run deterministic but also means that "the replica catches up" is always helped along by an explicit
// Replica.Sync. Here the monitors do the work, as under `litestream replicate`: a database that has been replicated
// before is opened by a new process whose DB monitor and replica monitor run at a 1 ms interval, the K-th storage
// call of that process fails once (K = 1..c05DaemonCalls: the calls of the lazy initialisation and of the first
// uploads), the application commits four times, and WITHOUT any explicit sync the replica must reach the local position and
// restore to the source after each commit. The enumeration is over K and two start states; thread schedules are whatever the Go
// runtime produces (this phase is exhaustive in the fault position only).
//
// Time: catching up normally takes a few milliseconds (one failure => back-off of one monitor interval). The wait
// is bounded by c05DaemonWait; only a run that is still behind after that long is reported, and it is then run
// again and must fail again.

const (
	c05DaemonCalls   = 10
	c05DaemonCommits = 4
	c05DaemonWait    = 40 * time.Second
)

type c05DaemonStart struct {
	Name string
	Ops  []string
	// RemoveMeta: the local LTX directory is removed while litestream is down (the start-up path that fetches its
	// baseline from the replica)
	RemoveMeta bool
}

func c05DaemonStarts() []c05DaemonStart {
	return []c05DaemonStart{
		{"replicated-before", []string{"W1", "SW", "W1", "SW", "CL"}, false},
		{"replicated-before+local-state-lost", []string{"W1", "SW", "W1", "SW", "CL"}, true},
	}
}

// c05DaemonRun: one start state, one failing call. reached=false: the process made fewer than k calls.
func c05DaemonRun(st c05DaemonStart, k int) (probs []*scn.Problem, reached bool, point string, herr error) {
	cfg := cfgWith(func(c *scn.Config) { c.L0RetentionNS = int64(1000 * time.Hour) })
	var fc *faultclient.Client
	s, err := scn.New(cfg)
	if err != nil {
		return nil, false, "", err
	}
	defer s.Destroy()
	for _, op := range st.Ops {
		if o := s.Do(op); o.Err != nil {
			return nil, false, "", fmt.Errorf("daemon start state %s: %s: %v", st.Name, op, o.Err)
		}
	}
	if st.RemoveMeta {
		s.Do("RMMETA")
	}
	before := s.RemoteMaxL0()
	s.Cfg.Daemon = true
	s.WrapClient = func(inner litestream.ReplicaClient) litestream.ReplicaClient {
		fc = faultclient.New(inner, map[int]string{k: "transient"})
		return fc
	}
	if o := s.Do("NEW"); o.Err != nil {
		return []*scn.Problem{{Kind: "daemon-start-failed", Detail: o.String()}}, true, "", nil
	}
	// the application commits c05DaemonCommits times; after each commit the monitors alone must catch up
	// (a commit is retried: litestream may hold the write lock for its bookkeeping at that instant)
	caught := true
	for c := 0; c < c05DaemonCommits && caught; c++ {
		wrote := false
		for i := 0; i < 200 && !wrote; i++ {
			if o := s.Do("W1"); o.Err == nil {
				wrote = true
			} else {
				time.Sleep(2 * time.Millisecond)
			}
		}
		if !wrote {
			return nil, false, "", fmt.Errorf("daemon phase: the application could not commit in 200 attempts")
		}
		deadline := time.Now().Add(c05DaemonWait)
		caught = false
		for time.Now().Before(deadline) {
			loc, rem := s.LocalMaxL0(), s.RemoteMaxL0()
			if rem > before && rem >= loc && loc > 0 {
				if pr, _ := s.AckOracle(false); pr == nil {
					caught = true
					before = rem
					break
				}
			}
			time.Sleep(2 * time.Millisecond)
		}
	}
	fc.SetPlan(nil)
	pts := fc.Snapshot()
	if k <= len(pts) {
		reached = true
		point = fmt.Sprintf("#%d %s %s=%s", k, pts[k-1].Kind, pts[k-1].Arg, pts[k-1].Dev)
	}
	if !caught {
		probs = append(probs, &scn.Problem{Kind: "no-catch-up-daemon", Detail: fmt.Sprintf("start %s, failing call %s: %s after the failure the monitors alone did not bring the replica to the local position (local level-0 max %d, replica level-0 max %d, %d storage calls made) [%s]",
			st.Name, point, c05DaemonWait, s.LocalMaxL0(), s.RemoteMaxL0(), len(pts), scn.Shape(s.ReplicaDir))})
	}
	if o := s.Do("CL"); o.Err != nil {
		probs = append(probs, &scn.Problem{Kind: "daemon-close-failed", Detail: o.String()})
	} else if caught {
		// at rest: page-exact restore
		if pr, oerr := s.AckOracle(false); oerr != nil {
			return probs, reached, point, oerr
		} else if pr != nil {
			probs = append(probs, &scn.Problem{Kind: "daemon/" + pr.Kind, Detail: pr.Detail})
		}
	}
	return probs, reached, point, nil
}
