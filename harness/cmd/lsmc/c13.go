package main

import (
	"fmt"
	"strings"
	"time"

	"lsverif/ev"
	"lsverif/refwal"
	"lsverif/scn"
)

func init() { register("c13", c13) }

const c13IdleSyncs = 10

func c13Threshold(c scn.Config) int {
	tr := c.TruncatePageN
	if tr == 0 {
		tr = 121359 // litestream.DefaultTruncatePageN
	}
	if c.MinCheckpointPageN < tr {
		return c.MinCheckpointPageN
	}
	return tr
}

func liveFrames(s *scn.Scn) int {
	wal := s.ReadWAL()
	if len(wal) < refwal.HeaderSize {
		return 0
	}
	r, err := refwal.Decode(wal)
	if err != nil {
		return 0
	}
	// Frames up to the last commit frame: frames of a rolled-back transaction stay physically valid in
	// the file until the next writer overwrites them, but they are not part of the log (SQLite's mxFrame
	// does not include them) and nobody can checkpoint them.
	return r.CommittedFrames
}

// c13Check: (a) after every successful Sync with no pinned application
// transaction/reader, the live WAL generation holds fewer frames than the
// lowest configured threshold plus litestream's bookkeeping frame; (b) k idle
// syncs create at most a small constant number of files and then none.
func c13Check() *HistCheck {
	return &HistCheck{
		ID:    "C13",
		Level: "model_checking",
		AfterOp: func(s *scn.Scn, op string, o scn.Outcome) *scn.Problem {
			if (op != "S" && op != "SW") || o.Err != nil || s.InTx || s.InRd {
				return nil
			}
			n, th := liveFrames(s), c13Threshold(s.Cfg)
			if n >= th+1 {
				return &scn.Problem{Kind: "wal-not-bounded", Detail: fmt.Sprintf("live generation holds %d frames after a successful sync; lowest threshold %d (+1 bookkeeping frame)", n, th)}
			}
			return nil
		},
		Final: func(s *scn.Scn) ([]*scn.Problem, string, error) {
			if !s.LSOpen || s.InTx || s.InRd {
				return nil, "pinned-or-down", nil
			}
			var probs []*scn.Problem
			counts := make([]int, 0, c13IdleSyncs+1)
			counts = append(counts, int(s.LocalMaxL0()))
			for i := 0; i < c13IdleSyncs; i++ {
				o := s.Do("S")
				if o.Err != nil {
					return nil, "idle-sync-failed:" + o.String(), nil
				}
				counts = append(counts, int(s.LocalMaxL0()))
				if n, th := liveFrames(s), c13Threshold(s.Cfg); n >= th+1 {
					probs = append(probs, &scn.Problem{Kind: "wal-not-bounded", Detail: fmt.Sprintf("live generation holds %d frames after idle sync %d; lowest threshold %d", n, i+1, th)})
					break
				}
			}
			total := counts[len(counts)-1] - counts[0]
			tail := 0
			if len(counts) >= 5 {
				tail = counts[len(counts)-1] - counts[len(counts)-5]
			}
			if len(counts) == c13IdleSyncs+1 && (tail > 0 || total > 6) {
				probs = append(probs, &scn.Problem{Kind: "idle-not-silent", Detail: fmt.Sprintf("L0 max TXID across %d idle syncs: %v (last 4 created %d files, total %d)", c13IdleSyncs, counts, tail, total)})
			}
			return probs, fmt.Sprintf("ok/idle-files=%d/frames=%d", total, liveFrames(s)), nil
		},
	}
}

func c13(args []string) int {
	hc := c13Check()
	if p := replayArg(args); p != "" {
		return hc.Replay(p)
	}
	thorough := ev.Tier() == "thorough"
	d := func(q, t int) int {
		if thorough {
			return t
		}
		return q
	}
	alpha := strings.Fields("W1 W3 WN:9 S TXB TXC")
	alphaRd := strings.Fields("W1 W3 S RDB RDE TXB TXR CK:PASSIVE")
	var layers []Layer
	type tup [5]int // min, trunc, ckint, chunk, ps
	var all []tup
	for _, mn := range []int{1, 2, 3, 5} {
		for _, tr := range []int{0, 1, 4, 8} { // 1 = the lowest value the configuration accepts: the bookkeeping frame alone reaches it
			for _, ci := range []int{0, 1} {
				for _, ch := range []int{0, 1, 3} {
					for _, ps := range []int{512, 4096} {
						all = append(all, tup{mn, tr, ci, ch, ps})
					}
				}
			}
		}
	}
	sel := all
	if !thorough {
		// quick: greedy pairwise cover of the 192-configuration product (every pair of values of any two
		// dimensions occurs in at least one selected configuration); thorough: the full product.
		covered := map[[4]int]bool{}
		sel = nil
		for _, t := range all {
			fresh := false
			for i := 0; i < 5; i++ {
				for j := i + 1; j < 5; j++ {
					if !covered[[4]int{i, t[i], j, t[j]}] {
						fresh = true
					}
				}
			}
			// take a configuration only if it covers many new pairs first, then any remaining
			if fresh {
				newPairs := 0
				for i := 0; i < 5; i++ {
					for j := i + 1; j < 5; j++ {
						if !covered[[4]int{i, t[i], j, t[j]}] {
							newPairs++
						}
					}
				}
				if newPairs >= 3 || len(sel) > 14 {
					sel = append(sel, t)
					for i := 0; i < 5; i++ {
						for j := i + 1; j < 5; j++ {
							covered[[4]int{i, t[i], j, t[j]}] = true
						}
					}
				}
			}
		}
		// second pass: anything still uncovered
		for _, t := range all {
			for i := 0; i < 5; i++ {
				for j := i + 1; j < 5; j++ {
					if !covered[[4]int{i, t[i], j, t[j]}] {
						sel = append(sel, t)
						for a := 0; a < 5; a++ {
							for b := a + 1; b < 5; b++ {
								covered[[4]int{a, t[a], b, t[b]}] = true
							}
						}
					}
				}
			}
		}
	}
	for _, t := range sel {
		t := t
		cfg := cfgWith(func(c *scn.Config) {
			c.MinCheckpointPageN, c.TruncatePageN, c.CheckpointInterval, c.MaxSyncWALFrames, c.PageSize = t[0], t[1], int64(t[2]), t[3], t[4]
		})
		name := fmt.Sprintf("exact/min%d-tr%d-ci%d-ch%d-ps%d", t[0], t[1], t[2], t[3], t[4])
		layers = append(layers, Layer{Name: name, Cfg: cfg, Alphabet: alpha, Depth: d(3, 5)})
	}
	// an application write burst in the middle of litestream's own checkpoint (operation LCB), then idle: the
	// burst is shipped by the checkpoint's own copy, so no top-level sync marks the WAL as "synced since checkpoint"
	burst := []Layer{
		{Name: "seeded/min3/burst-in-checkpoint", Cfg: cfgWith(func(c *scn.Config) { c.MinCheckpointPageN = 3 }), Alphabet: strings.Fields("W1 S SW LCB:PASSIVE LCB:PASSIVE:12 LCB:RESTART"), Depth: d(2, 4), Seeds: [][]string{strings.Fields("W3 SW"), strings.Fields("W1 S")}},
		// a snapshot requested before litestream's first sync has initialised the database (start-up snapshot monitor,
		// replicate -force-snapshot): it fails with "not ready" and must leave nothing behind that stops checkpoints
		{Name: "seeded/min3-tr8/snapshot-before-first-sync", Cfg: cfgWith(func(c *scn.Config) { c.MinCheckpointPageN = 3; c.TruncatePageN = 8 }), Alphabet: strings.Fields("FSNAP W3 WN:9 S W1"), Depth: d(3, 4),
			Seeds: [][]string{strings.Fields("FSNAP"), strings.Fields("W1 FSNAP")}},
		{Name: "seeded/min5-tr8/burst-in-checkpoint", Cfg: cfgWith(func(c *scn.Config) { c.MinCheckpointPageN = 5; c.TruncatePageN = 8 }), Alphabet: strings.Fields("W1 S SW LCB:PASSIVE LCB:PASSIVE:12"), Depth: d(2, 3), Seeds: [][]string{strings.Fields("W3 SW")}},
	}
	// a snapshot (or sync) whose upload fails, then ordinary writes: whatever the failed operation held must have
	// been released, or every later checkpoint is skipped and the WAL grows (operation RF: one-shot upload failure)
	rfCfg := cfgWith(func(c *scn.Config) { c.MinCheckpointPageN = 3; c.TruncatePageN = 12; c.ReplicaFaults = true })
	burst = append(burst, Layer{Name: "seeded/min3-tr12/failed-upload-then-writes", Cfg: rfCfg, Alphabet: strings.Fields("FSNAP SNAP SW S W1 W3"), Depth: d(3, 4),
		Seeds: [][]string{strings.Fields("W3 SW RF:before"), strings.Fields("W3 SW RF:mid"), strings.Fields("W3 SW W1 RF:mid")}})
	layers = append(burst, layers...)
	layers = append(layers,
		Layer{Name: "exact/readers/min2", Cfg: cfgWith(func(c *scn.Config) { c.MinCheckpointPageN = 2; c.TruncatePageN = 6 }), Alphabet: alphaRd, Depth: d(4, 6)},
		Layer{Name: "merged/min3-tr8-ci1", Cfg: cfgWith(func(c *scn.Config) { c.MinCheckpointPageN = 3; c.TruncatePageN = 8; c.CheckpointInterval = 1 }), Alphabet: strings.Fields("W1 W3 WN:9 U D S SW TXB TXC TXR RDB RDE LC:PASSIVE CK:PASSIVE"), Depth: d(6, 10), Merge: true, MaxRuns: int64(d(1500, 60000))},
	)
	return hc.RunLayers(layers, ev.Budget(100*time.Second, 40*time.Minute),
		[]string{
			"live-generation frames are counted from the -wal file by a from-spec decoder, independent of litestream's bookkeeping",
			"'small constant' for the idle phase is taken as 6 files in 10 idle syncs with none in the last 4 (a feedback loop creates one per sync)",
			"time-based checkpoints are decided by configuration: CheckpointInterval 0 (never) or 1ns (always if eligible)",
		},
		fmt.Sprintf("every write/sync history over the layer alphabet up to the layer depth, for a covering set of (MinCheckpointPageN, TruncatePageN, CheckpointInterval, MaxSyncWALBytes, page size) configurations (quick: pairwise cover; thorough: full product), each followed by %d idle syncs; oracle after every successful sync with nothing pinned: valid frames of the live WAL generation < lowest threshold + 1; idle phase: last 4 syncs create no file, total <= 6", c13IdleSyncs))
}
