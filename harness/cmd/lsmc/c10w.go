package main

import (
	"bufio"
	"encoding/json"
	"fmt"
	"io"
	"os"
	"os/exec"
	"path/filepath"
	"strconv"
	"strings"
	"sync"
	"time"

	"lsverif/ev"
	"lsverif/scn"
)

// Restores of corrupted input run in worker subprocesses: a panic inside the
// restore pipeline's own goroutine cannot be recovered in-process, and the
// check must survive it to classify it ("restore crashes the process").

func init() { register("c10worker", c10Worker) }

type c10Reply struct {
	Outcome string `json:"outcome"`
	Kind    string `json:"kind,omitempty"`
	Detail  string `json:"detail,omitempty"`
	Desc    string `json:"desc"`
	Herr    string `json:"herr,omitempty"`
}

func c10SaveReps(root string, reps []*c10Replica) error {
	b, err := json.Marshal(reps)
	if err != nil {
		return err
	}
	return os.WriteFile(filepath.Join(root, "reps.json"), b, 0o644)
}

func c10Worker(args []string) int {
	root, thorough, work := args[0], args[1] == "thorough", args[2]
	b, err := os.ReadFile(filepath.Join(root, "reps.json"))
	if err != nil {
		fmt.Fprintln(os.Stderr, err)
		return 2
	}
	var reps []*c10Replica
	if err := json.Unmarshal(b, &reps); err != nil {
		fmt.Fprintln(os.Stderr, err)
		return 2
	}
	jobs := c10Jobs(reps, thorough)
	os.MkdirAll(work, 0o755)
	out := bufio.NewWriter(os.Stdout)
	in := bufio.NewScanner(os.Stdin)
	for in.Scan() {
		i, err := strconv.Atoi(strings.TrimSpace(in.Text()))
		if err != nil || i < 0 || i >= len(jobs) {
			return 2
		}
		outcome, prob, desc, herr := c10Exec(jobs[i], work)
		r := c10Reply{Outcome: outcome, Desc: desc}
		if prob != nil {
			r.Kind, r.Detail = prob.Kind, prob.Detail
		}
		if herr != nil {
			r.Herr = herr.Error()
		}
		jb, _ := json.Marshal(r)
		out.Write(jb)
		out.WriteByte('\n')
		out.Flush()
	}
	return 0
}

type c10Proc struct {
	cmd    *exec.Cmd
	stdin  io.WriteCloser
	stdout *bufio.Reader
	stderr *strings.Builder
}

var (
	c10Procs   = map[int]*c10Proc{}
	c10ProcsMu sync.Mutex
	c10Root    string
)

func c10Start(w int, work string) (*c10Proc, error) {
	// Address-space limit: a corrupted size field can make the LTX decoder ask for gigabytes; with the limit
	// the Go runtime dies at once with "fatal error: out of memory" instead of exhausting the machine.
	cmd := exec.Command("bash", "-c", `ulimit -v 2200000; exec "$0" "$@"`, selfExe(), "c10worker", c10Root, ev.Tier(), work)
	cmd.Env = append(os.Environ(), "GOMAXPROCS=2")
	stdin, err := cmd.StdinPipe()
	if err != nil {
		return nil, err
	}
	stdout, err := cmd.StdoutPipe()
	if err != nil {
		return nil, err
	}
	var eb strings.Builder
	cmd.Stderr = &eb
	if err := cmd.Start(); err != nil {
		return nil, err
	}
	return &c10Proc{cmd: cmd, stdin: stdin, stdout: bufio.NewReader(stdout), stderr: &eb}, nil
}

// c10Dispatch sends job i to worker w's subprocess; a dead subprocess is a classified outcome, not a harness failure.
func c10Dispatch(w, i int, j c10Job, work string) (outcome string, prob *scn.Problem, desc string, herr error) {
	c10ProcsMu.Lock()
	p := c10Procs[w]
	c10ProcsMu.Unlock()
	if p == nil {
		var err error
		p, err = c10Start(w, work)
		if err != nil {
			return "", nil, "", err
		}
		c10ProcsMu.Lock()
		c10Procs[w] = p
		c10ProcsMu.Unlock()
	}
	t0 := time.Now()
	fmt.Fprintf(p.stdin, "%d\n", i)
	type rd struct {
		line string
		err  error
	}
	ch := make(chan rd, 1)
	go func() {
		l, e := p.stdout.ReadString('\n')
		ch <- rd{l, e}
	}()
	var line string
	var err error
	hung := false
	select {
	case r := <-ch:
		line, err = r.line, r.err
	case <-time.After(120 * time.Second):
		hung = true
		p.cmd.Process.Kill()
		r := <-ch
		line, err = r.line, r.err
	}
	if d := time.Since(t0); d > 3*time.Second {
		f := j.r.Plan[j.fi]
		fmt.Fprintf(os.Stderr, "[C10] slow job (%.1fs): %s %s %s arg=%d rep=%d\n", d.Seconds(), j.r.Name, j.kind, f, j.arg, j.rep)
	}
	if err != nil {
		p.cmd.Wait()
		c10ProcsMu.Lock()
		delete(c10Procs, w)
		c10ProcsMu.Unlock()
		msg := p.stderr.String()
		first := msg
		if k := strings.Index(msg, "\n"); k > 0 {
			first = msg[:k]
		}
		where := ""
		for _, l := range strings.Split(msg, "\n") {
			if strings.Contains(l, "superfly/ltx") || strings.Contains(l, "litestream.(") {
				where = strings.TrimSpace(l)
				break
			}
		}
		f := j.r.Plan[j.fi]
		desc = fmt.Sprintf("%s %s arg=%d rep=%d", j.kind, f, j.arg, j.rep)
		// remove what the dead process left behind; a file at the OUTPUT path itself is a violation
		ents, _ := os.ReadDir(work)
		leftOutput := ""
		for _, e := range ents {
			if strings.HasPrefix(e.Name(), "out-") {
				if !strings.HasSuffix(e.Name(), ".tmp") && !strings.HasSuffix(e.Name(), "-wal") && !strings.HasSuffix(e.Name(), "-shm") {
					leftOutput = e.Name()
				}
				os.Remove(filepath.Join(work, e.Name()))
			}
		}
		if hung {
			// Inconclusive, not a violation: a corrupted size field can make the decoder allocate and clear up to
			// 2 GiB before it fails, which in this sandbox (very slow page faults) can exceed the watchdog.
			return "inconclusive:killed-after-120s", nil, desc, nil
		}
		if leftOutput != "" {
			return "", &scn.Problem{Kind: "output-left-after-crash", Detail: "the restoring process crashed (" + first + ") and left a file at the output path"}, desc, nil
		}
		if !strings.Contains(msg, "panic") && !strings.Contains(msg, "fatal error") {
			return "", nil, desc, fmt.Errorf("c10 worker died without a panic during %s: state=%v readerr=%v stderr=%q", desc, p.cmd.ProcessState, err, msg)
		}
		// A crash of the restoring process is a loud failure: no database is produced under the output path and
		// nothing reports success. It is an allowed outcome of C10 (recorded as its own outcome class), provided
		// the output path does not exist afterwards.
		cls := "process-crash:" + crashClass(first+" "+where)
		return cls, nil, desc, nil
	}
	var r c10Reply
	if err := json.Unmarshal([]byte(line), &r); err != nil {
		return "", nil, "", err
	}
	if r.Herr != "" {
		return "", nil, r.Desc, fmt.Errorf("%s", r.Herr)
	}
	if r.Kind != "" {
		prob = &scn.Problem{Kind: r.Kind, Detail: r.Detail}
	}
	return r.Outcome, prob, r.Desc, nil
}

func c10StopAll() {
	c10ProcsMu.Lock()
	defer c10ProcsMu.Unlock()
	for w, p := range c10Procs {
		p.stdin.Close()
		p.cmd.Wait()
		delete(c10Procs, w)
	}
}

func crashClass(msg string) string {
	switch {
	case strings.Contains(msg, "out of memory") || strings.Contains(msg, "cannot allocate"):
		return "out-of-memory"
	case strings.Contains(msg, "slice bounds out of range"):
		return "slice-bounds"
	case strings.Contains(msg, "index out of range"):
		return "index-range"
	case strings.Contains(msg, "makeslice"):
		return "makeslice"
	}
	if len(msg) > 50 {
		msg = msg[:50]
	}
	return msg
}
