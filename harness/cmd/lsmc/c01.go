package main

import (
	"fmt"
	"strings"
	"time"

	"lsverif/ev"
	"lsverif/scn"
)

func init() { register("c01", c01) }

var (
	alphaCore  = strings.Fields("W1 W3 U D CK:PASSIVE CK:FULL CK:RESTART CK:TRUNCATE S SW LC:PASSIVE LC:TRUNCATE")
	alphaTx    = strings.Fields("W1 TXB TXC TXR RDB RDE S SW LC:PASSIVE LC:TRUNCATE CK:TRUNCATE CK:RESTART")
	alphaShape = strings.Fields("W3 D VAC IVAC DDL S SW LC:TRUNCATE CK:TRUNCATE CK:PASSIVE")
	alphaLife  = strings.Fields("W1 W3 SW CL START CC CO CK:TRUNCATE RS S")
	alphaWide  = strings.Fields("W1 W3 U D DDL VAC IVAC TXB TXC TXR RDB RDE CK:PASSIVE CK:FULL CK:RESTART CK:TRUNCATE CC CO S RS SW SD LC:PASSIVE LC:FULL LC:RESTART LC:TRUNCATE CL START")
)

func cfgWith(f func(c *scn.Config)) scn.Config {
	c := scn.DefaultConfig()
	f(&c)
	return c
}

// c01Configs is the configuration set: each dimension the sync/checkpoint
// mechanism reads takes each of its values at least once, pairwise with page size.
func c01Configs() map[string]scn.Config {
	return map[string]scn.Config{
		"base":    scn.DefaultConfig(),
		"ps4096":  cfgWith(func(c *scn.Config) { c.PageSize = 4096 }),
		"min3":    cfgWith(func(c *scn.Config) { c.MinCheckpointPageN = 3; c.TruncatePageN = 8 }),
		"min3-4k": cfgWith(func(c *scn.Config) { c.MinCheckpointPageN = 3; c.TruncatePageN = 8; c.PageSize = 4096 }),
		"trunc4":  cfgWith(func(c *scn.Config) { c.MinCheckpointPageN = 1000; c.TruncatePageN = 4 }),
		"ckint":   cfgWith(func(c *scn.Config) { c.CheckpointInterval = 1 }),
		"chunk1":  cfgWith(func(c *scn.Config) { c.MaxSyncWALFrames = 1 }),
		"chunk3":  cfgWith(func(c *scn.Config) { c.MaxSyncWALFrames = 3; c.MinCheckpointPageN = 5 }),
		"avincr":  cfgWith(func(c *scn.Config) { c.AutoVacuum = "INCREMENTAL" }),
		"avfull":  cfgWith(func(c *scn.Config) { c.AutoVacuum = "FULL" }),
		"nostore": cfgWith(func(c *scn.Config) { c.UseStore = false }),
		"ltx1":    cfgWith(func(c *scn.Config) { c.MaxSyncLTXFiles = 1 }),
		"ps1024":  cfgWith(func(c *scn.Config) { c.PageSize = 1024 }),
		"ps2048":  cfgWith(func(c *scn.Config) { c.PageSize = 2048; c.MinCheckpointPageN = 4 }),
		"ps8192":  cfgWith(func(c *scn.Config) { c.PageSize = 8192 }),
		"ps16384": cfgWith(func(c *scn.Config) { c.PageSize = 16384; c.MinCheckpointPageN = 3 }),
		"ps32768": cfgWith(func(c *scn.Config) { c.PageSize = 32768 }),
		"ps65536": cfgWith(func(c *scn.Config) { c.PageSize = 65536; c.MinCheckpointPageN = 3 }),
	}
}

// c01Seeds are prefixes that reach the non-initial states verify() distinguishes.
func c01Seeds() [][]string {
	raw := []string{
		"W1 SW",                             // cursor at WAL end
		"W1 SW W1",                          // cursor mid-WAL, unsynced frame behind it
		"W3 SW LC:PASSIVE",                  // WAL restarted by litestream, bookkeeping frame
		"W3 SW LC:TRUNCATE",                 // WAL truncated, boundary snapshot
		"W3 SW CK:RESTART W1",               // app restart, new generation shorter than old
		"W1 SW CK:RESTART W3 W3",            // app restart, new generation longer than old
		"W3 W3 SW CK:TRUNCATE",              // app truncate, wal empty
		"W3 W3 SW CK:TRUNCATE W1",           // app truncate then shorter wal
		"W1 SW TXB",                         // uncommitted spill at the tail
		"W1 SW TXB S TXR",                   // rolled-back spill frames left in the wal
		"W3 W3 SW D SW",                     // freelist non-empty
		"W3 W3 SW D VAC",                    // database shrunk below the previous commit, unsynced
		"W1 SW RDB W1 CK:FULL",              // reader pins an old snapshot
		"W3 SW LC:PASSIVE W1 SW LC:PASSIVE", // two generations of stale frames
		"W1 S W1 S W1",                      // local ahead of remote
		"W1 SW CL",                          // litestream closed cleanly
		"W1 SW CL W1 CK:TRUNCATE",           // stopped, app truncated meanwhile
	}
	var out [][]string
	for _, r := range raw {
		out = append(out, strings.Fields(r))
	}
	return out
}

func c01Outcome(s *scn.Scn) string {
	w := scn.WALShapeOf(s.ReadWAL(), s.Cfg.PageSize)
	cls := func(n int) string {
		switch {
		case n == 0:
			return "0"
		case n == 1:
			return "1"
		case n <= 4:
			return "few"
		}
		return "many"
	}
	hdr, ok := s.L0Header()
	snap := "-"
	if ok {
		if hdr.IsSnapshot() {
			snap = "snap"
		} else {
			snap = "incr"
		}
	}
	return fmt.Sprintf("ok/l0=%s/last=%s/wal=%s,stale=%d,unc=%v", cls(int(s.LocalMaxL0())), snap, cls(w.CommittedFrames), w.StaleSalts, w.Uncommitted)
}

func c01Check(cross bool) *HistCheck {
	return &HistCheck{
		ID:    "C01",
		Level: "model_checking",
		// Every acknowledgement is judged where it is given. A history that ends in SW or CL is judged by Final (every
		// prefix is a history of its own); an acknowledged `sync -wait` through the Store (SD) in the middle or at the
		// end of a history would be repaired by the closing SyncAndWait of Final, so it is judged here.
		AfterOp: func(s *scn.Scn, op string, o scn.Outcome) *scn.Problem {
			if op != "SD" || !o.Ack {
				return nil
			}
			p, err := s.AckOracle(false)
			if err != nil {
				return &scn.Problem{Kind: "harness", Detail: err.Error()}
			}
			if p != nil {
				p.Kind = "store-sync-wait/" + p.Kind
			}
			return p
		},
		Final: func(s *scn.Scn) ([]*scn.Problem, string, error) {
			if s.LSOpen {
				o := s.Do("SW")
				if !o.Ack {
					return nil, "final-sw-failed:" + o.String(), nil
				}
			} else if n := len(s.Trace); n == 0 || !strings.HasSuffix(s.Trace[n-1], "=ack") {
				return nil, "closed-without-ack", nil
			}
			p, err := s.AckOracle(cross)
			if err != nil {
				return nil, "", err
			}
			if p != nil {
				return []*scn.Problem{p}, "", nil
			}
			return nil, c01Outcome(s), nil
		},
	}
}

func c01(args []string) int {
	hc := c01Check(true)
	if p := replayArg(args); p != "" {
		return hc.Replay(p)
	}
	cfgs := c01Configs()
	if h := histArg(args); h != nil {
		hc.rep = ev.NewReporter("C01")
		for name, c := range cfgs {
			legal, probs, outcome, _, _, err := hc.exec(c, h)
			fmt.Println(name, legal, probs, outcome, err)
		}
		return 0
	}
	var layers []Layer
	thorough := ev.Tier() == "thorough"
	d := func(q, t int) int {
		if thorough {
			return t
		}
		return q
	}
	// Run-capped layers first: the time they do not use is inherited by the layers after them.
	// Every page size with the core alphabet.
	for _, n := range []string{"ps1024", "ps2048", "ps4096", "ps8192", "ps16384", "ps32768", "ps65536"} {
		layers = append(layers, Layer{Name: "exact/" + n + "/core", Cfg: cfgs[n], Alphabet: alphaCore, Depth: d(2, 3), MaxRuns: int64(d(80, 0))})
	}
	// Layer 1: exact bounded search from the initial state.
	layers = append(layers,
		Layer{Name: "seeded/base/down-after-own-checkpoint", Cfg: cfgs["base"], Alphabet: strings.Fields("U CK:PASSIVE CK:TRUNCATE START NEW"), Depth: d(3, 5),
			Seeds: [][]string{strings.Fields("W3 SW LC:PASSIVE SW CL"), strings.Fields("W3 SW LC:TRUNCATE SW CL"), strings.Fields("W3 SW LC:PASSIVE SW KILL")}},
		// litestream is down while the application commits a short tail behind the synced position, checkpoints it and
		// restarts the WAL with a page the tail did not touch: the tail exists only in the database file
		Layer{Name: "seeded/base/tail-hidden-by-restart-while-down", Cfg: cfgs["base"], Alphabet: strings.Fields("U W1 CK:PASSIVE START NEW"), Depth: d(3, 4),
			Seeds: [][]string{strings.Fields("W3 SW CL U CK:PASSIVE"), strings.Fields("W3 SW KILL U CK:PASSIVE"), strings.Fields("W3 SW CL W1 CK:PASSIVE")}},
		// an application commit landing in the middle of a sync (SCW: after the sync measured the WAL, before it
		// finished), followed by checkpoints that truncate or restart the WAL behind that commit
		Layer{Name: "seeded/base/commit-during-sync", Cfg: cfgs["base"], Alphabet: strings.Fields("SCW W1 U S LC:TRUNCATE LC:PASSIVE"), Depth: d(3, 4),
			Seeds: [][]string{strings.Fields("W3 SW W1"), strings.Fields("W3 SW W3 S W1")}},
		// the same commit landing inside litestream's own checkpoint, whose second file then cannot be staged (LCF):
		// the WAL was truncated / restarted, the bookkeeping for it was not written
		Layer{Name: "seeded/base/commit-during-failing-checkpoint", Cfg: cfgs["base"], Alphabet: strings.Fields("LCF:TRUNCATE LCF:RESTART LCF:PASSIVE W1 U S"), Depth: d(2, 3),
			Seeds: [][]string{strings.Fields("W3 SW W3"), strings.Fields("W3 SW W1"), strings.Fields("W3 SW W3 S W1")}},
		// the Store-level wrapper behind the `sync -wait` request (SD) against syncs that already copied the WAL locally
		Layer{Name: "seeded/base/store-sync-wait", Cfg: cfgs["base"], Alphabet: strings.Fields("SD W1 S RS LC:PASSIVE"), Depth: d(2, 4),
			Seeds: [][]string{strings.Fields("W1 S"), strings.Fields("W1 SD W1 S"), strings.Fields("W3 SW U S")}},
		Layer{Name: "exact/base/core", Cfg: cfgs["base"], Alphabet: alphaCore, Depth: d(3, 5)},
		Layer{Name: "exact/min3/core", Cfg: cfgs["min3"], Alphabet: alphaCore, Depth: d(3, 4)},
		Layer{Name: "exact/base/tx", Cfg: cfgs["base"], Alphabet: alphaTx, Depth: d(3, 5)},
		Layer{Name: "exact/avincr/shape", Cfg: cfgs["avincr"], Alphabet: alphaShape, Depth: d(3, 4)},
		Layer{Name: "exact/base/life", Cfg: cfgs["base"], Alphabet: alphaLife, Depth: d(3, 5)},
		// clean shutdown with a multi-transaction backlog under a sync byte budget (Close must flush everything)
		Layer{Name: "seeded/chunk1/close-backlog", Cfg: cfgs["chunk1"], Alphabet: strings.Fields("W1 W3 U S CL"), Depth: d(3, 5),
			Seeds: [][]string{strings.Fields("S"), strings.Fields("W1 SW")}},
		Layer{Name: "exact/chunk1/close-backlog", Cfg: cfgs["chunk1"], Alphabet: strings.Fields("W1 W3 U S SW CL START"), Depth: d(3, 6)},
		Layer{Name: "exact/chunk1/core", Cfg: cfgs["chunk1"], Alphabet: alphaCore, Depth: d(2, 4)},
		Layer{Name: "exact/trunc4/core", Cfg: cfgs["trunc4"], Alphabet: alphaCore, Depth: d(2, 4)},
		Layer{Name: "exact/ckint/core", Cfg: cfgs["ckint"], Alphabet: alphaCore, Depth: d(2, 4)},
	)
	// Layer 2: exact search from seed prefixes.
	layers = append(layers,
		Layer{Name: "seeded/base/core", Cfg: cfgs["base"], Alphabet: alphaCore, Depth: d(2, 3), Seeds: c01Seeds()},
		Layer{Name: "seeded/min3/tx", Cfg: cfgs["min3"], Alphabet: alphaTx, Depth: d(1, 3), Seeds: c01Seeds()},
		Layer{Name: "seeded/avfull/shape", Cfg: cfgs["avfull"], Alphabet: alphaShape, Depth: d(1, 3), Seeds: c01Seeds()},
		Layer{Name: "seeded/chunk3/core", Cfg: cfgs["chunk3"], Alphabet: alphaCore, Depth: d(1, 3), Seeds: c01Seeds()},
		Layer{Name: "seeded/nostore/life", Cfg: cfgs["nostore"], Alphabet: alphaLife, Depth: d(1, 3), Seeds: c01Seeds()},
		// upload batches limited to one file per round (the monitor's MaxSyncLTXFiles path): RSL = limited Replica sync
		Layer{Name: "seeded/ltx1/batched-upload", Cfg: cfgs["ltx1"], Alphabet: strings.Fields("W1 S S RSL SW LC:PASSIVE"), Depth: d(2, 4), Seeds: [][]string{strings.Fields("W1 S W1 S W1 S"), strings.Fields("W3 S LC:TRUNCATE W1 S")}},
	)
	// Layer 3: merged deep search over the wide alphabet.
	layers = append(layers,
		Layer{Name: "merged/base/wide", Cfg: cfgs["base"], Alphabet: alphaWide, Depth: d(8, 14), Merge: true, MaxRuns: int64(d(2500, 150000))},
		Layer{Name: "merged/min3/wide", Cfg: cfgs["min3-4k"], Alphabet: alphaWide, Depth: d(8, 14), Merge: true, MaxRuns: int64(d(1500, 100000))},
	)
	return hc.RunLayers(layers, ev.Budget(110*time.Second, 45*time.Minute),
		[]string{
			"file replica backend only; backends' own write atomicity is outside the property's anchors",
			"databases of tens of pages; histories bounded as listed per layer",
			"monitors are off: each step a monitor would take is an explicit operation",
			"the harness's fast source-state model (db file + committed WAL frames by a from-spec decoder) is cross-checked against real SQLite (copy + wal_checkpoint(TRUNCATE)) at every acknowledged instant",
		},
		"every operation history over the layer's alphabet up to the layer's depth (exact layers: no merging; merged layers: each canonical state key expanded once), executed on the real litestream packages from a fresh database; each history is closed by an implicit SyncAndWait and the page-exact restore oracle; distinct = distinct (L0 count class, last L0 kind, WAL shape) outcome classes")
}
