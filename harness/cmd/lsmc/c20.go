package main

// C20 — "At most one instance holds an unexpired replica lease".
//
// The real s3.Leaser (unmodified) runs against fakes3 (in-memory store with exact
// conditional-write semantics). Every client is a cooperative thread (package sched)
// that yields before each storage request; the explorer enumerates ALL interleavings
// of those requests (no preemption bound) by stateless DFS with replay-from-start
// and a visited set keyed by a canonical state.

import (
	"context"
	"encoding/json"
	"errors"
	"fmt"
	"log/slog"
	"math/rand"
	"os"
	"sort"
	"strings"
	"sync"
	"sync/atomic"
	"time"

	"github.com/benbjohnson/litestream"
	lss3 "github.com/benbjohnson/litestream/s3"

	"lsverif/ev"
	"lsverif/fakes3"
	"lsverif/sched"
	"lsverif/vclock"
)

func init() { register("c20", c20) }

const (
	c20Bucket  = "bkt"
	c20Path    = "lease"
	c20LockKey = c20Path + "/" + lss3.DefaultLeasePath
)

// ---------------------------------------------------------------- scenarios

// c20Scenario: per client an operation list over {acq, ren, rel} and a TTL sign
// (true: +1h, lease live for the whole execution; false: -1h, lease born expired).
type c20Scenario struct {
	Ops  [][]string `json:"ops"`
	Live []bool     `json:"ttl_live"`
	// Near: the magnitude of the client's TTL is 500 ms instead of 1 h (a lease about to expire / just expired).
	// Only used while the clock is frozen (vclock), so that such a lease keeps its sign for the whole execution.
	Near []bool `json:"ttl_near,omitempty"`
	// Flip (only with Live=false): the client's ACQUIRE uses the negative TTL (its lease has expired since it was
	// acquired) and its RENEW a positive one of the same magnitude (a renew issued now asks for a fresh TTL).
	Flip []bool `json:"ttl_renew_live,omitempty"`
}

func (s *c20Scenario) near(i int) bool { return i < len(s.Near) && s.Near[i] }
func (s *c20Scenario) flip(i int) bool { return i < len(s.Flip) && s.Flip[i] && !s.Live[i] }

// liveFor: is the record written by a successful op of this kind by client i unexpired?
func (s *c20Scenario) liveFor(i int, kind string) bool {
	return s.Live[i] || (kind == "ren" && s.flip(i))
}

// ttlFor is the TTL the client's leaser is given for an operation of this kind.
func (s *c20Scenario) ttlFor(i int, kind string) time.Duration {
	d := time.Hour
	if s.near(i) {
		d = 500 * time.Millisecond
	}
	if !s.liveFor(i, kind) {
		d = -d
	}
	return d
}

func c20Name(i int) string { return string(rune('A' + i)) }

// String is the canonical compact form, e.g. "A:acq,rel;B:acq|ttl=+,+".
func (s *c20Scenario) String() string {
	var cl, tt []string
	for i, ops := range s.Ops {
		cl = append(cl, c20Name(i)+":"+strings.Join(ops, ","))
		t := "-"
		if s.Live[i] {
			t = "+"
		}
		if s.near(i) {
			t += "500ms"
		}
		if s.flip(i) {
			t += ">renew+"
		}
		tt = append(tt, t)
	}
	return strings.Join(cl, ";") + "|ttl=" + strings.Join(tt, ",")
}

// c20Lists returns every operation list of length 1..maxLen that starts with acq.
// (A renew/release before the client's first acquire has no lease to act on and is
// dropped, so a list not starting with acq equals a shorter list that does.)
func c20Lists(maxLen int) [][]string {
	var out [][]string
	var rec func(cur []string)
	rec = func(cur []string) {
		if len(cur) >= 1 {
			out = append(out, append([]string(nil), cur...))
		}
		if len(cur) == maxLen {
			return
		}
		for _, op := range []string{"acq", "ren", "rel"} {
			rec(append(cur, op))
		}
	}
	rec([]string{"acq"})
	return out
}

// c20Scenarios: nClients × lists ≤ maxLen × TTL signs; keep only scenarios whose
// longest list is ≥ minLongest (to not repeat a smaller group).
func c20Scenarios(nClients, maxLen, minLongest int) []*c20Scenario {
	return c20ScenariosTTL(nClients, maxLen, minLongest, false)
}

// c20ScenariosTTL with near: every client's TTL is +500 ms or -500 ms instead of +1 h / -1 h.
func c20ScenariosTTL(nClients, maxLen, minLongest int, near bool) []*c20Scenario {
	lists := c20Lists(maxLen)
	type cl struct {
		ops  []string
		live bool
	}
	var per []cl
	for _, l := range lists {
		per = append(per, cl{l, true}, cl{l, false})
	}
	var out []*c20Scenario
	idx := make([]int, nClients)
	for {
		sc := &c20Scenario{}
		longest := 0
		for _, k := range idx {
			sc.Ops = append(sc.Ops, per[k].ops)
			sc.Live = append(sc.Live, per[k].live)
			if near {
				sc.Near = append(sc.Near, true)
			}
			if len(per[k].ops) > longest {
				longest = len(per[k].ops)
			}
		}
		if longest >= minLongest {
			out = append(out, sc)
		}
		i := nClients - 1
		for ; i >= 0; i-- {
			idx[i]++
			if idx[i] < len(per) {
				break
			}
			idx[i] = 0
		}
		if i < 0 {
			break
		}
	}
	return out
}

// c20ScenariosFlip: the scenarios in which some client whose lease is born expired also renews, with that client's
// renew asking for a live TTL ("the lease has expired since it was acquired").
func c20ScenariosFlip(nClients, maxLen int, near bool) []*c20Scenario {
	var out []*c20Scenario
	for _, b := range c20ScenariosTTL(nClients, maxLen, 1, near) {
		use := false
		for i := range b.Ops {
			if !b.Live[i] {
				for _, op := range b.Ops[i] {
					if op == "ren" {
						use = true
					}
				}
			}
		}
		if !use {
			continue
		}
		sc := &c20Scenario{Ops: b.Ops, Live: b.Live, Near: b.Near}
		for i := range b.Ops {
			sc.Flip = append(sc.Flip, !b.Live[i])
		}
		out = append(out, sc)
	}
	return out
}

// ---------------------------------------------------------------- one execution

type c20Resp struct {
	Op      string // GET / PUT / DELETE
	Status  int
	ETag    string
	Owner   string // GET 200: decoded record
	Gen     int64
	Expired bool
}

type c20OpRec struct {
	ID     int // client*16 + idx
	Client int
	Idx    int
	Kind   string // acq / ren / rel
	Arg    int    // ID of the op that produced the lease passed in (ren/rel), else -1
	First  int    // step number of first storage request (-1: none yet)
	Last   int    // step number of latest storage request
	Done   bool
	Class  string // ok / exists / notheld / already / err / panic / skip
	Result string // detailed, e.g. ok:g2, exists(B)
	Gen    int64
	Resps  []c20Resp
	Mut    bool // some request of this op changed the store
}

type c20Client struct {
	id     int
	ops    []string
	live   bool
	leaser *lss3.Leaser
	th     *sched.Thread
	yield  func(any)
	recs   []*c20OpRec
	cur    *c20OpRec

	lease     *litestream.Lease // last lease obtained (possibly stale)
	leaseFrom int
	has       bool // last successful acquire/renew not followed by a successful release
	takenOver bool // another client's acquire succeeded after our last successful acquire/renew
}

// holdsNow: the client believes it holds the lease: it obtained one (and has not released it) and the lease object it
// keeps says it has not expired yet. Expiry is read from that object, not from the scenario's TTL class: a library
// that rewrites the caller's lease object changes what the caller believes.
func (c *c20Client) holdsNow() bool {
	return c.has && c.lease != nil && vclock.Now().Before(c.lease.ExpiresAt)
}

type c20Viol struct {
	Kind  string
	Class string
	Step  int // number of steps executed when detected (schedule prefix length)
	Msg   string
}

type c20Lease struct {
	Owner   string
	Gen     int64
	Expired bool
}

type c20Exec struct {
	sc      *c20Scenario
	store   *fakes3.Store
	cl      []*c20Client
	nstep   int
	trace   []string // filled only if tracing
	tracing bool
	viols   []c20Viol
	parsed  map[string]c20Lease // by etag

	// I3 monitor
	haveAcq    bool
	lastAcqGen int64
	lastAcqBy  int
	relSince   bool // a release succeeded since the last successful acquire
}

var c20DiscardLog = slog.New(slog.DiscardHandler)

func c20NewExec(sc *c20Scenario, tracing bool) *c20Exec {
	e := &c20Exec{sc: sc, store: fakes3.NewStore(c20Bucket), tracing: tracing, parsed: map[string]c20Lease{}}
	for i := range sc.Ops {
		c := &c20Client{id: i, ops: sc.Ops[i], live: sc.Live[i], leaseFrom: -1}
		l := lss3.NewLeaser()
		l.SetLogger(c20DiscardLog)
		l.Bucket, l.Path, l.Owner = c20Bucket, c20Path, c20Name(i)
		l.TTL = time.Hour
		if sc.near(i) {
			l.TTL = 500 * time.Millisecond
		}
		if !c.live {
			l.TTL = -l.TTL
		}
		l.SetClient(&fakes3.Client{
			S:      e.store,
			Before: func(r *fakes3.Request) { c.yield(r) }, // the only scheduling point
			After:  func(r *fakes3.Request) { e.onRequest(c, r) },
		})
		c.leaser = l
		e.cl = append(e.cl, c)
	}
	for _, c := range e.cl {
		c := c
		c.th = sched.Spawn(func(yield func(any)) { e.body(c, yield) })
	}
	return e
}

func (e *c20Exec) kill() {
	for _, c := range e.cl {
		c.th.Kill()
	}
}

func (e *c20Exec) enabled() []int {
	var out []int
	for _, c := range e.cl {
		if !c.th.Done {
			out = append(out, c.id)
		}
	}
	return out
}

func (e *c20Exec) step(c int) { e.cl[c].th.Step() }

func (e *c20Exec) tracef(f string, a ...any) {
	if e.tracing {
		e.trace = append(e.trace, fmt.Sprintf(f, a...))
	}
}

func (e *c20Exec) violate(kind, class, f string, a ...any) {
	e.viols = append(e.viols, c20Viol{Kind: kind, Class: class, Step: e.nstep, Msg: fmt.Sprintf(f, a...)})
	e.tracef("      !! %s [%s]: %s", kind, class, fmt.Sprintf(f, a...))
}

func (e *c20Exec) body(c *c20Client, yield func(any)) {
	c.yield = yield
	ctx := context.Background()
	for i, op := range c.ops {
		rec := &c20OpRec{ID: c.id*16 + i, Client: c.id, Idx: i, Kind: op, Arg: -1, First: -1, Last: -1}
		c.recs = append(c.recs, rec)
		c.cur = rec
		e.runOp(ctx, c, rec)
	}
	c.cur = nil
}

func c20ShortErr(err error) string {
	s := err.Error()
	if len(s) > 60 {
		s = s[:60]
	}
	return s
}

func (e *c20Exec) runOp(ctx context.Context, c *c20Client, rec *c20OpRec) {
	defer func() {
		if r := recover(); r != nil {
			if sched.IsKilled(r) {
				panic(r)
			}
			rec.Class, rec.Result = "panic", fmt.Sprintf("panic:%v", r)
			e.violate("panic", rec.Kind, "%s.%s panicked: %v", c20Name(c.id), rec.Kind, r)
			rec.Done = true
		}
	}()
	if rec.Kind != "acq" && c.lease == nil {
		// never held a lease: nothing to renew/release; dropped (no storage request)
		rec.Class, rec.Result, rec.Done = "skip", "skip", true
		e.tracef("      %s.%s[%d] dropped (client never held a lease)", c20Name(c.id), rec.Kind, rec.Idx)
		return
	}
	var newLease *litestream.Lease
	var err error
	c.leaser.TTL = e.sc.ttlFor(c.id, rec.Kind)
	switch rec.Kind {
	case "acq":
		newLease, err = c.leaser.AcquireLease(ctx)
	case "ren":
		rec.Arg = c.leaseFrom
		newLease, err = c.leaser.RenewLease(ctx, c.lease)
	case "rel":
		rec.Arg = c.leaseFrom
		err = c.leaser.ReleaseLease(ctx, c.lease)
	}
	var lee *litestream.LeaseExistsError
	switch {
	case err == nil:
		rec.Class, rec.Result = "ok", "ok"
		if newLease != nil {
			rec.Gen = newLease.Generation
			rec.Result = fmt.Sprintf("ok:g%d", newLease.Generation)
		}
	case rec.Kind == "acq" && errors.As(err, &lee):
		rec.Class, rec.Result = "exists", "exists("+lee.Owner+")"
	case rec.Kind != "acq" && errors.Is(err, litestream.ErrLeaseNotHeld):
		rec.Class, rec.Result = "notheld", "notheld"
	case rec.Kind == "rel" && errors.Is(err, lss3.ErrLeaseAlreadyReleased):
		rec.Class, rec.Result = "already", "already"
	default:
		rec.Class, rec.Result = "err", "err:"+c20ShortErr(err)
	}
	e.opDone(c, rec, newLease)
}

func (e *c20Exec) parse(o *fakes3.Object) c20Lease {
	if l, ok := e.parsed[o.ETag]; ok {
		return l
	}
	var l litestream.Lease
	out := c20Lease{Owner: "?", Gen: -1}
	if err := json.Unmarshal(o.Body, &l); err == nil {
		// expiry is judged by the harness itself (not by Lease.IsExpired, which is code under test); the clock does
		// not move during an execution (frozen) or the margin is an hour (real clock), so the verdict can be cached
		out = c20Lease{Owner: l.Owner, Gen: l.Generation, Expired: vclock.Now().After(l.ExpiresAt)}
	}
	e.parsed[o.ETag] = out
	return out
}

func (e *c20Exec) storeString(o *fakes3.Object) string {
	if o == nil {
		return "absent"
	}
	l := e.parse(o)
	x := "live"
	if l.Expired {
		x = "expired"
	}
	return fmt.Sprintf("{etag=%s owner=%s gen=%d %s}", o.ETag, l.Owner, l.Gen, x)
}

// onRequest runs right after a storage request was performed (still inside the
// issuing client's time slice).
func (e *c20Exec) onRequest(c *c20Client, r *fakes3.Request) {
	e.nstep++
	rec := c.cur
	if rec.First < 0 {
		rec.First = e.nstep
	}
	rec.Last = e.nstep
	resp := c20Resp{Op: r.Op, Status: r.Status, ETag: r.ETag}
	if r.Op == "GET" && r.Status == 200 {
		l := e.parse(r.Before)
		resp.Owner, resp.Gen, resp.Expired = l.Owner, l.Gen, l.Expired
	}
	rec.Resps = append(rec.Resps, resp)
	if r.Changed() {
		rec.Mut = true
	}
	if e.tracing {
		res := fmt.Sprintf("%d", r.Status)
		if r.Err != nil {
			switch r.Status {
			case 412:
				res = "412 PreconditionFailed"
			case 404:
				res = "404 NoSuchKey"
			}
		} else if r.ETag != "" {
			res += " etag=" + r.ETag
		}
		e.tracef("#%-2d %s %s[%d] %-22s -> %-22s store: %s", e.nstep, c20Name(c.id), rec.Kind, rec.Idx, r.String(), res, e.storeString(r.After))
	}
	// (I1b) a successful acquire write may only replace nothing or an expired record.
	if rec.Kind == "acq" && r.Op == "PUT" && r.Err == nil && r.Before != nil {
		if prev := e.parse(r.Before); !prev.Expired {
			e.violate("two-holders", "acquire-over-live", "%s's acquire write replaced the live lease of %s (gen %d)", c20Name(c.id), prev.Owner, prev.Gen)
		}
	}
}

// opDone runs when an operation that issued storage requests returns.
func (e *c20Exec) opDone(c *c20Client, rec *c20OpRec, nl *litestream.Lease) {
	rec.Done = true
	e.tracef("      %s.%s[%d] returns %s", c20Name(c.id), rec.Kind, rec.Idx, rec.Result)
	ok := rec.Class == "ok"
	// (I2) stale lease must be rejected and the rejection must not write.
	if rec.Kind != "acq" && c.takenOver {
		kind := "stale-renew-succeeded"
		if rec.Kind == "rel" {
			kind = "stale-release-succeeded"
		}
		if ok {
			e.violate(kind, "ok", "%s's lease (from op %d) was taken over, yet its %s succeeded", c20Name(c.id), c.leaseFrom%16, rec.Kind)
		} else if rec.Mut {
			e.violate(kind, "failed-but-wrote", "%s's stale %s returned %s but changed the store", c20Name(c.id), rec.Kind, rec.Result)
		}
	}
	switch {
	case rec.Kind == "acq" && ok:
		// (I3) generations of successive successful acquires strictly increase.
		if e.haveAcq && nl.Generation <= e.lastAcqGen {
			emptyStore := len(rec.Resps) > 0 && rec.Resps[0].Status == 404
			via := "takeover"
			if emptyStore && e.relSince {
				via = "after-release"
			} else if emptyStore {
				via = "after-delete"
			}
			who := "other-owner"
			if e.lastAcqBy == c.id {
				who = "same-owner"
			}
			how := "decreased"
			if nl.Generation == e.lastAcqGen {
				how = "repeated"
			}
			if emptyStore && nl.Generation == 1 {
				how = "restart-at-1"
			}
			e.violate("generation-not-increasing", via+","+who+","+how,
				"acquire by %s got generation %d after acquire by %s got generation %d", c20Name(c.id), nl.Generation, c20Name(e.lastAcqBy), e.lastAcqGen)
		}
		e.haveAcq, e.lastAcqGen, e.lastAcqBy, e.relSince = true, nl.Generation, c.id, false
		for _, x := range e.cl {
			if x != c && x.lease != nil {
				x.takenOver = true
			}
		}
		c.lease, c.leaseFrom, c.takenOver, c.has = nl, rec.ID, false, true
	case rec.Kind == "ren" && ok:
		c.lease, c.leaseFrom, c.has = nl, rec.ID, true
	case rec.Kind == "rel" && ok:
		c.has = false
		e.relSince = true
	}
	// (I1a) mutual exclusion.
	var holders []string
	for _, x := range e.cl {
		if x.holdsNow() {
			holders = append(holders, c20Name(x.id))
		}
	}
	// judged after EVERY operation, successful or not: a client holds a lease as long as the lease object IT keeps
	// (the one its last successful acquire/renew returned, whatever the library did to it since) is unexpired
	if len(holders) > 1 && rec.Kind != "rel" {
		e.violate("two-holders", "both-hold", "clients %s all hold an unexpired, unreleased lease", strings.Join(holders, ","))
	}
}

// key is the canonical state: store content, per client (program counter incl.
// responses seen inside the current operation, believed lease, results, monitor
// flags), monitor state and the real-time precedence among started operations.
// ETags are renamed by first appearance (they are only compared for equality).
func (e *c20Exec) key() string {
	var b strings.Builder
	em := map[string]int{}
	can := func(t string) int {
		if t == "" {
			return -1
		}
		if v, ok := em[t]; ok {
			return v
		}
		em[t] = len(em)
		return len(em) - 1
	}
	if o := e.store.Peek(c20LockKey); o == nil {
		b.WriteString("S-")
	} else {
		l := e.parse(o)
		fmt.Fprintf(&b, "S%d,%s,%d,%t", can(o.ETag), l.Owner, l.Gen, l.Expired)
	}
	fmt.Fprintf(&b, "|M%t,%d,%d,%t", e.haveAcq, e.lastAcqGen, e.lastAcqBy, e.relSince)
	for _, c := range e.cl {
		fmt.Fprintf(&b, "|C%d:", len(c.recs))
		if c.th.Done {
			b.WriteString("done")
		}
		if c.lease != nil {
			fmt.Fprintf(&b, "L%d,%d,%d", can(c.lease.ETag), c.lease.Generation, c.leaseFrom)
		}
		fmt.Fprintf(&b, "h%t,t%t;", c.holdsNow(), c.takenOver)
		for _, r := range c.recs {
			if r.Done {
				b.WriteString(r.Result)
				b.WriteByte(',')
			}
		}
		if c.cur != nil && !c.cur.Done {
			b.WriteString("@")
			for _, r := range c.cur.Resps {
				fmt.Fprintf(&b, "%s%d,%d,%s,%d,%t;", r.Op, r.Status, can(r.ETag), r.Owner, r.Gen, r.Expired)
			}
		}
	}
	b.WriteString("|P")
	b.WriteString(e.precedence())
	return b.String()
}

// c20Before: a precedes b in real time. An operation's interval is [first storage
// request, last storage request]: everything before/after is client-local, so this
// is the tightest interval any thread schedule with the same request order can show.
func c20Before(a, b *c20OpRec) bool { return a.Done && a.Last < b.First }

func (e *c20Exec) started() []*c20OpRec {
	var ops []*c20OpRec
	for _, c := range e.cl {
		for _, r := range c.recs {
			if r.First >= 0 {
				ops = append(ops, r)
			}
		}
	}
	return ops
}

func (e *c20Exec) precedence() string {
	ops := e.started()
	var b strings.Builder
	for i, a := range ops {
		for _, c := range ops[i+1:] {
			if a.Client == c.Client {
				continue
			}
			switch {
			case c20Before(a, c):
				b.WriteByte('<')
			case c20Before(c, a):
				b.WriteByte('>')
			default:
				b.WriteByte('|')
			}
		}
	}
	return b.String()
}

// ---------------------------------------------------------------- linearizability

// Sequential lease register (the specification the history is checked against).
// Safety-only, as the property is: a failing acquire ("exists") is admitted whenever
// a record is present at its linearization point, even an expired one, because the
// implementation reports a lost compare-and-swap race that way; it is never
// admitted on an empty register. Owner names and generation numbers in results are
// not part of the specification (generations are judged by I3).
type c20Reg struct {
	present bool
	ver     int  // ID of the operation that wrote the current record
	live    bool // record unexpired
}

func (m c20Reg) apply(op *c20OpRec, sc *c20Scenario) (c20Reg, bool) {
	mine := m.present && m.ver == op.Arg
	switch op.Kind {
	case "acq":
		switch op.Class {
		case "ok":
			if m.present && m.live {
				return m, false
			}
			return c20Reg{true, op.ID, sc.liveFor(op.Client, "acq")}, true
		case "exists":
			return m, m.present
		}
	case "ren":
		switch op.Class {
		case "ok":
			if !mine {
				return m, false
			}
			return c20Reg{true, op.ID, sc.liveFor(op.Client, "ren")}, true
		case "notheld":
			return m, !mine
		}
	case "rel":
		switch op.Class {
		case "ok":
			if !mine {
				return m, false
			}
			return c20Reg{}, true
		case "notheld", "already":
			return m, !mine
		}
	}
	return m, false // err / panic: no sequential behaviour produces it
}

// c20Linearizable: brute force over all total orders consistent with real time.
func c20Linearizable(ops []*c20OpRec, sc *c20Scenario) (bool, []int) {
	n := len(ops)
	pred := make([]uint32, n)
	for i, a := range ops {
		for j, b := range ops {
			if i != j && c20Before(b, a) {
				pred[i] |= 1 << j
			}
		}
	}
	order := make([]int, 0, n)
	var rec func(done uint32, m c20Reg) bool
	rec = func(done uint32, m c20Reg) bool {
		if len(order) == n {
			return true
		}
		for i := 0; i < n; i++ {
			if done&(1<<i) != 0 || pred[i]&^done != 0 {
				continue
			}
			if m2, ok := m.apply(ops[i], sc); ok {
				order = append(order, i)
				if rec(done|1<<i, m2) {
					return true
				}
				order = order[:len(order)-1]
			}
		}
		return false
	}
	ok := rec(0, c20Reg{})
	return ok, order
}

func (e *c20Exec) history() string {
	var parts []string
	for _, r := range e.started() {
		parts = append(parts, fmt.Sprintf("%s.%s[%d]@%d-%d=%s", c20Name(r.Client), r.Kind, r.Idx, r.First, r.Last, r.Result))
	}
	return strings.Join(parts, " ")
}

// checkComplete runs the end-of-execution checks.
func (e *c20Exec) checkComplete(linMemo map[string]bool) {
	ops := e.started()
	var hb strings.Builder
	for _, r := range ops {
		fmt.Fprintf(&hb, "%d%s%d;", r.ID, r.Class, r.Arg)
	}
	hb.WriteString(e.precedence())
	hk := hb.String()
	ok, seen := linMemo[hk]
	if !seen {
		ok, _ = c20Linearizable(ops, e.sc)
		linMemo[hk] = ok
	}
	if !ok {
		class := "no-order"
		for _, r := range ops {
			if r.Class == "err" || r.Class == "panic" {
				class = "unclassified-error"
			}
		}
		e.violate("not-linearizable", class, "no sequential order of the lease register explains: %s", e.history())
	}
}

func (e *c20Exec) outcome() string {
	var parts []string
	for _, c := range e.cl {
		var rs []string
		for _, r := range c.recs {
			rs = append(rs, r.Result)
		}
		parts = append(parts, c20Name(c.id)+":"+strings.Join(rs, ","))
	}
	fin := "absent"
	if o := e.store.Peek(c20LockKey); o != nil {
		l := e.parse(o)
		fin = fmt.Sprintf("%s/g%d/exp=%t", l.Owner, l.Gen, l.Expired)
	}
	return strings.Join(parts, ";") + " => " + fin
}

// conflict: did some client see the effect of another (the non-trivial executions)?
func (e *c20Exec) conflict() bool {
	for _, c := range e.cl {
		for _, r := range c.recs {
			if r.Class == "exists" || r.Class == "notheld" || r.Class == "already" || (r.Kind == "acq" && r.Gen >= 2) {
				return true
			}
		}
	}
	return false
}

// ---------------------------------------------------------------- exploration

type c20Found struct {
	Kind, Class string
	Sc          *c20Scenario
	Sched       []byte
	Msg         string
}

func c20SchedString(s []byte) string {
	parts := make([]string, len(s))
	for i, c := range s {
		parts[i] = c20Name(int(c))
	}
	return strings.Join(parts, ",")
}

func c20Switches(p []byte) int {
	n := 0
	for i := 1; i < len(p); i++ {
		if p[i] != p[i-1] {
			n++
		}
	}
	return n
}

func (f *c20Found) less(g *c20Found) bool {
	a, b := f.Sc.String(), g.Sc.String()
	if len(f.Sc.Ops) != len(g.Sc.Ops) {
		return len(f.Sc.Ops) < len(g.Sc.Ops)
	}
	if len(a) != len(b) {
		return len(a) < len(b)
	}
	if len(f.Sched) != len(g.Sched) {
		return len(f.Sched) < len(g.Sched)
	}
	if a != b {
		return a < b
	}
	return string(f.Sched) < string(g.Sched)
}

type c20Result struct {
	sc          *c20Scenario
	states      int64
	transitions int64
	replays     int64 // executions started (each replays a prefix from the initial state)
	execs       int64 // complete executions
	linChecks   int64
	maxDepth    int
	outcomes    map[string]int64
	conflicts   map[string]bool // outcome classes that are non-trivial
	found       map[string]*c20Found
	foundN      map[string]int64
	truncated   bool
	samples     []map[string]any
}

// c20NoPrune (LSMC_C20_NOPRUNE=1) disables the visited set: every interleaving is
// run to completion. Used to cross-check that pruning loses no outcome class.
var c20NoPrune = os.Getenv("LSMC_C20_NOPRUNE") == "1"

type c20Worker struct {
	beat atomic.Int64
	cur  atomic.Pointer[string]
}

func c20Explore(sc *c20Scenario, deadline time.Time, w *c20Worker, wantSamples int) *c20Result {
	res := &c20Result{sc: sc, outcomes: map[string]int64{}, conflicts: map[string]bool{}, found: map[string]*c20Found{}, foundN: map[string]int64{}}
	visited := map[string]struct{}{}
	linMemo := map[string]bool{}
	stack := [][]byte{{}}
	note := func(e *c20Exec, path []byte, from int) {
		for _, v := range e.viols[from:] {
			k := v.Kind + "|" + v.Class
			res.foundN[k]++
			f := &c20Found{Kind: v.Kind, Class: v.Class, Sc: sc, Sched: append([]byte(nil), path[:v.Step]...), Msg: v.Msg}
			if old := res.found[k]; old == nil || f.less(old) {
				res.found[k] = f
			}
		}
	}
	for len(stack) > 0 {
		if res.replays&63 == 0 && time.Now().After(deadline) {
			res.truncated = true
			break
		}
		prefix := stack[len(stack)-1]
		stack = stack[:len(stack)-1]
		e := c20NewExec(sc, false)
		res.replays++
		path := make([]byte, 0, 32)
		for _, c := range prefix {
			e.step(int(c))
			path = append(path, c)
			w.beat.Add(1)
		}
		// The last step of the prefix is the new transition (its source state was
		// expanded before); violations on earlier steps were recorded then.
		nviol := 0
		if len(prefix) > 0 {
			res.transitions++
			for nviol < len(e.viols) && e.viols[nviol].Step < len(prefix) {
				nviol++
			}
		}
		for {
			k := e.key()
			if _, dup := visited[k]; dup && !c20NoPrune {
				note(e, path, nviol)
				break
			}
			visited[k] = struct{}{}
			res.states++
			en := e.enabled()
			if len(en) == 0 {
				res.execs++
				res.linChecks++
				e.checkComplete(linMemo)
				note(e, path, nviol)
				oc := e.outcome()
				res.outcomes[oc]++
				if e.conflict() {
					res.conflicts[oc] = true
				}
				if len(path) > res.maxDepth {
					res.maxDepth = len(path)
				}
				if len(res.samples) < wantSamples && e.conflict() && c20Switches(path) >= 3 {
					res.samples = append(res.samples, c20Sample(sc, path))
				}
				break
			}
			note(e, path, nviol)
			nviol = len(e.viols)
			for _, c := range en[1:] {
				p := make([]byte, len(path)+1)
				copy(p, path)
				p[len(path)] = byte(c)
				stack = append(stack, p)
			}
			e.step(en[0])
			path = append(path, byte(en[0]))
			res.transitions++
			w.beat.Add(1)
		}
		e.kill()
	}
	return res
}

// c20Run replays one schedule with tracing; after the given schedule the remaining
// clients are run to completion in client order.
func c20Run(sc *c20Scenario, schedule []byte) (e *c20Exec, full []byte, err error) {
	e = c20NewExec(sc, true)
	for i, c := range schedule {
		if int(c) >= len(e.cl) || e.cl[c].th.Done {
			e.kill()
			return nil, nil, fmt.Errorf("schedule step %d: client %s is not enabled", i+1, c20Name(int(c)))
		}
		e.step(int(c))
		full = append(full, c)
	}
	if en := e.enabled(); len(en) > 0 {
		e.tracef("-- end of recorded schedule; completing in client order --")
		for len(en) > 0 {
			e.step(en[0])
			full = append(full, byte(en[0]))
			en = e.enabled()
		}
	}
	e.checkComplete(map[string]bool{})
	return e, full, nil
}

func c20Sample(sc *c20Scenario, path []byte) map[string]any {
	e, full, err := c20Run(sc, path)
	if err != nil {
		return map[string]any{"scenario": sc.String(), "error": err.Error()}
	}
	return map[string]any{
		"scenario": sc.String(),
		"schedule": c20SchedString(full),
		"trace":    e.trace,
		"history":  e.history(),
		"outcome":  e.outcome(),
	}
}

// ---------------------------------------------------------------- command

type c20Group struct {
	name      string
	scenarios []*c20Scenario
}

type c20Detail struct {
	Scenario  *c20Scenario `json:"scenario"`
	Schedule  []int        `json:"schedule"`
	Sched     string       `json:"schedule_names"`
	Class     string       `json:"class"`
	Message   string       `json:"message"`
	Trace     []string     `json:"trace"`
	Scenarios int          `json:"scenarios_with_this_class"`
	Hits      int64        `json:"detections"`
	Others    []string     `json:"other_scenarios,omitempty"`
}

// c20SeamS3: does s3.Leaser stamp leases from the seam clock? (one acquire on a private store)
func c20SeamS3() bool {
	st := fakes3.NewStore(c20Bucket)
	l := lss3.NewLeaser()
	l.SetLogger(c20DiscardLog)
	l.Bucket, l.Path, l.Owner, l.TTL = c20Bucket, c20Path, "seam", time.Hour
	l.SetClient(&fakes3.Client{S: st})
	lease, err := l.AcquireLease(context.Background())
	return err == nil && lease != nil && lease.ExpiresAt.Equal(vclock.Base.Add(time.Hour))
}

func c20Signature(f *c20Found) string {
	return f.Kind + "|" + f.Sc.String() + "|sched=" + c20SchedString(f.Sched) + "|" + f.Class
}

func c20(args []string) int {
	if len(args) >= 2 && args[0] == "--replay" {
		return c20Replay(args[1])
	}
	if len(args) > 0 {
		fmt.Fprintln(os.Stderr, "usage: lsmc c20 [--replay <file>]")
		return 2
	}
	timer := ev.Start()
	rep := ev.NewReporter("C20")
	deadline := time.Now().Add(ev.Budget(70*time.Second, 15*time.Minute))

	groups := []c20Group{
		{"2 clients x lists<=3", c20Scenarios(2, 3, 1)},
		{"3 clients x lists<=2", c20Scenarios(3, 2, 1)},
	}
	// Clock seam (tools/build.sh): with the clock frozen, a lease written with TTL +500 ms has 500 ms left during the
	// whole execution and one written with -500 ms expired 500 ms ago. Self-test: the lease code must follow the
	// frozen clock; if it does not (the seam did not apply to this tree), the near-expiry groups are left out and
	// said so, and the +-1 h groups run on the real clock as before.
	vclock.Freeze()
	clockSeam := !(&litestream.Lease{ExpiresAt: vclock.Base.Add(time.Minute)}).IsExpired() &&
		(&litestream.Lease{ExpiresAt: vclock.Base.Add(-time.Minute)}).IsExpired() && c20SeamS3()
	if !clockSeam {
		vclock.Thaw()
		fmt.Println("C20: clock seam not active for this tree (lease code reads the clock in a way tools/build.sh does not redirect): near-expiry groups skipped")
	} else {
		groups = append(groups,
			c20Group{"2 clients x lists<=3, TTL +-500ms", c20ScenariosTTL(2, 3, 1, true)},
			c20Group{"3 clients x lists<=2, TTL +-500ms", c20ScenariosTTL(3, 2, 1, true)})
	}
	// a lease that has expired since it was acquired, renewed now with a live TTL (per-operation TTL)
	groups = append(groups, c20Group{"2 clients x lists<=3, expired lease renewed with a live TTL", c20ScenariosFlip(2, 3, false)})
	if ev.Tier() == "thorough" {
		groups = append(groups, c20Group{"3 clients x lists<=2, expired lease renewed with a live TTL", c20ScenariosFlip(3, 2, false)})
		groups = append(groups, c20Group{"2 clients x lists<=4 (some list =4)", c20Scenarios(2, 4, 4)})
		// (3 clients x lists<=3 was measured: 17064 scenarios, up to 1.1M states each, 19% done in 15 min - not included)
	}
	if s := ev.Seed(); s != 0 { // the seed only permutes the order in which scenarios are taken
		r := rand.New(rand.NewSource(s))
		for _, g := range groups {
			r.Shuffle(len(g.scenarios), func(i, j int) { g.scenarios[i], g.scenarios[j] = g.scenarios[j], g.scenarios[i] })
		}
	}

	const nWorkers = 16
	workers := make([]*c20Worker, nWorkers)
	for i := range workers {
		workers[i] = &c20Worker{}
	}
	// Watchdog: a client that neither reaches a scheduling point nor returns.
	stopWatch := make(chan struct{})
	go func() {
		last := make([]int64, nWorkers)
		stuck := make([]int, nWorkers)
		for {
			select {
			case <-stopWatch:
				return
			case <-time.After(2 * time.Second):
			}
			for i, w := range workers {
				cur := w.cur.Load()
				b := w.beat.Load()
				if cur != nil && b == last[i] {
					stuck[i]++
				} else {
					stuck[i] = 0
				}
				last[i] = b
				if stuck[i] >= 10 {
					rep.Report(&ev.Violation{Kind: "deadlock", Signature: "deadlock|" + *cur, Detail: map[string]any{"scenario": *cur, "message": "no scheduling point reached and no return for 20 s"}})
					os.Exit(rep.Finish())
				}
			}
		}
	}()

	var (
		totScen, totDone                          int
		totStates, totTrans, totExecs, totReplays int64
		totLin                                    int64
		allOutcomes                               = map[string]bool{}
		nontrivial                                int
		pairOutcomes                              int
		singleOutcome                             = []string{}
		best                                      = map[string]*c20Found{}
		hits                                      = map[string]int64{}
		affected                                  = map[string][]string{}
		samples                                   []any
		groupInfo                                 []map[string]any
		exhaustive                                = true
		maxDepth                                  int
		maxStates                                 int64
	)
	for gi, g := range groups {
		gt := ev.Start()
		results := make([]*c20Result, len(g.scenarios))
		var next atomic.Int64
		var wg sync.WaitGroup
		for wi := 0; wi < nWorkers; wi++ {
			wg.Add(1)
			go func(w *c20Worker) {
				defer wg.Done()
				for {
					i := int(next.Add(1)) - 1
					if i >= len(g.scenarios) || time.Now().After(deadline) {
						w.cur.Store(nil)
						return
					}
					name := g.scenarios[i].String()
					w.cur.Store(&name)
					want := 0
					if i%97 == 3 {
						want = 1
					}
					results[i] = c20Explore(g.scenarios[i], deadline, w, want)
				}
			}(workers[wi])
		}
		wg.Wait()
		var gs, gtr, ge, grp int64
		gdone, gsingle := 0, 0
		gout := map[string]bool{}
		gpairs := 0
		for _, r := range results {
			if r == nil {
				exhaustive = false
				continue
			}
			gs += r.states
			gtr += r.transitions
			ge += r.execs
			grp += r.replays
			totLin += r.linChecks
			if r.maxDepth > maxDepth {
				maxDepth = r.maxDepth
			}
			if r.states > maxStates {
				maxStates = r.states
			}
			if r.truncated {
				exhaustive = false
			} else {
				gdone++
			}
			for oc := range r.outcomes {
				gout[oc] = true
				allOutcomes[r.sc.String()+" :: "+oc] = true
				gpairs++
				if r.conflicts[oc] {
					nontrivial++
				}
			}
			if len(r.outcomes) == 1 && !r.truncated {
				gsingle++
				if len(singleOutcome) < 8 {
					for oc, n := range r.outcomes {
						singleOutcome = append(singleOutcome, fmt.Sprintf("%s (%d executions): %s", r.sc, n, oc))
					}
				}
			}
			for k, f := range r.found {
				hits[k] += r.foundN[k]
				affected[k] = append(affected[k], r.sc.String())
				if old := best[k]; old == nil || f.less(old) {
					best[k] = f
				}
			}
			if len(samples) < 6 {
				for _, s := range r.samples {
					samples = append(samples, s)
				}
			}
		}
		pairOutcomes += gpairs
		totScen += len(g.scenarios)
		totDone += gdone
		totStates += gs
		totTrans += gtr
		totExecs += ge
		totReplays += grp
		fmt.Printf("C20 group %d [%s]: scenarios=%d completed=%d states=%d transitions=%d complete_executions=%d replays=%d outcome_classes(scenario,outcome)=%d distinct_outcome_vectors=%d single-outcome_scenarios=%d wall=%.1fs\n",
			gi+1, g.name, len(g.scenarios), gdone, gs, gtr, ge, grp, gpairs, len(gout), gsingle, gt.S())
		groupInfo = append(groupInfo, map[string]any{"group": g.name, "scenarios": len(g.scenarios), "completed": gdone, "states": gs, "transitions": gtr, "complete_executions": ge, "outcome_classes": gpairs, "wall_s": gt.S()})
	}
	close(stopWatch)

	fmt.Printf("C20 total: scenarios=%d completed=%d states=%d transitions=%d complete_executions=%d replays=%d linearizability_checks=%d outcome_classes=%d (non-trivial=%d) max_depth=%d max_states_per_scenario=%d exhaustive=%t\n",
		totScen, totDone, totStates, totTrans, totExecs, totReplays, totLin, pairOutcomes, nontrivial, maxDepth, maxStates, exhaustive)
	for _, s := range singleOutcome {
		fmt.Printf("C20 single-outcome scenario: %s\n", s)
	}

	// One report per (kind, class): the smallest scenario and shortest schedule.
	keys := make([]string, 0, len(best))
	for k := range best {
		keys = append(keys, k)
	}
	sort.Strings(keys)
	classes := map[string]any{}
	for _, k := range keys {
		f := best[k]
		sort.Strings(affected[k])
		fmt.Printf("C20 violation class %s: %d scenarios, %d detections; smallest: %s\n", k, len(affected[k]), hits[k], c20Signature(f))
		classes[k] = map[string]any{"scenarios": len(affected[k]), "detections": hits[k], "smallest": c20Signature(f)}
		d := &c20Detail{Scenario: f.Sc, Sched: c20SchedString(f.Sched), Class: f.Class, Message: f.Msg, Scenarios: len(affected[k]), Hits: hits[k]}
		for _, c := range f.Sched {
			d.Schedule = append(d.Schedule, int(c))
		}
		if e, _, err := c20Run(f.Sc, f.Sched); err == nil {
			d.Trace = e.trace
		}
		for i, s := range affected[k] {
			if i < 40 {
				d.Others = append(d.Others, s)
			}
		}
		rep.Report(&ev.Violation{Kind: f.Kind, Signature: c20Signature(f), Detail: d})
	}

	if totStates == 0 || totTrans == 0 {
		fmt.Fprintln(os.Stderr, "C20: nothing explored")
		return 2
	}
	if len(samples) == 0 {
		samples = append(samples, c20Sample(groups[0].scenarios[0], nil))
	}
	completed := fmt.Sprintf("%d of %d scenarios explored completely", totDone, totScen)
	evd := &ev.Evidence{
		PropertyID: "C20", Tier: ev.Tier(), Seed: ev.Seed(), Level: "model_checking",
		Coverage: map[string]any{
			"states":                        totStates,
			"transitions":                   totTrans,
			"traces_validated_against_impl": totExecs,
			"evaluations":                   totExecs,
			"distinct_nontrivial":           nontrivial,
			"rule": "every scenario = per client an operation list over {acq,ren,rel} starting with acq (ren/rel use the last lease the client obtained, also a stale one; dropped if it never obtained one) and a TTL of +1h (live) or -1h (born expired; in one more group such a client's renew asks for +1h: the lease has expired since it was acquired), and, on a frozen clock (build-time clock seam for leaser.go and s3/leaser.go), +500ms (live, about to expire) or -500ms (just expired); " +
				"for each scenario ALL interleavings of the clients' individual storage requests are explored (DFS, replay from the initial state, visited set on canonical state incl. monitor state and real-time precedence); " +
				"evaluations = complete executions of the real s3.Leaser; distinct_nontrivial = number of distinct (scenario, outcome class) pairs in which some client observed another (a result exists/notheld/already, or an acquire at generation >= 2); outcome class = per-operation results + final store record",
			"exhaustive":               exhaustive,
			"clock_seam_active":        clockSeam,
			"completed":                completed,
			"scenarios":                totScen,
			"scenarios_completed":      totDone,
			"groups":                   groupInfo,
			"replays":                  totReplays,
			"linearizability_checks":   totLin,
			"outcome_classes":          pairOutcomes,
			"max_depth":                maxDepth,
			"max_states_per_scenario":  maxStates,
			"violation_classes":        classes,
			"known_finding_detections": rep.KnownCount(),
			"samples":                  samples,
			"single_outcome_scenarios": singleOutcome,
			"scheduling_point":         "before every GetObject/PutObject/DeleteObject of the fake store; a request is one atomic step",
			"preemption_bound":         "none",
		},
		Assumptions: []string{
			"fakes3 models S3 conditional requests: If-None-Match:* fails with 412 iff the key exists; If-Match fails with 412 iff the key is missing or its ETag differs; each request is atomic; ETag is a fresh value on every successful put (no two object versions share an ETag)",
			"time: a lease written with TTL=+1h stays unexpired and one written with TTL=-1h is expired for the whole execution (executions take microseconds); the +-500ms classes run on a frozen clock (lsverif/vclock substituted for time.Now/Until/Since in the lease code by go build -overlay; a self-test at start confirms that Lease.IsExpired and the ExpiresAt stamp of s3.Leaser follow it, otherwise those groups are skipped and the evidence says so); a lease does not change from unexpired to expired in the middle of an execution; the oracle's own notion of expiry is now > ExpiresAt, computed by the harness, not Lease.IsExpired",
			"the sequential specification is safety-only: a failing acquire is admitted whenever a record is present at its linearization point",
			"an operation's real-time interval is [first storage request, last storage request]",
		},
		WallS:      timer.S(),
		Violations: rep.Unknown(),
	}
	if err := ev.Write(evd); err != nil {
		fmt.Fprintln(os.Stderr, "C20: write evidence:", err)
		return 2
	}
	if !exhaustive {
		fmt.Printf("C20: budget expired: %s\n", completed)
	}
	return rep.Finish()
}

func c20Replay(path string) int {
	b, err := os.ReadFile(path)
	if err != nil {
		fmt.Fprintln(os.Stderr, "c20 replay:", err)
		return 2
	}
	var v struct {
		Kind      string    `json:"kind"`
		Signature string    `json:"signature"`
		Detail    c20Detail `json:"detail"`
	}
	if err := json.Unmarshal(b, &v); err != nil || v.Detail.Scenario == nil || len(v.Detail.Scenario.Ops) == 0 || len(v.Detail.Scenario.Ops) != len(v.Detail.Scenario.Live) {
		fmt.Fprintln(os.Stderr, "c20 replay: not a C20 replay file:", err)
		return 2
	}
	sc := v.Detail.Scenario
	var schedule []byte
	for _, c := range v.Detail.Schedule {
		schedule = append(schedule, byte(c))
	}
	for i := range sc.Ops {
		if sc.near(i) {
			vclock.Freeze() // near-expiry TTLs are only meaningful on the frozen clock (see c20)
		}
	}
	fmt.Printf("replay C20: scenario %s schedule %s\n", sc, c20SchedString(schedule))
	if v.Signature != "" {
		fmt.Printf("recorded: %s\n", v.Signature)
	}
	e, full, err := c20Run(sc, schedule)
	if err != nil {
		fmt.Fprintln(os.Stderr, "c20 replay:", err)
		return 2
	}
	for _, l := range e.trace {
		fmt.Println(l)
	}
	fmt.Printf("full schedule: %s\nhistory: %s\noutcome: %s\n", c20SchedString(full), e.history(), e.outcome())
	kinds := map[string]bool{}
	for _, x := range e.viols {
		kinds[x.Kind] = true
	}
	verdict := func(name string, ks ...string) {
		bad := false
		for _, k := range ks {
			bad = bad || kinds[k]
		}
		if bad {
			fmt.Printf("  %-62s VIOLATED\n", name)
		} else {
			fmt.Printf("  %-62s holds\n", name)
		}
	}
	fmt.Println("verdicts:")
	verdict("I1 at most one holder / acquire only over nothing or expired", "two-holders")
	verdict("I2 taken-over lease cannot be renewed or released", "stale-renew-succeeded", "stale-release-succeeded")
	verdict("I3 generations of successful acquires strictly increase", "generation-not-increasing")
	verdict("linearizable w.r.t. the sequential lease register", "not-linearizable")
	verdict("no panic", "panic")
	if len(e.viols) == 0 {
		fmt.Println("replay: no violation")
		return 0
	}
	for _, x := range e.viols {
		fmt.Printf("VIOLATION property=C20 kind=%s class=%s at step %d: %s\n", x.Kind, x.Class, x.Step, x.Msg)
	}
	return 1
}
