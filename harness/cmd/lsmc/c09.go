package main

// C09 — "Only frames SQLite itself treats as committed are ever replicated".
//
// Bounded-exhaustive enumeration of mutated WAL images derived from WALs that
// real SQLite wrote; litestream's WALReader is compared against an independent
// reference (lsverif/refwal for reads from the file start, a slot-table
// reference written here for reads from an offset), and the reference itself
// is cross-checked against real SQLite recovery. See c09Rule for the details.

import (
	"bytes"
	"compress/gzip"
	"context"
	"database/sql"
	"encoding/base64"
	"encoding/binary"
	"encoding/json"
	"errors"
	"fmt"
	"io"
	"log/slog"
	"os"
	"path/filepath"
	"runtime"
	"runtime/debug"
	"sort"
	"strings"
	"sync"
	"sync/atomic"
	"time"

	"github.com/benbjohnson/litestream"
	_ "modernc.org/sqlite"

	"lsverif/ev"
	"lsverif/refwal"
)

func init() { register("c09", c09) }

const (
	c9Hdr  = 32
	c9FHdr = 24
)

// ---------------------------------------------------------------------------
// Base WAL generation (real SQLite)
// ---------------------------------------------------------------------------

type c9Base struct {
	Name     string // scenario/psN/le|be
	Scenario string
	PageSize int
	BE       bool
	WAL      []byte // the WAL image under test
	Old      []byte // image of the previous WAL generation (for splices)
	DB       []byte // database file matching WAL
}

func (b *c9Base) fs() int     { return b.PageSize + c9FHdr }
func (b *c9Base) slots() int  { return (len(b.WAL) - c9Hdr) / b.fs() }
func (b *c9Base) oslots() int { return (len(b.Old) - c9Hdr) / b.fs() }

// c9Blob returns deterministic row content.
func c9Blob(seed, n int) []byte {
	b := make([]byte, n)
	x := uint32(seed)*2654435761 + 12345
	for i := range b {
		x = x*1664525 + 1013904223
		b[i] = byte(x >> 24)
	}
	return b
}

type c9Gen struct {
	ctx  context.Context
	db   *sql.DB
	conn *sql.Conn
	path string
	ps   int
}

func (g *c9Gen) exec(q string, args ...any) error {
	if _, err := g.conn.ExecContext(g.ctx, q, args...); err != nil {
		return fmt.Errorf("%s: %w", q, err)
	}
	return nil
}

func (g *c9Gen) ckpt(mode string) error {
	var busy, nlog, nck int
	if err := g.conn.QueryRowContext(g.ctx, "PRAGMA wal_checkpoint("+mode+")").Scan(&busy, &nlog, &nck); err != nil {
		return err
	}
	if busy != 0 {
		return fmt.Errorf("checkpoint %s busy", mode)
	}
	return nil
}

func (g *c9Gen) close() {
	if g.conn != nil {
		g.conn.Close()
	}
	if g.db != nil {
		g.db.Close()
	}
}

func c9Open(dir string, ps int, autoVacuum bool) (*c9Gen, error) {
	if err := os.MkdirAll(dir, 0o755); err != nil {
		return nil, err
	}
	path := filepath.Join(dir, "base.db")
	for _, s := range []string{"", "-wal", "-shm"} {
		os.Remove(path + s)
	}
	db, err := sql.Open("sqlite", "file:"+path+"?_pragma=busy_timeout(0)")
	if err != nil {
		return nil, err
	}
	db.SetMaxOpenConns(1)
	ctx := context.Background()
	conn, err := db.Conn(ctx)
	if err != nil {
		db.Close()
		return nil, err
	}
	g := &c9Gen{ctx: ctx, db: db, conn: conn, path: path, ps: ps}
	if err := g.exec(fmt.Sprintf("PRAGMA page_size=%d", ps)); err != nil {
		g.close()
		return nil, err
	}
	if autoVacuum {
		if err := g.exec("PRAGMA auto_vacuum=INCREMENTAL"); err != nil {
			g.close()
			return nil, err
		}
	}
	for _, q := range []string{"PRAGMA journal_mode=wal", "PRAGMA wal_autocheckpoint=0", "PRAGMA synchronous=OFF",
		"CREATE TABLE t(id INTEGER PRIMARY KEY, v BLOB)"} {
		if err := g.exec(q); err != nil {
			g.close()
			return nil, err
		}
	}
	var got int
	if err := conn.QueryRowContext(ctx, "PRAGMA page_size").Scan(&got); err != nil || got != ps {
		g.close()
		return nil, fmt.Errorf("page size %d not in effect (got %d, %v)", ps, got, err)
	}
	return g, nil
}

func (g *c9Gen) ins(id int) error {
	return g.exec("INSERT INTO t(id,v) VALUES(?,?)", id, c9Blob(id, g.ps*6/10))
}
func (g *c9Gen) upd(id, seed int) error {
	return g.exec("UPDATE t SET v=? WHERE id=?", c9Blob(seed, g.ps*6/10), id)
}

// c9Generate runs one scenario on real SQLite and returns (wal, old generation wal, db).
func c9Generate(dir string, ps int, scenario string) (wal, old, dbimg []byte, err error) {
	g, err := c9Open(dir, ps, scenario == "shrink")
	if err != nil {
		return nil, nil, nil, err
	}
	defer g.close()
	step := func(errs ...error) error {
		for _, e := range errs {
			if e != nil {
				return e
			}
		}
		return nil
	}
	// Generation 0: populate, keep its WAL image as "older generation", checkpoint.
	for id := 1; id <= 4; id++ {
		if err = g.ins(id); err != nil {
			return
		}
	}
	switch scenario {
	case "shrink":
		// three transactions, the second shrinks the database below page
		// numbers written by the first.
		if old, err = os.ReadFile(g.path + "-wal"); err != nil {
			return
		}
		if err = step(g.ckpt("TRUNCATE"),
			g.exec("BEGIN"), g.ins(5), g.ins(6), g.exec("COMMIT"),
			g.exec("BEGIN"), g.exec("DELETE FROM t WHERE id>=3"), g.exec("PRAGMA incremental_vacuum"), g.exec("COMMIT"),
			g.upd(1, 101)); err != nil {
			return
		}
	case "stale":
		// previous generation of N frames, RESTART, fewer frames in the new
		// generation: old frames remain physically behind the new ones.
		if err = step(g.ckpt("TRUNCATE"),
			g.exec("BEGIN"), g.ins(5), g.ins(6), g.upd(1, 201), g.upd(2, 202), g.exec("COMMIT"),
			g.upd(3, 203)); err != nil {
			return
		}
		if old, err = os.ReadFile(g.path + "-wal"); err != nil {
			return
		}
		if err = step(g.ckpt("RESTART"),
			g.upd(1, 204),
			g.exec("BEGIN"), g.upd(2, 205), g.upd(3, 206), g.exec("COMMIT")); err != nil {
			return
		}
	case "spill":
		// two committed transactions followed by frames of an open
		// transaction that spilled out of a 1-page cache.
		if old, err = os.ReadFile(g.path + "-wal"); err != nil {
			return
		}
		if err = step(g.ckpt("TRUNCATE"),
			g.exec("BEGIN"), g.ins(5), g.upd(1, 301), g.exec("COMMIT"),
			g.exec("BEGIN"), g.upd(2, 302), g.upd(3, 303), g.exec("COMMIT"),
			g.exec("PRAGMA cache_size=1"),
			g.exec("BEGIN"), g.upd(1, 304), g.upd(2, 305),
			g.exec("INSERT INTO t(id,v) VALUES(?,?)", 9, c9Blob(9, g.ps*3)),
			g.upd(4, 306)); err != nil {
			return
		}
	default:
		return nil, nil, nil, fmt.Errorf("unknown scenario %q", scenario)
	}
	// Copy while every connection (and, for "spill", the transaction) is still
	// open. Reading drops this process's POSIX locks on the files; nothing
	// else happens on this database afterwards except rollback+close.
	if wal, err = os.ReadFile(g.path + "-wal"); err != nil {
		return
	}
	if dbimg, err = os.ReadFile(g.path); err != nil {
		return
	}
	if scenario == "spill" {
		g.conn.ExecContext(g.ctx, "ROLLBACK")
	}
	return wal, old, dbimg, nil
}

// ---------------------------------------------------------------------------
// Checksums, slot table (the reference used for reads from an offset)
// ---------------------------------------------------------------------------

func c9Cksum(be bool, s0, s1 uint32, b []byte) (uint32, uint32) {
	if be {
		for i := 0; i+8 <= len(b); i += 8 {
			s0 += binary.BigEndian.Uint32(b[i:]) + s1
			s1 += binary.BigEndian.Uint32(b[i+4:]) + s0
		}
		return s0, s1
	}
	for i := 0; i+8 <= len(b); i += 8 {
		s0 += binary.LittleEndian.Uint32(b[i:]) + s1
		s1 += binary.LittleEndian.Uint32(b[i+4:]) + s0
	}
	return s0, s1
}

func c9U32(b []byte, off int) uint32 { return binary.BigEndian.Uint32(b[off:]) }
func c9Put(b []byte, off int, v uint32) {
	binary.BigEndian.PutUint32(b[off:], v)
}

type c9Slot struct {
	saltOK bool
	pgno   uint32
	commit uint32
	linkOK bool // checksum of this frame seeded with the STORED checksum of the previous frame (or header) matches
}

// c9Table is a per-image decomposition: header verdict plus one record per
// complete frame slot. A frame k is valid in a read starting at slot j iff
// every slot in j..k has saltOK, pgno!=0 and linkOK.
type c9Table struct {
	hdrOK      bool
	hdrWhy     string // "short","magic","cksum","version","pagesize"
	versionBad bool   // header checksum valid but version != 3007000 (SQLite: SQLITE_CANTOPEN)
	be         bool
	ps         int
	fs         int
	s1, s2     uint32
	slots      []c9Slot
}

func c9Parse(wal []byte, t *c9Table) {
	t.hdrOK, t.hdrWhy, t.versionBad, t.slots = false, "", false, t.slots[:0]
	if len(wal) < c9Hdr {
		t.hdrWhy = "short"
		return
	}
	magic := c9U32(wal, 0)
	if magic != 0x377f0682 && magic != 0x377f0683 {
		t.hdrWhy = "magic"
		return
	}
	t.be = magic == 0x377f0683
	ps := c9U32(wal, 8)
	if ps < 512 || ps > 65536 || ps&(ps-1) != 0 {
		t.hdrWhy = "pagesize"
		return
	}
	h0, h1 := c9Cksum(t.be, 0, 0, wal[:24])
	if h0 != c9U32(wal, 24) || h1 != c9U32(wal, 28) {
		t.hdrWhy = "cksum"
		return
	}
	if c9U32(wal, 4) != 3007000 {
		t.hdrWhy = "version"
		t.versionBad = true
		return
	}
	t.hdrOK = true
	t.ps = int(ps)
	t.fs = t.ps + c9FHdr
	t.s1, t.s2 = c9U32(wal, 16), c9U32(wal, 20)
	p0, p1 := h0, h1
	for off := c9Hdr; off+t.fs <= len(wal); off += t.fs {
		f := wal[off : off+t.fs]
		var s c9Slot
		s.pgno, s.commit = c9U32(f, 0), c9U32(f, 4)
		s.saltOK = c9U32(f, 8) == t.s1 && c9U32(f, 12) == t.s2
		c0, c1 := c9Cksum(t.be, p0, p1, f[:8])
		c0, c1 = c9Cksum(t.be, c0, c1, f[c9FHdr:])
		p0, p1 = c9U32(f, 16), c9U32(f, 20)
		s.linkOK = c0 == p0 && c1 == p1
		t.slots = append(t.slots, s)
	}
}

// validFrom returns the number of consecutive valid frames starting at slot j.
func (t *c9Table) validFrom(j int) int {
	n := 0
	for k := j; k < len(t.slots); k++ {
		s := &t.slots[k]
		if !s.saltOK || s.pgno == 0 || !s.linkOK {
			break
		}
		n++
	}
	return n
}

// writerConsistent reports whether every run of valid frames obeys two
// invariants of SQLite's WAL writer that chunked reading relies on: a commit
// frame's page number is within its own db size, and a transaction that grows
// the database beyond the previous commit size writes every page it adds. Raw
// (non-rechained) mutations can only yield prefixes of chains SQLite wrote, so
// this is only consulted for the rechained classes.
func (t *c9Table) writerConsistent() bool {
	var last uint32
	known := false
	tx := map[uint32]bool{}
	for k := range t.slots {
		s := &t.slots[k]
		if !s.saltOK || s.pgno == 0 || !s.linkOK {
			known = false
			clear(tx)
			continue
		}
		tx[s.pgno] = true
		if s.commit == 0 {
			continue
		}
		if s.pgno > s.commit {
			return false
		}
		if known && s.commit > last {
			if s.commit-last > 256 {
				return false
			}
			for p := last + 1; p <= s.commit; p++ {
				if !tx[p] {
					return false
				}
			}
		}
		last, known = s.commit, true
		clear(tx)
	}
	return true
}

// c9Res is the outcome of one read, in litestream's reporting convention:
// End = end of the highest-offset frame in Pages, (0,0) if Pages is empty.
type c9Res struct {
	Err     string           `json:"err,omitempty"` // "", "header", "prev", "other: ..."
	Pages   map[uint32]int64 `json:"pages,omitempty"`
	End     int64            `json:"end"`
	Commit  uint32           `json:"commit"`
	Limited bool             `json:"limited"`
	// EndLastCommit is the end of the last commit frame consumed (reference only).
	EndLastCommit int64 `json:"end_last_commit,omitempty"`
}

func c9Normalize(pages map[uint32]int64, commit uint32, fs int64) (int64, uint32) {
	if len(pages) == 0 {
		return 0, 0
	}
	var end int64
	for _, o := range pages {
		if o > end {
			end = o
		}
	}
	return end + fs, commit
}

// read is the reference for a read starting at slot j (j==0: file start) with
// a byte budget, frames validated with the chain seeded by the stored checksum
// of the frame before the start.
func (t *c9Table) read(j int, budget int64) c9Res {
	return t.readInto(j, budget, map[uint32]int64{}, map[uint32]int64{})
}

// readInto is read with caller-owned scratch maps (the result aliases pages).
func (t *c9Table) readInto(j int, budget int64, pages, tx map[uint32]int64) c9Res {
	if !t.hdrOK {
		return c9Res{Err: "header"}
	}
	if j > 0 && (j-1 >= len(t.slots) || !t.slots[j-1].saltOK) {
		return c9Res{Err: "prev"}
	}
	fs := int64(t.fs)
	start := int64(c9Hdr) + int64(j)*fs
	clear(pages)
	clear(tx)
	r := c9Res{Pages: pages}
	var commit uint32
	for k := j; k < len(t.slots); k++ {
		s := &t.slots[k]
		if !s.saltOK || s.pgno == 0 || !s.linkOK {
			break
		}
		off := int64(c9Hdr) + int64(k)*fs
		tx[s.pgno] = off
		if s.commit != 0 {
			for p, o := range tx {
				r.Pages[p] = o
			}
			clear(tx)
			commit = s.commit
			r.EndLastCommit = off + fs
			if budget > 0 && off+fs-start >= budget {
				r.Limited = true
				break
			}
		}
	}
	for p := range r.Pages {
		if p > commit {
			delete(r.Pages, p)
		}
	}
	r.End, r.Commit = c9Normalize(r.Pages, commit, fs)
	return r
}

// rechain recomputes the stored checksums of slots from..to-1 (chain seeded by
// the stored checksum before `from`).
func c9Rechain(wal []byte, ps int, be bool, from, to int) {
	fs := ps + c9FHdr
	var s0, s1 uint32
	if from == 0 {
		s0, s1 = c9U32(wal, 24), c9U32(wal, 28)
	} else {
		p := c9Hdr + (from-1)*fs
		s0, s1 = c9U32(wal, p+16), c9U32(wal, p+20)
	}
	for k := from; k < to; k++ {
		off := c9Hdr + k*fs
		if off+fs > len(wal) {
			break
		}
		f := wal[off : off+fs]
		s0, s1 = c9Cksum(be, s0, s1, f[:8])
		s0, s1 = c9Cksum(be, s0, s1, f[c9FHdr:])
		c9Put(f, 16, s0)
		c9Put(f, 20, s1)
	}
}

func c9FixHeader(wal []byte) {
	be := c9U32(wal, 0) == 0x377f0683
	s0, s1 := c9Cksum(be, 0, 0, wal[:24])
	c9Put(wal, 24, s0)
	c9Put(wal, 28, s1)
}

// c9ReencodeBE re-encodes the valid frame chain of a little-endian WAL with
// big-endian checksums. Frames behind the valid chain that are byte-identical
// to the same slot of `old` (stale previous generation) are taken from the
// re-encoded old image so that they stay a self-consistent stale generation.
func c9ReencodeBE(wal, old []byte) ([]byte, error) {
	var t c9Table
	c9Parse(wal, &t)
	if !t.hdrOK || t.be {
		return nil, fmt.Errorf("reencode: need valid little-endian wal (%s)", t.hdrWhy)
	}
	n := t.validFrom(0)
	out := append([]byte(nil), wal...)
	c9Put(out, 0, 0x377f0683)
	c9FixHeader(out)
	c9Rechain(out, t.ps, true, 0, n)
	if old != nil {
		var ot c9Table
		c9Parse(old, &ot)
		if ot.hdrOK && ot.ps == t.ps {
			beOld, err := c9ReencodeBE(old, nil)
			if err != nil {
				return nil, err
			}
			on := ot.validFrom(0)
			for k := n; k < len(t.slots) && k < on; k++ {
				a, b := c9Hdr+k*t.fs, c9Hdr+(k+1)*t.fs
				if bytes.Equal(wal[a:b], old[a:b]) {
					copy(out[a:b], beOld[a:b])
				}
			}
		}
	}
	return out, nil
}

// ---------------------------------------------------------------------------
// Mutations
// ---------------------------------------------------------------------------

type c9Mut struct {
	Class string `json:"class"`           // base trunc flip dup swap fedit hedit splice
	A     int    `json:"a,omitempty"`     // trunc: length; flip: byte offset; dup: src slot; swap: slot; fedit: slot; splice: k
	B     int    `json:"b,omitempty"`     // flip: bit; dup: dst slot; swap: other slot
	Field string `json:"field,omitempty"` // fedit: pgno commit salt1 salt2; hedit: magic version pagesize seq salt1 salt2
	Val   uint32 `json:"val,omitempty"`
	Fix   bool   `json:"fix,omitempty"` // recompute the checksums the edit invalidated (header and/or chain to the end of the originally valid chain)
}

func (m c9Mut) String() string {
	fx := ""
	if m.Fix {
		fx = ",rechained"
	}
	switch m.Class {
	case "base":
		return "unmutated"
	case "trunc":
		return fmt.Sprintf("trunc@len=%d", m.A)
	case "flip":
		return fmt.Sprintf("flip@off=%d,bit=%d", m.A, m.B)
	case "dup":
		return fmt.Sprintf("dup:frame%d->slot%d%s", m.A, m.B, fx)
	case "swap":
		return fmt.Sprintf("swap:frame%d<->frame%d%s", m.A, m.B, fx)
	case "fedit":
		return fmt.Sprintf("edit:frame%d.%s=%#x%s", m.A, m.Field, m.Val, fx)
	case "hedit":
		return fmt.Sprintf("edit:hdr.%s=%#x%s", m.Field, m.Val, fx)
	case "splice":
		return fmt.Sprintf("splice:new[0..%d)+old[%d..)", m.A, m.A)
	}
	return m.Class
}

func (m c9Mut) class() string {
	if m.Fix {
		return m.Class + "-rechained"
	}
	return m.Class
}

var c9FrameField = map[string]int{"pgno": 0, "commit": 4, "salt1": 8, "salt2": 12}
var c9HdrField = map[string]int{"magic": 0, "version": 4, "pagesize": 8, "seq": 12, "salt1": 16, "salt2": 20}

// Apply returns the mutated image (a fresh slice, except for trunc which aliases base).
func (m c9Mut) Apply(b *c9Base) []byte {
	fs := b.fs()
	if m.Class == "trunc" {
		return b.WAL[:m.A]
	}
	if m.Class == "splice" {
		cut := c9Hdr + m.A*fs
		out := append([]byte(nil), b.WAL[:cut]...)
		if cut < len(b.Old) {
			out = append(out, b.Old[cut:]...)
		}
		return out
	}
	out := append([]byte(nil), b.WAL...)
	var t c9Table
	c9Parse(b.WAL, &t)
	nvalid := t.validFrom(0)
	slot := func(i int) []byte { return out[c9Hdr+i*fs : c9Hdr+(i+1)*fs] }
	minSlot := -1
	switch m.Class {
	case "base":
	case "flip":
		out[m.A] ^= 1 << uint(m.B)
	case "dup":
		copy(slot(m.B), b.WAL[c9Hdr+m.A*fs:c9Hdr+(m.A+1)*fs])
		minSlot = m.B
	case "swap":
		copy(slot(m.A), b.WAL[c9Hdr+m.B*fs:c9Hdr+(m.B+1)*fs])
		copy(slot(m.B), b.WAL[c9Hdr+m.A*fs:c9Hdr+(m.A+1)*fs])
		minSlot = min(m.A, m.B)
	case "fedit":
		c9Put(slot(m.A), c9FrameField[m.Field], m.Val)
		minSlot = m.A
	case "hedit":
		c9Put(out, c9HdrField[m.Field], m.Val)
		if m.Fix {
			c9FixHeader(out)
			minSlot = 0
		}
	}
	if m.Fix && minSlot >= 0 && minSlot < nvalid {
		c9Rechain(out, b.PageSize, c9U32(out, 0) == 0x377f0683, minSlot, nvalid)
	}
	return out
}

func c9EditVals(old uint32) []uint32 {
	var out []uint32
	for _, v := range []uint32{0, 1, old - 1, old + 1, 0xFFFFFFFF} {
		dup := v == old
		for _, o := range out {
			if o == v {
				dup = true
			}
		}
		if !dup {
			out = append(out, v)
		}
	}
	return out
}

// c9FrameMuts enumerates classes c, d, e for a base (everything except trunc and flip).
func c9FrameMuts(b *c9Base) map[string][]c9Mut {
	out := map[string][]c9Mut{}
	add := func(m c9Mut) { out[m.class()] = append(out[m.class()], m) }
	n := b.slots()
	fs := b.fs()
	add(c9Mut{Class: "base"})
	for _, f := range []string{"magic", "version", "pagesize", "seq", "salt1", "salt2"} {
		for _, v := range c9EditVals(c9U32(b.WAL, c9HdrField[f])) {
			add(c9Mut{Class: "hedit", Field: f, Val: v})
			if f != "pagesize" { // see c09Assumptions: a checksum-consistent header with an edited page size is outside the quantifier
				add(c9Mut{Class: "hedit", Field: f, Val: v, Fix: true})
			}
		}
	}
	for i := 0; i < n; i++ {
		for _, f := range []string{"pgno", "commit", "salt1", "salt2"} {
			for _, v := range c9EditVals(c9U32(b.WAL, c9Hdr+i*fs+c9FrameField[f])) {
				add(c9Mut{Class: "fedit", A: i, Field: f, Val: v})
				if f == "pgno" || f == "commit" {
					add(c9Mut{Class: "fedit", A: i, Field: f, Val: v, Fix: true})
				}
			}
		}
	}
	for i := 0; i < n; i++ {
		for j := 0; j < n; j++ {
			if i != j {
				add(c9Mut{Class: "dup", A: i, B: j})
				add(c9Mut{Class: "dup", A: i, B: j, Fix: true})
			}
			if i < j {
				add(c9Mut{Class: "swap", A: i, B: j})
				add(c9Mut{Class: "swap", A: i, B: j, Fix: true})
			}
		}
	}
	if len(b.Old) > c9Hdr {
		for k := 0; k <= n; k++ {
			if c9Hdr+k*fs < len(b.Old) {
				add(c9Mut{Class: "splice", A: k})
			}
		}
	}
	return out
}

// ---------------------------------------------------------------------------
// litestream under test
// ---------------------------------------------------------------------------

var c9Logger = slog.New(slog.NewTextHandler(io.Discard, &slog.HandlerOptions{Level: slog.Level(127)}))

// c9LS performs one litestream read. start==32: NewWALReader (+PageMap when
// usePageMap, else VerifPageMap(budget)); start>32: NewWALReaderWithOffset +
// VerifPageMap(budget).
func c9LS(wal []byte, start int64, s1, s2 uint32, budget int64, usePageMap bool) (res c9Res) {
	defer func() {
		if p := recover(); p != nil {
			res = c9Res{Err: fmt.Sprintf("other: panic: %v", p)}
		}
	}()
	ctx := context.Background()
	rd := bytes.NewReader(wal)
	var r *litestream.WALReader
	var err error
	if start <= c9Hdr {
		if r, err = litestream.NewWALReader(rd, c9Logger); err != nil {
			return c9Res{Err: "header"}
		}
	} else {
		if r, err = litestream.NewWALReaderWithOffset(ctx, rd, start, s1, s2, c9Logger); err != nil {
			var pf *litestream.PrevFrameMismatchError
			switch {
			case errors.As(err, &pf):
				return c9Res{Err: "prev"}
			case strings.HasPrefix(err.Error(), "read header"):
				return c9Res{Err: "header"}
			}
			return c9Res{Err: "other: " + err.Error()}
		}
	}
	var m map[uint32]int64
	var end int64
	var commit uint32
	var limited bool
	if usePageMap {
		m, end, commit, err = r.PageMap(ctx)
	} else {
		m, end, commit, limited, err = r.VerifPageMap(ctx, budget)
	}
	if err != nil {
		return c9Res{Err: "other: " + err.Error()}
	}
	return c9Res{Pages: m, End: end, Commit: commit, Limited: limited}
}

func c9SameRes(a, b *c9Res, withLimited bool) bool {
	if a.Err != b.Err {
		return false
	}
	if a.Err != "" {
		return true
	}
	if a.End != b.End || a.Commit != b.Commit || len(a.Pages) != len(b.Pages) {
		return false
	}
	if withLimited && a.Limited != b.Limited {
		return false
	}
	for p, o := range a.Pages {
		if bo, ok := b.Pages[p]; !ok || bo != o {
			return false
		}
	}
	return true
}

// ---------------------------------------------------------------------------
// Evaluation of one mutated image
// ---------------------------------------------------------------------------

type c9Detail struct {
	Base       string `json:"base"`
	PageSize   int    `json:"page_size"`
	BigEndian  bool   `json:"big_endian"`
	Mutation   c9Mut  `json:"mutation"`
	MutationS  string `json:"mutation_text"`
	Start      int64  `json:"start"`
	Budget     int64  `json:"budget"`
	Litestream *c9Res `json:"litestream"`
	Reference  *c9Res `json:"reference"`
	Note       string `json:"note,omitempty"`
	BaseWAL    string `json:"base_wal_gz_b64"`
	OldWAL     string `json:"old_wal_gz_b64,omitempty"`
}

func c9Pack(b []byte) string {
	var buf bytes.Buffer
	z := gzip.NewWriter(&buf)
	z.Write(b)
	z.Close()
	return base64.StdEncoding.EncodeToString(buf.Bytes())
}

func c9Unpack(s string) ([]byte, error) {
	raw, err := base64.StdEncoding.DecodeString(s)
	if err != nil {
		return nil, err
	}
	z, err := gzip.NewReader(bytes.NewReader(raw))
	if err != nil {
		return nil, err
	}
	return io.ReadAll(z)
}

type c9Stats struct {
	evals          int64            // litestream reads compared with the reference
	wals           map[string]int64 // mutated images per class
	evalsByClass   map[string]int64
	outcomes       map[string]int64 // class|outcome
	compositions   int64
	prefixInvalid  int64            // offset reads whose prefix was invalid per the full decoder (counted, not judged)
	prevRefused    int64            // offset reads refused with PrevFrameMismatchError (agreeing with the reference)
	endBelowCommit map[string]int64 // per class: reads where the reported end offset is below the end of the last commit frame consumed
	pgno0Accepted  int64
	compSkipped    int64 // rechained images that violate the writer invariants: composition law not demanded
	samples        map[string][]any
}

func c9NewStats() *c9Stats {
	return &c9Stats{endBelowCommit: map[string]int64{}, wals: map[string]int64{}, evalsByClass: map[string]int64{}, outcomes: map[string]int64{}, samples: map[string][]any{}}
}

func (s *c9Stats) merge(o *c9Stats) {
	s.evals += o.evals
	s.compositions += o.compositions
	s.prefixInvalid += o.prefixInvalid
	s.prevRefused += o.prevRefused
	for k, v := range o.endBelowCommit {
		s.endBelowCommit[k] += v
	}
	s.pgno0Accepted += o.pgno0Accepted
	s.compSkipped += o.compSkipped
	for k, v := range o.wals {
		s.wals[k] += v
	}
	for k, v := range o.evalsByClass {
		s.evalsByClass[k] += v
	}
	for k, v := range o.outcomes {
		s.outcomes[k] += v
	}
	for k, v := range o.samples {
		if len(s.samples[k]) < 2 {
			s.samples[k] = append(s.samples[k], v...)
		}
	}
}

type c9Eval struct {
	refPages   map[uint32]int64
	refTx      map[uint32]int64
	rep        *ev.Reporter
	st         *c9Stats
	tab        c9Table
	harnessErr func(error)
	found      int // violations found by this evaluator (also for replay)
	sigs       []string
}

func c9Bucket(n int) string {
	switch {
	case n == 0:
		return "0"
	case n == 1:
		return "1"
	case n <= 3:
		return "2-3"
	case n <= 7:
		return "4-7"
	}
	return "8+"
}

// mode: 2 = full start×budget product + composition; 1 = PageMap from start +
// every start offset with budget 0; 0 = PageMap from start only.
func (e *c9Eval) evalWAL(b *c9Base, m c9Mut, wal []byte, mode int) {
	cls := m.class()
	e.st.wals[cls]++
	if e.refPages == nil {
		e.refPages, e.refTx = map[uint32]int64{}, map[uint32]int64{}
	}
	t := &e.tab
	c9Parse(wal, t)

	// A frame with page number 0 and a VALID checksum is invalid for SQLite but
	// accepted by litestream. Such a frame cannot be formed by the mutations of
	// the property's quantifier (editing the field breaks the checksum); the
	// rechained pgno=0 edit is therefore evaluated but only counted.
	observeOnly := m.Class == "fedit" && m.Fix && m.Field == "pgno" && m.Val == 0
	report := func(kind string, start, budget int64, ls, ref *c9Res, note string) {
		if observeOnly {
			e.st.pgno0Accepted++
			return
		}
		e.found++
		if len(e.sigs) < 12 {
			e.sigs = append(e.sigs, fmt.Sprintf("%s start=%d budget=%d %s", kind, start, budget, note))
		}
		if ref != nil && ref.Pages != nil {
			cp := *ref
			cp.Pages = map[uint32]int64{}
			for p, o := range ref.Pages {
				cp.Pages[p] = o
			}
			ref = &cp
		}
		d := &c9Detail{Base: b.Name, PageSize: b.PageSize, BigEndian: b.BE, Mutation: m, MutationS: m.String(),
			Start: start, Budget: budget, Litestream: ls, Reference: ref, Note: note, BaseWAL: c9Pack(b.WAL)}
		if m.Class == "splice" {
			d.OldWAL = c9Pack(b.Old)
		}
		e.rep.Report(&ev.Violation{Kind: kind,
			Signature: fmt.Sprintf("%s|%s|%s|start=%d,budget=%d", kind, b.Name, m.String(), start, budget), Detail: d})
	}

	// --- from the file start, unbounded: refwal is the oracle -----------------
	ref0, rerr := refwal.Decode(wal)
	if (rerr == nil) != t.hdrOK {
		e.harnessErr(fmt.Errorf("reference decoders disagree on header of %s %s: refwal err=%v, table hdrOK=%v (%s)", b.Name, m, rerr, t.hdrOK, t.hdrWhy))
		return
	}
	ls0 := c9LS(wal, c9Hdr, 0, 0, 0, true)
	e.st.evals++
	e.st.evalsByClass[cls]++
	var refRes c9Res
	if rerr != nil {
		refRes = c9Res{Err: "header"}
	} else {
		refRes = c9Res{Pages: ref0.Pages, EndLastCommit: ref0.EndOffset}
		refRes.End, refRes.Commit = c9Normalize(ref0.Pages, ref0.Commit, int64(t.fs))
		if t0 := t.read(0, 0); !c9SameRes(&t0, &refRes, false) || t.validFrom(0) != len(ref0.Frames) {
			e.harnessErr(fmt.Errorf("reference decoders disagree on %s %s: refwal=%+v table=%+v", b.Name, m, refRes, t0))
			return
		}
	}
	outcome := ""
	switch {
	case ls0.Err != "" && rerr == nil:
		report("rejects-valid-wal", c9Hdr, 0, &ls0, &refRes, "litestream: "+ls0.Err)
	case ls0.Err == "" && rerr != nil:
		report("accepts-invalid-header", c9Hdr, 0, &ls0, &refRes, "reference: header "+t.hdrWhy)
	case rerr != nil:
		outcome = "hdr-" + t.hdrWhy
	default:
		if !c9SameRes(&ls0, &refRes, false) {
			report("pagemap-differs", c9Hdr, 0, &ls0, &refRes, "")
		}
		// requirement (4), judged independently of map equality
		firstInvalid := int64(c9Hdr) + int64(len(ref0.Frames))*int64(t.fs)
		for p := range ls0.Pages {
			if p > ls0.Commit {
				report("page-above-commit", c9Hdr, 0, &ls0, &refRes, fmt.Sprintf("page %d > commit %d", p, ls0.Commit))
				break
			}
		}
		for p, o := range ls0.Pages {
			if o >= firstInvalid {
				report("replicates-invalid-frame", c9Hdr, 0, &ls0, &refRes, fmt.Sprintf("page %d at offset %d, first invalid frame at %d", p, o, firstInvalid))
				break
			}
		}
		if ls0.End > firstInvalid {
			report("replicates-invalid-frame", c9Hdr, 0, &ls0, &refRes, fmt.Sprintf("end offset %d beyond first invalid frame at %d", ls0.End, firstInvalid))
		}
		outcome = fmt.Sprintf("ok/committed=%s/valid-uncommitted=%v/commit=%d", c9Bucket(ref0.CommittedFrames), len(ref0.Frames) > ref0.CommittedFrames, ref0.Commit)
		if refRes.End != 0 && refRes.End < refRes.EndLastCommit {
			e.st.endBelowCommit[cls]++
		}
	}
	if outcome != "" {
		key := cls + "|" + outcome
		if e.st.outcomes[key] == 0 && len(e.st.samples[cls]) < 2 {
			e.st.samples[cls] = append(e.st.samples[cls], map[string]any{"base": b.Name, "mutation": m.String(), "wal_len": len(wal),
				"reference": outcome, "litestream_pages": len(ls0.Pages), "litestream_end": ls0.End, "litestream_commit": ls0.Commit, "litestream_err": ls0.Err})
		}
		e.st.outcomes[key]++
	}
	if mode == 0 || !t.hdrOK || ls0.Err != "" {
		return
	}

	// --- every start offset (× every budget) ----------------------------------
	n := len(t.slots)
	fs := int64(t.fs)
	budgets := []int64{0}
	if mode == 2 {
		budgets = append(budgets, 1)
		for k := 1; k <= n; k++ {
			budgets = append(budgets, int64(k)*fs)
		}
	}
	nvalid := len(ref0.Frames)
	tabLS := make([][]c9Res, n+2)
	jLo, jHi := 0, n+1
	if m.Class == "flip" && mode == 1 {
		// Only reads that touch the flipped frame can differ from the reads of
		// the unmutated base (which the base class covers with the full
		// product): the frame is first read (j=f), second read (j=f-1; every
		// earlier start sees it the same way, deeper in the chain, like the
		// read from the file start does), or is the trusted previous frame (j=f+1).
		f := (m.A - c9Hdr) / t.fs
		jLo, jHi = max(f-1, 1), min(f+1, n+1)
	}
	for j := jLo; j <= jHi; j++ {
		start := int64(c9Hdr) + int64(j)*fs
		tabLS[j] = make([]c9Res, len(budgets))
		for bi, bud := range budgets {
			if j == 0 && bud == 0 {
				tabLS[j][bi] = ls0
				continue
			}
			ls := c9LS(wal, start, t.s1, t.s2, bud, false)
			tabLS[j][bi] = ls
			ref := t.readInto(j, bud, e.refPages, e.refTx) // aliases scratch maps: consumed before the next read
			e.st.evals++
			e.st.evalsByClass[cls]++
			if j == 0 {
				// refwal stays the oracle for reads from the file start
				rr, err := refwal.DecodeFrom(wal, c9Hdr, bud)
				if err != nil {
					e.harnessErr(fmt.Errorf("refwal.DecodeFrom failed after Decode succeeded: %v", err))
					return
				}
				r2 := c9Res{Pages: rr.Pages}
				r2.End, r2.Commit = c9Normalize(rr.Pages, rr.Commit, fs)
				if !c9SameRes(&ref, &r2, false) {
					e.harnessErr(fmt.Errorf("reference decoders disagree on %s %s budget=%d: refwal=%+v table=%+v", b.Name, m, bud, r2, ref))
					return
				}
			} else if j > nvalid {
				e.st.prefixInvalid++
			}
			if ref.Err == "prev" && ls.Err == "prev" {
				e.st.prevRefused++
			}
			if ref.Err == "" && ref.End != 0 && ref.End < ref.EndLastCommit {
				e.st.endBelowCommit[cls]++
			}
			if !c9SameRes(&ls, &ref, true) {
				kind := "pagemap-differs"
				report(kind, start, bud, &ls, &ref, "")
				continue
			}
			for p := range ls.Pages {
				if p > ls.Commit {
					report("page-above-commit", start, bud, &ls, &ref, fmt.Sprintf("page %d > commit %d", p, ls.Commit))
					break
				}
			}
		}
	}
	if mode != 2 {
		return
	}
	if m.Fix && !t.writerConsistent() {
		// a forged (checksum-recomputed) chain that no SQLite writer produces:
		// per-read equality above still applies, the composition law does not.
		e.st.compSkipped++
		return
	}
	// --- composition law: chunked reads compose to the unbounded read ---------
	for j := 0; j <= n; j++ {
		whole := &tabLS[j][0]
		if whole.Err != "" {
			continue
		}
		for bi := 1; bi < len(budgets); bi++ {
			e.st.compositions++
			union := map[uint32]int64{}
			var commit uint32
			cur := j
			steps := 0
			bad := ""
			for {
				r := &tabLS[cur][bi]
				if r.Err != "" {
					if steps > 0 {
						bad = fmt.Sprintf("chunk %d at slot %d refused: %s", steps, cur, r.Err)
					}
					break
				}
				curOff := int64(c9Hdr) + int64(cur)*fs
				if r.End <= curOff {
					break
				}
				for p, o := range r.Pages {
					union[p] = o
				}
				commit = r.Commit
				if (r.End-c9Hdr)%fs != 0 || int((r.End-c9Hdr)/fs) > n {
					bad = fmt.Sprintf("chunk %d returned end offset %d not on a frame boundary inside the file", steps, r.End)
					break
				}
				cur = int((r.End - c9Hdr) / fs)
				steps++
			}
			for p := range union {
				if p > commit {
					delete(union, p)
				}
			}
			got := c9Res{Pages: union}
			got.End, got.Commit = c9Normalize(union, commit, fs)
			if bad == "" && !c9SameRes(&got, whole, false) {
				bad = fmt.Sprintf("union of %d chunks differs from the unbounded read", steps)
			}
			if bad != "" {
				report("composition-differs", int64(c9Hdr)+int64(j)*fs, budgets[bi], &got, whole, bad)
			}
		}
	}
}

// ---------------------------------------------------------------------------
// SQLite cross-validation of the reference (harness self-check)
// ---------------------------------------------------------------------------

type c9SQLCase struct {
	base *c9Base
	mut  c9Mut
}

// c9SQLiteRecover lets real SQLite recover db+wal and returns the resulting db file.
func c9SQLiteRecover(dir string, dbimg, wal []byte) (out []byte, sqlErr error, err error) {
	path := filepath.Join(dir, "r.db")
	os.Remove(path + "-shm")
	os.Remove(path + "-journal")
	if err = os.WriteFile(path, dbimg, 0o644); err != nil {
		return
	}
	if err = os.WriteFile(path+"-wal", wal, 0o644); err != nil {
		return
	}
	db, err := sql.Open("sqlite", "file:"+path+"?_pragma=busy_timeout(0)&_pragma=locking_mode(EXCLUSIVE)")
	if err != nil {
		return
	}
	db.SetMaxOpenConns(1)
	ctx := context.Background()
	conn, cerr := db.Conn(ctx)
	if cerr != nil {
		sqlErr = cerr
	} else {
		var busy, nlog, nck int
		if e := conn.QueryRowContext(ctx, "PRAGMA wal_checkpoint(TRUNCATE)").Scan(&busy, &nlog, &nck); e != nil {
			sqlErr = e
			// the schema may be unreadable; a bare read transaction still runs
			// WAL recovery and the close below checkpoints.
			var v int
			conn.QueryRowContext(ctx, "PRAGMA schema_version").Scan(&v)
		} else if busy != 0 {
			sqlErr = fmt.Errorf("checkpoint busy")
		}
		conn.Close()
	}
	db.Close()
	out, err = os.ReadFile(path)
	return
}

// c9Expected is what the reference predicts SQLite's recovery + full checkpoint yields.
func c9Expected(dbimg, wal []byte) (exp []byte, r *refwal.Result, expectOpenErr bool) {
	var t c9Table
	c9Parse(wal, &t)
	if t.versionBad && len(wal) > c9Hdr {
		return dbimg, nil, true // SQLite: SQLITE_CANTOPEN, nothing touched
	}
	r, err := refwal.Decode(wal)
	if err != nil {
		return dbimg, nil, false // invalid header: WAL ignored
	}
	if c9Implausible(r, len(dbimg)) {
		return nil, r, false // refwal.Apply would allocate commit*pagesize bytes
	}
	out, r, err := refwal.Apply(dbimg, wal)
	if err != nil {
		return dbimg, nil, false
	}
	return out, r, false
}

// c9Implausible: SQLite's checkpoint refuses (SQLITE_CORRUPT) a committed db
// size more than 64 KiB + the WAL's pages beyond the db file; only forged
// (rechained) commit fields get there.
func c9Implausible(r *refwal.Result, dbLen int) bool {
	return int64(r.Commit)*int64(r.PageSize) > int64(dbLen)+65536+int64(r.CommittedFrames)*int64(r.PageSize)
}

// c9SQLCases lists, in a fixed priority order, the images on which the
// reference is checked against real SQLite.
func c9SQLCases(b *c9Base, fm map[string][]c9Mut, seed int64) [][]c9SQLCase {
	n := b.slots()
	fs := b.fs()
	var tiers [][]c9SQLCase
	mk := func(ms []c9Mut) []c9SQLCase {
		out := make([]c9SQLCase, len(ms))
		for i, m := range ms {
			out[i] = c9SQLCase{b, m}
		}
		return out
	}
	rot := func(ms []c9Mut) []c9Mut {
		if len(ms) == 0 || seed == 0 {
			return ms
		}
		k := int(uint64(seed) % uint64(len(ms)))
		return append(append([]c9Mut(nil), ms[k:]...), ms[:k]...)
	}
	// tier 0: unmutated + truncations around every frame boundary + splices + header edits
	var t0 []c9Mut
	t0 = append(t0, fm["base"]...)
	near := map[int]bool{}
	for k := 0; k <= n; k++ {
		bnd := c9Hdr + k*fs
		for _, d := range []int{-1, 0, 1, 8, c9FHdr - 1, c9FHdr, c9FHdr + 1, c9FHdr + 8} {
			if l := bnd + d; l >= 0 && l <= len(b.WAL) && !near[l] {
				near[l] = true
				t0 = append(t0, c9Mut{Class: "trunc", A: l})
			}
		}
	}
	for _, l := range []int{0, 1, 16, 31} {
		if !near[l] {
			near[l] = true
			t0 = append(t0, c9Mut{Class: "trunc", A: l})
		}
	}
	t0 = append(t0, fm["splice"]...)
	t0 = append(t0, fm["hedit"]...)
	t0 = append(t0, fm["hedit-rechained"]...)
	tiers = append(tiers, mk(t0))
	// tier 1: frame field edits, dup, swap (raw and rechained)
	var t1 []c9Mut
	{
		var lists [][]c9Mut
		for _, c := range []string{"fedit-rechained", "swap-rechained", "dup-rechained", "fedit", "swap", "dup"} {
			lists = append(lists, rot(fm[c]))
		}
		for i := 0; ; i++ { // classes take turns so that a capped run samples each
			any := false
			for _, l := range lists {
				if i < len(l) {
					t1 = append(t1, l[i])
					any = true
				}
			}
			if !any {
				break
			}
		}
	}
	tiers = append(tiers, mk(t1))
	// tier 2: every bit of the WAL header and of every frame header
	var t2 []c9Mut
	for off := 0; off < c9Hdr; off++ {
		for bit := 0; bit < 8; bit++ {
			t2 = append(t2, c9Mut{Class: "flip", A: off, B: bit})
		}
	}
	for k := 0; k < n; k++ {
		for o := 0; o < c9FHdr; o++ {
			for bit := 0; bit < 8; bit++ {
				t2 = append(t2, c9Mut{Class: "flip", A: c9Hdr + k*fs + o, B: bit})
			}
		}
	}
	tiers = append(tiers, mk(rot(t2)))
	// tier 3: one bit per 8-byte checksum word of every page payload
	var t3 []c9Mut
	for k := 0; k < n; k++ {
		for w := 0; w < b.PageSize/8; w++ {
			if b.PageSize > 1024 && w >= 8 && w%64 != 0 {
				continue // large pages: the first 64 payload bytes, then one word per 512 bytes
			}
			bitno := (k*131 + w*7) % 64 // a different bit position per word, deterministic
			t3 = append(t3, c9Mut{Class: "flip", A: c9Hdr + k*fs + c9FHdr + w*8 + bitno/8, B: bitno % 8})
		}
	}
	tiers = append(tiers, mk(rot(t3)))
	// tier 4: all remaining truncation lengths
	var t4 []c9Mut
	stride := 1
	if b.PageSize > 1024 {
		stride = b.PageSize / 256 // large pages: lengths away from frame boundaries are sampled
	}
	for l := 0; l <= len(b.WAL); l += stride {
		if !near[l] {
			t4 = append(t4, c9Mut{Class: "trunc", A: l})
		}
	}
	tiers = append(tiers, mk(rot(t4)))
	return tiers
}

// ---------------------------------------------------------------------------
// Driver
// ---------------------------------------------------------------------------

type c9Job struct {
	base  *c9Base
	class string
	muts  []c9Mut // frame-level classes
	lo    int     // trunc: lengths [lo,hi)
	hi    int
	offs  []int // flip: byte offsets
	key   string
}

func c9ArgFlag(args []string, name string) bool {
	for _, a := range args {
		if a == name {
			return true
		}
	}
	return false
}

func c9ArgVal(args []string, name string) string {
	for i, a := range args {
		if a == name && i+1 < len(args) {
			return args[i+1]
		}
	}
	return ""
}

func c9Scratch() string {
	if d := os.Getenv("C09_SCRATCH"); d != "" {
		return d
	}
	return filepath.Join("/dev/shm", fmt.Sprintf("c09-%d", os.Getpid()))
}

func c9Bases(scratch string, pageSizes []int) ([]*c9Base, error) {
	var out []*c9Base
	for _, ps := range pageSizes {
		for _, sc := range []string{"shrink", "stale", "spill"} {
			wal, old, dbimg, err := c9Generate(filepath.Join(scratch, "gen"), ps, sc)
			if err != nil {
				return nil, fmt.Errorf("generate %s/ps%d: %w", sc, ps, err)
			}
			le := &c9Base{Name: fmt.Sprintf("%s/ps%d/le", sc, ps), Scenario: sc, PageSize: ps, WAL: wal, Old: old, DB: dbimg}
			if err := c9CheckBase(le); err != nil {
				return nil, err
			}
			bw, err := c9ReencodeBE(wal, old)
			if err != nil {
				return nil, err
			}
			bo, err := c9ReencodeBE(old, nil)
			if err != nil {
				return nil, err
			}
			be := &c9Base{Name: fmt.Sprintf("%s/ps%d/be", sc, ps), Scenario: sc, PageSize: ps, BE: true, WAL: bw, Old: bo, DB: dbimg}
			if err := c9CheckBase(be); err != nil {
				return nil, err
			}
			lr, _ := refwal.Decode(le.WAL)
			br, _ := refwal.Decode(be.WAL)
			if len(lr.Frames) != len(br.Frames) || lr.Commit != br.Commit || lr.CommittedFrames != br.CommittedFrames {
				return nil, fmt.Errorf("%s: big-endian re-encoding changed the decode", be.Name)
			}
			out = append(out, le, be)
		}
	}
	return out, nil
}

// c9CheckBase asserts that the generated base has the shape its scenario promises.
func c9CheckBase(b *c9Base) error {
	r, err := refwal.Decode(b.WAL)
	if err != nil {
		return fmt.Errorf("%s: base wal invalid: %v", b.Name, err)
	}
	if int(r.PageSize) != b.PageSize || r.BigEndian != b.BE {
		return fmt.Errorf("%s: page size / byte order mismatch", b.Name)
	}
	if r.Commit == 0 || r.CommittedFrames < 3 {
		return fmt.Errorf("%s: too few committed frames (%d)", b.Name, r.CommittedFrames)
	}
	ncommit := 0
	multi := false
	run := 0
	for _, f := range r.Frames[:r.CommittedFrames] {
		run++
		if f.Commit != 0 {
			ncommit++
			if run > 1 {
				multi = true
			}
			run = 0
		}
	}
	if ncommit < 2 || !multi {
		return fmt.Errorf("%s: need >=2 transactions, one of them multi-frame (have %d, multi=%v)", b.Name, ncommit, multi)
	}
	if img, _, err := refwal.Apply(b.DB, b.WAL); err != nil || bytes.Equal(img, b.DB) {
		return fmt.Errorf("%s: the WAL does not change the base db image (the SQLite cross-check would be vacuous)", b.Name)
	}
	n := b.slots()
	switch b.Scenario {
	case "shrink":
		var maxPg uint32
		for _, f := range r.Frames {
			if f.Pgno > maxPg {
				maxPg = f.Pgno
			}
		}
		if maxPg <= r.Commit {
			return fmt.Errorf("%s: no frame with page number above the final commit size (max pgno %d, commit %d)", b.Name, maxPg, r.Commit)
		}
		if len(r.Frames) != n || r.CommittedFrames != n {
			return fmt.Errorf("%s: unexpected tail", b.Name)
		}
	case "stale":
		if len(r.Frames) >= n {
			return fmt.Errorf("%s: no stale frames behind the valid chain (%d valid of %d)", b.Name, len(r.Frames), n)
		}
		// the stale frames must be a valid chain of the OLD image
		or, err := refwal.Decode(b.Old)
		if err != nil || len(or.Frames) < n {
			return fmt.Errorf("%s: old generation image does not cover the stale tail", b.Name)
		}
		a := c9Hdr + len(r.Frames)*b.fs()
		if !bytes.Equal(b.WAL[a:], b.Old[a:len(b.WAL)]) {
			return fmt.Errorf("%s: stale tail differs from the old generation image", b.Name)
		}
	case "spill":
		if len(r.Frames) <= r.CommittedFrames {
			return fmt.Errorf("%s: no valid uncommitted frames after the last commit (%d valid, %d committed)", b.Name, len(r.Frames), r.CommittedFrames)
		}
	}
	return nil
}

func c9Dump(bases []*c9Base) {
	for _, b := range bases {
		r, _ := refwal.Decode(b.WAL)
		fmt.Printf("%s: wal=%d bytes, %d slots, valid=%d committed=%d commit=%d db=%d pages, old=%d slots\n", b.Name, len(b.WAL), b.slots(), len(r.Frames), r.CommittedFrames, r.Commit, len(b.DB)/b.PageSize, b.oslots())
		for i := 0; i < b.slots(); i++ {
			off := c9Hdr + i*b.fs()
			fmt.Printf("   slot %2d off=%6d pgno=%3d commit=%3d salt=%08x/%08x valid=%v\n", i, off, c9U32(b.WAL, off), c9U32(b.WAL, off+4), c9U32(b.WAL, off+8), c9U32(b.WAL, off+12), i < len(r.Frames))
		}
	}
}

const c09Rule = "Base WALs are written by real SQLite at run time (scenarios: shrink = 3 transactions, the 2nd shrinks the db below page numbers of the 1st; stale = a shorter generation in front of frames of the previous generation; spill = committed transactions followed by valid frames of an open transaction), each also re-encoded with big-endian checksums. " +
	"For every base every mutation of each class is generated: trunc (every length 0..len), flip (every single bit), dup (frame i copied over slot j, i!=j), swap (two frames transposed), fedit (each frame's pgno/commit/salt1/salt2 set to 0,1,old-1,old+1,0xFFFFFFFF), hedit (header magic/version/pagesize/seq/salt1/salt2 likewise), splice (first k frames of the new generation followed by the old generation's frames, every k); '-rechained' variants additionally recompute the checksums the edit broke (to the end of the originally valid chain) so that the edit is judged on its own. " +
	"Each image is read by litestream with NewWALReader+PageMap and (classes other than flip, and the bases) with NewWALReaderWithOffset+VerifPageMap from every frame-aligned start offset (salts = header salts; including the offset at EOF and one frame beyond) under every budget in {0, 1 byte, k frames for k=1..F}; flip images: PageMap from the start plus, with budget 0, the start offsets at which the read touches the flipped frame differently from the file-start read (the flipped frame is the first frame read, the second frame read, or the trusted previous frame); reads that do not touch the flipped byte equal those of the unmutated base, which gets the full product. " +
	"Oracles: (1) equality of (page->offset map, end offset, commit, refusal) with refwal.Decode/DecodeFrom for reads from the file start and with a slot-table reference (chain seeded with the stored checksum of the frame before the start) for offset reads, the two references being required to agree with each other at the file start; (2) refwal is checked against real SQLite recovery (copy db+mutated wal, exclusive-mode open, wal_checkpoint(TRUNCATE), compare the db file); (3) chunked reads iterated from the returned end offset compose to the unbounded read; (4) from-start results hold no page above commit and nothing at or beyond the first frame the full decoder rejects. " +
	"distinct = distinct (mutation class, outcome class) pairs, outcome class = (committed-frames bucket, valid uncommitted tail present, commit size) or the header rejection reason."

func c09(args []string) int {
	if p := c9ArgVal(args, "--replay"); p != "" {
		return c09Replay(p)
	}
	timer := ev.Start()
	// The readers allocate a page buffer and maps per read; with the default
	// GC target the tiny live heap makes the collector run (and stop the
	// world) thousands of times per second. Collect on a memory limit instead.
	if s := os.Getenv("C09_GOGC"); s != "" {
		var n int
		fmt.Sscan(s, &n)
		debug.SetGCPercent(n)
	} else {
		debug.SetGCPercent(200)
	}
	budget := ev.Budget(80*time.Second, 20*time.Minute)
	deadline := time.Now().Add(budget)
	thorough := ev.Tier() == "thorough"
	scratch := c9Scratch()
	os.MkdirAll(scratch, 0o755)
	defer os.RemoveAll(scratch)

	pageSizes := []int{512, 1024}
	if thorough {
		pageSizes = []int{512, 1024, 2048, 4096, 8192, 16384, 32768, 65536}
	}
	bases, err := c9Bases(scratch, pageSizes)
	if err != nil {
		fmt.Fprintln(os.Stderr, "c09: harness error:", err)
		return 2
	}
	if c9ArgFlag(args, "--dump") {
		c9Dump(bases)
		return 0
	}
	if c9ArgFlag(args, "--probe-pagesize") {
		// Not part of the check: what litestream does with a checksum-consistent
		// header whose page size field is not a valid SQLite page size.
		b := bases[0]
		for _, v := range []uint32{0, 1, uint32(b.PageSize) - 1, uint32(b.PageSize) + 1, uint32(b.PageSize) + 8, uint32(b.PageSize) * 2} {
			m := c9Mut{Class: "hedit", Field: "pagesize", Val: v, Fix: true}
			wal := m.Apply(b)
			ls := c9LS(wal, c9Hdr, 0, 0, 0, true)
			_, rerr := refwal.Decode(wal)
			jb, _ := json.Marshal(ls)
			fmt.Printf("%s %s: refwal err=%v litestream=%s\n", b.Name, m, rerr, jb)
		}
		return 0
	}

	rep := ev.NewReporter("C09")
	var hmu sync.Mutex
	var herr error
	harnessErr := func(e error) {
		hmu.Lock()
		if herr == nil {
			herr = e
		}
		hmu.Unlock()
	}
	var stop atomic.Bool
	shouldStop := func() bool {
		if stop.Load() {
			return true
		}
		hmu.Lock()
		h := herr != nil
		hmu.Unlock()
		if h || rep.Unknown() >= 40 || time.Now().After(deadline) {
			stop.Store(true)
			return true
		}
		return false
	}

	// ---- job lists -----------------------------------------------------------
	frameMuts := map[*c9Base]map[string][]c9Mut{}
	var jobs []c9Job
	total := map[string]int64{} // base|class -> images planned
	classOrder := []string{"base", "hedit", "hedit-rechained", "splice", "fedit", "fedit-rechained", "swap", "swap-rechained", "dup", "dup-rechained"}
	for _, b := range bases {
		frameMuts[b] = c9FrameMuts(b)
	}
	for _, b := range bases {
		for _, c := range classOrder {
			ms := frameMuts[b][c]
			for i := 0; i < len(ms); i += 24 {
				j := min(i+24, len(ms))
				jobs = append(jobs, c9Job{base: b, class: c, muts: ms[i:j], key: b.Name + "|" + c})
			}
			total[b.Name+"|"+c] += int64(len(ms))
		}
	}
	for _, b := range bases {
		for lo := 0; lo <= len(b.WAL); lo += 256 {
			hi := min(lo+256, len(b.WAL)+1)
			jobs = append(jobs, c9Job{base: b, class: "trunc", lo: lo, hi: hi, key: b.Name + "|trunc"})
		}
		total[b.Name+"|trunc"] = int64(len(b.WAL) + 1)
	}
	flipRestricted := false
	for _, b := range bases {
		var offs []int
		if b.PageSize <= 1024 {
			for o := 0; o < len(b.WAL); o++ {
				offs = append(offs, o)
			}
		} else {
			flipRestricted = true
			for o := 0; o < c9Hdr; o++ {
				offs = append(offs, o)
			}
			for k := 0; k < b.slots(); k++ {
				for o := 0; o < c9FHdr+64; o++ {
					offs = append(offs, c9Hdr+k*b.fs()+o)
				}
			}
		}
		for i := 0; i < len(offs); i += 128 {
			j := min(i+128, len(offs))
			jobs = append(jobs, c9Job{base: b, class: "flip", offs: offs[i:j], key: b.Name + "|flip"})
		}
		total[b.Name+"|flip"] = int64(len(offs) * 8)
	}

	// Smallest page size first; within a page size: frame-level classes, then
	// truncations, then bit flips (the order the loops above appended them).
	sort.SliceStable(jobs, func(i, j int) bool { return jobs[i].base.PageSize < jobs[j].base.PageSize })

	// ---- SQLite validation pool ---------------------------------------------
	sqlCap := int64(6000)
	if thorough {
		sqlCap = 1 << 40
	}
	if s := os.Getenv("C09_SQLITE_MAX"); s != "" {
		fmt.Sscan(s, &sqlCap)
	}
	sqlDeadline := deadline.Add(-budget / 10)
	var sqlCases []c9SQLCase
	{
		per := make([][][]c9SQLCase, len(bases))
		for i, b := range bases {
			per[i] = c9SQLCases(b, frameMuts[b], ev.Seed())
		}
		// Inside a tier the bases take turns. Tier 0 goes first completely; the
		// other tiers are interleaved 3:3:2:1 so that a capped run still samples
		// every class (VERIF_SEED rotates which slice of a class comes first).
		flat := make([][]c9SQLCase, 5)
		for tier := 0; tier < 5; tier++ {
			idx := 0
			for {
				any := false
				for i := range bases {
					if idx < len(per[i][tier]) {
						flat[tier] = append(flat[tier], per[i][tier][idx])
						any = true
					}
				}
				if !any {
					break
				}
				idx++
			}
		}
		sqlCases = append(sqlCases, flat[0]...)
		pos := make([]int, 5)
		for {
			any := false
			for tier, w := range []int{0, 3, 3, 2, 1} {
				for k := 0; k < w && pos[tier] < len(flat[tier]); k++ {
					sqlCases = append(sqlCases, flat[tier][pos[tier]])
					pos[tier]++
					any = true
				}
			}
			if !any {
				break
			}
		}
	}
	sqlTotal := int64(len(sqlCases))
	var sqlDone, sqlInconclusive, sqlOpenErrExpected atomic.Int64
	sqlByClass := map[string]int64{}
	var sqlMu sync.Mutex
	var sqlSamples []any
	sqlCh := make(chan c9SQLCase, 64)
	var sqlWG sync.WaitGroup
	nSQL := 4
	for w := 0; w < nSQL; w++ {
		sqlWG.Add(1)
		dir := filepath.Join(scratch, fmt.Sprintf("sql%d", w))
		os.MkdirAll(dir, 0o755)
		go func() {
			defer sqlWG.Done()
			local := map[string]int64{}
			for c := range sqlCh {
				if shouldStop() {
					continue
				}
				wal := c.mut.Apply(c.base)
				exp, r, expectOpenErr := c9Expected(c.base.DB, wal)
				if r != nil && exp == nil {
					// SQLite's checkpoint refuses a db size this far beyond the file (SQLITE_CORRUPT); nothing to compare.
					sqlInconclusive.Add(1)
					continue
				}
				got, sqlErr, err := c9SQLiteRecover(dir, c.base.DB, wal)
				if err != nil {
					harnessErr(fmt.Errorf("sqlite recovery scratch: %v", err))
					continue
				}
				sqlDone.Add(1)
				local[c.mut.class()]++
				if expectOpenErr {
					sqlOpenErrExpected.Add(1)
					if sqlErr == nil || !bytes.Equal(got, c.base.DB) {
						harnessErr(fmt.Errorf("refwal vs SQLite: %s %s: expected SQLite to refuse a WAL with a checksum-valid header of unknown version (err=%v)", c.base.Name, c.mut, sqlErr))
					}
					continue
				}
				if !bytes.Equal(got, exp) {
					if sqlErr != nil {
						sqlInconclusive.Add(1)
						sqlMu.Lock()
						if len(sqlSamples) < 3 {
							sqlSamples = append(sqlSamples, map[string]any{"inconclusive": c.base.Name + " " + c.mut.String(), "sqlite_error": sqlErr.Error()})
						}
						sqlMu.Unlock()
						continue
					}
					desc := "no commit / header rejected"
					if r != nil {
						desc = fmt.Sprintf("valid=%d committed=%d commit=%d", len(r.Frames), r.CommittedFrames, r.Commit)
					}
					harnessErr(fmt.Errorf("refwal disagrees with real SQLite recovery: %s %s: refwal %s -> %d bytes expected, SQLite produced %d bytes (first difference at %d)",
						c.base.Name, c.mut, desc, len(exp), len(got), c9FirstDiff(exp, got)))
				}
			}
			sqlMu.Lock()
			for k, v := range local {
				sqlByClass[k] += v
			}
			sqlMu.Unlock()
		}()
	}
	go func() {
		var fed int64
		for _, c := range sqlCases {
			if fed >= sqlCap || time.Now().After(sqlDeadline) || shouldStop() {
				break
			}
			sqlCh <- c
			fed++
		}
		close(sqlCh)
	}()

	// ---- in-memory enumeration pool -------------------------------------------
	nw := runtime.GOMAXPROCS(0) - 2
	if nw < 1 {
		nw = 1
	}
	jobCh := make(chan c9Job, len(jobs))
	for _, j := range jobs {
		jobCh <- j
	}
	close(jobCh)
	stats := c9NewStats()
	done := map[string]int64{}
	var mu sync.Mutex
	var wg sync.WaitGroup
	for w := 0; w < nw; w++ {
		wg.Add(1)
		go func() {
			defer wg.Done()
			e := &c9Eval{rep: rep, st: c9NewStats(), harnessErr: harnessErr}
			ldone := map[string]int64{}
			var buf []byte
			for j := range jobCh {
				if shouldStop() {
					break
				}
				b := j.base
				fs := b.fs()
				switch j.class {
				case "trunc":
					for l := j.lo; l < j.hi; l++ {
						mode := 2
						if b.PageSize > 1024 {
							// large pages: the full product only where a boundary is near
							d := (l - c9Hdr) % fs
							if l > 128 && d > c9FHdr+72 && d < fs-2 {
								mode = 0
							}
						}
						e.evalWAL(b, c9Mut{Class: "trunc", A: l}, b.WAL[:l], mode)
						ldone[j.key]++
					}
				case "flip":
					buf = append(buf[:0], b.WAL...)
					for _, o := range j.offs {
						for bit := 0; bit < 8; bit++ {
							buf[o] ^= 1 << uint(bit)
							e.evalWAL(b, c9Mut{Class: "flip", A: o, B: bit}, buf, 1)
							buf[o] ^= 1 << uint(bit)
							ldone[j.key]++
						}
						if shouldStop() {
							break
						}
					}
				default:
					for _, m := range j.muts {
						e.evalWAL(b, m, m.Apply(b), 2)
						ldone[j.key]++
					}
				}
			}
			mu.Lock()
			stats.merge(e.st)
			for k, v := range ldone {
				done[k] += v
			}
			mu.Unlock()
		}()
	}
	wg.Wait()
	memS := timer.S()
	sqlWG.Wait()

	if herr != nil {
		fmt.Fprintln(os.Stderr, "c09: harness error:", herr)
		return 2
	}

	// ---- sync path (c09sync.go) ------------------------------------------------
	var syncCov map[string]any
	if herr == nil {
		var ok bool
		if syncCov, ok = c09SyncCheck().RunLayersPart(rep, c09SyncLayers(thorough), c09SyncBudget()); !ok {
			return 2
		}
	}

	// ---- evidence ------------------------------------------------------------
	exhaustive := true
	var incomplete []string
	for k, n := range total {
		if done[k] != n {
			exhaustive = false
			incomplete = append(incomplete, fmt.Sprintf("%s %d/%d", k, done[k], n))
		}
	}
	sort.Strings(incomplete)
	if incomplete == nil {
		incomplete = []string{}
	}
	classes := make([]string, 0, len(stats.outcomes))
	for k := range stats.outcomes {
		classes = append(classes, k)
	}
	sort.Strings(classes)
	var samples []any
	sk := make([]string, 0, len(stats.samples))
	for k := range stats.samples {
		sk = append(sk, k)
	}
	sort.Strings(sk)
	for _, k := range sk {
		samples = append(samples, stats.samples[k]...)
	}
	var baseDesc []any
	for _, b := range bases {
		r, _ := refwal.Decode(b.WAL)
		baseDesc = append(baseDesc, map[string]any{"name": b.Name, "wal_bytes": len(b.WAL), "frame_slots": b.slots(), "valid_frames": len(r.Frames),
			"committed_frames": r.CommittedFrames, "commit": r.Commit, "db_pages": len(b.DB) / b.PageSize, "old_generation_slots": b.oslots()})
	}
	var nWALs int64
	for _, v := range stats.wals {
		nWALs += v
	}
	cov := map[string]any{
		"evaluations":                       stats.evals,
		"distinct_nontrivial":               len(stats.outcomes),
		"rule":                              c09Rule,
		"samples":                           samples,
		"exhaustive":                        exhaustive,
		"incomplete":                        incomplete,
		"bases":                             baseDesc,
		"mutated_images":                    nWALs,
		"mutated_images_per_class":          stats.wals,
		"evaluations_per_class":             stats.evalsByClass,
		"outcome_classes":                   classes,
		"compositions_checked":              stats.compositions,
		"offset_reads_where_prefix_invalid": stats.prefixInvalid,
		"offset_reads_refused_prev_frame":   stats.prevRefused,
		"reads_with_end_below_last_commit":  stats.endBelowCommit,
		"outside_quantifier_pgno0_checksum_valid_frame_divergences":  stats.pgno0Accepted,
		"rechained_images_not_writer_consistent_composition_skipped": stats.compSkipped,
		"sqlite_recoveries":               sqlDone.Load(),
		"sqlite_recoveries_per_class":     sqlByClass,
		"sqlite_cases_planned":            sqlTotal,
		"sqlite_validation_exhaustive":    sqlDone.Load()+sqlInconclusive.Load() >= sqlTotal,
		"sqlite_inconclusive":             sqlInconclusive.Load(),
		"sqlite_expected_cantopen":        sqlOpenErrExpected.Load(),
		"sqlite_inconclusive_samples":     sqlSamples,
		"flip_restricted_for_large_pages": flipRestricted,
		"in_memory_phase_s":               memS,
		"page_sizes":                      pageSizes,
		"sync_path":                       syncCov,
		"sync_path_rule":                  c09SyncRule,
	}
	assumptions := []string{
		"offset reads: the frame before the start offset is only required to be salt-valid and its stored checksum is trusted (NewWALReaderWithOffset's contract); images whose prefix before the start is invalid per the full decoder are counted (offset_reads_where_prefix_invalid), compared against the seeded reference, and not judged against the full decoder: litestream only issues such a read after having synced that prefix itself",
		"flip class: PageMap from the start and budget-0 offset reads starting one frame before, at, and one frame after the flipped frame (not the full start x budget product); page sizes above 1024 (thorough tier): flips restricted to the WAL header, frame headers and the first 64 payload bytes of each frame, and the full start x budget product for truncations only within 96 bytes after / 2 bytes before a frame boundary",
		"a header whose page size field was edited AND whose checksum was recomputed is not enumerated (needs a checksum-consistent forged header, outside the quantifier); readHeader does not range-check the page size",
		"the SQLite cross-validation of refwal is budgeted (sqlite_recoveries of sqlite_cases_planned, fixed priority order: boundaries/frame-level/header bits/payload words/remaining truncations; VERIF_SEED rotates the slice within each class)",
		"frames with page number 0 and a valid checksum (only producible by the rechained edits) are invalid for SQLite and for the reference",
	}
	e := &ev.Evidence{PropertyID: "C09", Tier: ev.Tier(), Seed: ev.Seed(), Level: "exploration", Coverage: cov, Assumptions: assumptions, WallS: timer.S(), Violations: rep.Unknown()}
	if err := ev.Write(e); err != nil {
		fmt.Fprintln(os.Stderr, "c09: write evidence:", err)
		return 2
	}
	fmt.Printf("C09: %d images, %d litestream reads compared, %d compositions, %d outcome classes, %d sqlite recoveries (%d planned, %d inconclusive), exhaustive=%v, violations=%d, %.1fs (in-memory phase %.1fs)\n",
		nWALs, stats.evals, stats.compositions, len(stats.outcomes), sqlDone.Load(), sqlTotal, sqlInconclusive.Load(), exhaustive, rep.Unknown(), timer.S(), memS)
	return rep.Finish()
}

func c9FirstDiff(a, b []byte) int {
	n := min(len(a), len(b))
	for i := 0; i < n; i++ {
		if a[i] != b[i] {
			return i
		}
	}
	if len(a) != len(b) {
		return n
	}
	return -1
}

// c09Replay re-evaluates the image of one recorded violation.
func c09Replay(path string) int {
	raw, err := os.ReadFile(path)
	if err != nil {
		fmt.Fprintln(os.Stderr, "c09 replay:", err)
		return 2
	}
	var v struct {
		Kind      string   `json:"kind"`
		Signature string   `json:"signature"`
		Detail    c9Detail `json:"detail"`
	}
	if err := json.Unmarshal(raw, &v); err != nil {
		fmt.Fprintln(os.Stderr, "c09 replay:", err)
		return 2
	}
	if bytes.Contains(raw, []byte(`"history"`)) {
		return c09SyncCheck().Replay(path) // a violation of the sync-path half
	}
	d := v.Detail
	b := &c9Base{Name: d.Base, PageSize: d.PageSize, BE: d.BigEndian}
	if b.WAL, err = c9Unpack(d.BaseWAL); err != nil {
		fmt.Fprintln(os.Stderr, "c09 replay: base wal:", err)
		return 2
	}
	if d.OldWAL != "" {
		if b.Old, err = c9Unpack(d.OldWAL); err != nil {
			fmt.Fprintln(os.Stderr, "c09 replay: old wal:", err)
			return 2
		}
	}
	wal := d.Mutation.Apply(b)
	root, _ := os.MkdirTemp("/dev/shm", "c09-replay-")
	defer os.RemoveAll(root)
	os.Setenv("VERIF_ROOT", root) // replays of a replay are not kept
	rep := ev.NewReporter("C09")
	var herr error
	e := &c9Eval{rep: rep, st: c9NewStats(), harnessErr: func(e error) { herr = e }}
	e.evalWAL(b, d.Mutation, wal, 2)
	if herr != nil {
		fmt.Fprintln(os.Stderr, "c09 replay: harness error:", herr)
		return 2
	}
	fmt.Printf("replay %s: base=%s mutation=%s image=%d bytes\n", v.Signature, d.Base, d.Mutation, len(wal))
	var t c9Table
	c9Parse(wal, &t)
	if t.hdrOK && d.Start >= c9Hdr {
		j := int((d.Start - c9Hdr) / int64(t.fs))
		ls := c9LS(wal, d.Start, t.s1, t.s2, d.Budget, false)
		ref := t.read(j, d.Budget)
		jb, _ := json.Marshal(ls)
		rb, _ := json.Marshal(ref)
		fmt.Printf("  start=%d budget=%d\n  litestream: %s\n  reference:  %s\n", d.Start, d.Budget, jb, rb)
	} else {
		ls := c9LS(wal, c9Hdr, 0, 0, 0, true)
		jb, _ := json.Marshal(ls)
		fmt.Printf("  header verdict of the reference: ok=%v %s\n  litestream: %s\n", t.hdrOK, t.hdrWhy, jb)
	}
	if e.found == 0 {
		fmt.Println("replay: no violation on this image")
		return 0
	}
	fmt.Printf("VIOLATION property=C09 replay=%s\n  reproduced: %d violation(s) on this image, e.g.\n", path, e.found)
	for _, s := range e.sigs {
		fmt.Println("   ", s)
	}
	return 1
}
