package main

import (
	"fmt"
	"strings"
	"time"

	"github.com/benbjohnson/litestream"
	"github.com/superfly/ltx"

	"lsverif/ev"
	"lsverif/scn"
)

func init() { register("c06", c06) }

func archiveOf(s *scn.Scn) *archive {
	if a, ok := s.User.(*archive); ok {
		return a
	}
	a := newArchive()
	s.User = a
	return a
}

// c06Oracle checks every file at level >= 1 against the reference
// re-composition of the archived level-0 files it covers, per-level contiguity,
// and that every restorable TXID restores to the fold of level-0 files 1..n.
func c06Oracle(s *scn.Scn, a *archive) []*scn.Problem {
	var probs []*scn.Problem
	add := func(k, d string) { probs = append(probs, &scn.Problem{Kind: k, Detail: d}) }
	for lvl, fs := range scn.AllLevels(s.ReplicaDir) {
		if lvl == 0 {
			continue
		}
		for i, f := range fs {
			b, err := readReplicaFile(s, f)
			if err != nil {
				continue
			}
			got, err := decodeLTX(b)
			if err != nil {
				add("ltx-invalid", fmt.Sprintf("%s: %v", f, err))
				continue
			}
			want, err := a.fold(f.Min, f.Max)
			if err != nil {
				add("harness", err.Error())
				continue
			}
			if got.Hdr.Commit != want.Hdr.Commit {
				add("compacted-size-differs", fmt.Sprintf("%s has commit %d; applying level-0 files %d..%d gives %d", f, got.Hdr.Commit, f.Min, f.Max, want.Hdr.Commit))
			}
			skip := uint32(0)
			if lvl == litestream.SnapshotLevel {
				// a snapshot reads the database directly: only _litestream_seq's page may be newer than the last level-0 file
				skip = s.SeqRoot
				// and it must be complete
				for p := uint32(1); p <= got.Hdr.Commit; p++ {
					if _, ok := got.Pages[p]; !ok && p != ltx.LockPgno(got.Hdr.PageSize) {
						add("snapshot-incomplete", fmt.Sprintf("%s lacks page %d of %d", f, p, got.Hdr.Commit))
						break
					}
				}
			}
			if d := pagesEqual(want.Pages, got.Pages, skip); d != "" {
				add("compacted-pages-differ", fmt.Sprintf("%s vs level-0 files %d..%d applied in order: %s", f, f.Min, f.Max, d))
			}
			if lvl != litestream.SnapshotLevel {
				if got.Hdr.Timestamp != want.Hdr.Timestamp {
					add("compacted-timestamp-differs", fmt.Sprintf("%s carries timestamp %d; its newest input (level-0 file %d) has %d", f, got.Hdr.Timestamp, f.Max, want.Hdr.Timestamp))
				}
				if ms := f.MTime.UnixMilli(); ms != want.Hdr.Timestamp {
					add("compacted-mtime-differs", fmt.Sprintf("%s has mtime %d ms; newest input timestamp %d", f, ms, want.Hdr.Timestamp))
				}
				if i == 0 && f.Min != 1 {
					add("level-does-not-start-at-1", fmt.Sprintf("first file of level %d is %s", lvl, f))
				}
				if i > 0 && f.Min != fs[i-1].Max+1 {
					add("level-not-contiguous", fmt.Sprintf("level %d: %s follows %s (gap or overlap)", lvl, f, fs[i-1]))
				}
			}
		}
	}
	// every TXID: restore through whatever mix of levels the planner picks == fold of level-0 files 1..n
	var maxT ltx.TXID
	for n := range a.l0 {
		if n > maxT {
			maxT = n
		}
	}
	restorable := 0
	for n := ltx.TXID(1); n <= maxT; n++ {
		im, err := s.Restore(scn.RestoreOpt{TXID: n})
		if err != nil {
			if scn.IsTxNotAvailable(err) {
				continue
			}
			add("txid-restore-error", fmt.Sprintf("TXID %d: %s", n, scn.ErrClass(err)))
			continue
		}
		restorable++
		want, err := a.image(n, s.Cfg.PageSize)
		if err != nil {
			add("harness", err.Error())
			continue
		}
		if d := scn.Compare(want, im, s.SeqRoot); d != nil {
			add("restore-depends-on-levels", fmt.Sprintf("TXID %d restored from %s differs from level-0 files 1..%d applied in order: %s", n, scn.Shape(s.ReplicaDir), n, d))
		}
	}
	if maxT > 0 {
		if _, err := s.Restore(scn.RestoreOpt{TXID: maxT}); err != nil {
			add("latest-txid-unrestorable", fmt.Sprintf("TXID %d: %s (%s)", maxT, scn.ErrClass(err), scn.Shape(s.ReplicaDir)))
		}
	}
	return probs
}

func c06Check() *HistCheck {
	return &HistCheck{
		ID:    "C06",
		Level: "model_checking",
		AfterOp: func(s *scn.Scn, op string, o scn.Outcome) *scn.Problem {
			archiveOf(s).update(s)
			return nil
		},
		Final: func(s *scn.Scn) ([]*scn.Problem, string, error) {
			a := archiveOf(s)
			if s.LSOpen {
				o := s.Do("SW")
				a.update(s)
				if !o.Ack {
					return nil, "final-sw-failed:" + o.String(), nil
				}
			}
			s.RefreshSeqRoot()
			probs := c06Oracle(s, a)
			var out []*scn.Problem
			for _, p := range probs {
				if p.Kind == "harness" {
					return nil, "", &scn.HarnessError{Msg: p.Detail}
				}
				out = append(out, p)
			}
			return out, "ok/" + shapeClass(s), nil
		},
	}
}

// shapeClass abstracts the replica shape: number of files per level, bucketed.
func shapeClass(s *scn.Scn) string {
	var sb strings.Builder
	for l := 0; l <= litestream.SnapshotLevel; l++ {
		n := len(scn.ListLevel(s.ReplicaDir, l))
		if n == 0 {
			continue
		}
		c := "1"
		if n == 2 {
			c = "2"
		} else if n > 2 {
			c = "n"
		}
		fmt.Fprintf(&sb, "L%d:%s ", l, c)
	}
	return strings.TrimSpace(sb.String())
}

func c06(args []string) int {
	hc := c06Check()
	if p := replayArg(args); p != "" {
		return hc.Replay(p)
	}
	thorough := ev.Tier() == "thorough"
	d := func(q, t int) int {
		if thorough {
			return t
		}
		return q
	}
	mk := func(levels []int, f func(c *scn.Config)) scn.Config {
		return cfgWith(func(c *scn.Config) {
			c.Levels = levels
			c.L0RetentionNS = int64(1000 * time.Hour) // retention is C07's subject
			if f != nil {
				f(c)
			}
		})
	}
	l1 := mk([]int{1}, nil)
	l2 := mk([]int{1, 2}, nil)
	l3 := mk([]int{1, 2, 3}, func(c *scn.Config) { c.AutoVacuum = "INCREMENTAL"; c.VerifyCompaction = true }) // also runs litestream's own post-compaction consistency check (must never object)
	l8 := mk([]int{1, 2, 3, 4, 5, 6, 7, 8}, nil)
	l2ret := mk([]int{1, 2}, func(c *scn.Config) { c.L0RetentionNS = 1 }) // CMP:1 also prunes level 0 (restore must not change)
	l2closed := mk([]int{1, 2}, func(c *scn.Config) { c.LevelIntervalNS = int64(1000 * time.Hour) })
	if h := histArg(args); h != nil {
		hc.rep = ev.NewReporter("C06")
		legal, probs, outcome, _, trace, err := hc.exec(l2, h)
		fmt.Println(legal, probs, outcome, err, trace)
		return 0
	}
	a1 := strings.Fields("W1 W3 D SW CMP:1 SNAP LC:TRUNCATE")
	a2 := strings.Fields("W1 D SW CMP:1 CMP:2 SNAP VAC")
	a3 := strings.Fields("W3 D IVAC SW CMP:1 CMP:2 CMP:3 SNAP")
	a8 := strings.Fields("W1 SW CMP:1 CMP:2 CMP:3 CMP:4 CMP:5 CMP:6 CMP:7 CMP:8")
	aw := strings.Fields("W1 W3 U D VAC SW S RS LC:PASSIVE LC:TRUNCATE CMP:1 CMP:2 SNAP FSNAP CL START")
	seeds := [][]string{strings.Fields("W3 SW W1 SW W1 SW"), strings.Fields("W3 W3 SW D SW"), strings.Fields("W3 SW CMP:1 W1 SW LC:TRUNCATE W1 SW")}
	layers := []Layer{
		// snapshots and compactions taken right after litestream was restarted (in-memory positions gone, WAL still
		// the generation the newest level-0 file came from)
		{Name: "seeded/L1-L2/after-restart", Cfg: l2, Alphabet: strings.Fields("S SW SNAP FSNAP CMP:1 W1"), Depth: d(2, 3),
			Seeds: [][]string{strings.Fields("W3 SW W1 SW CL START"), strings.Fields("W3 SW W1 S KILL NEW"), strings.Fields("W3 SW W1 SW KILL NEW"), strings.Fields("W3 SW LC:TRUNCATE W1 SW KILL NEW")}},
		{Name: "exact/L1", Cfg: l1, Alphabet: a1, Depth: d(4, 6)},
		{Name: "exact/L1-L2", Cfg: l2, Alphabet: a2, Depth: d(4, 6)},
		{Name: "seeded/L1-L2", Cfg: l2, Alphabet: a2, Depth: d(3, 4), Seeds: seeds},
		{Name: "seeded/L1-L3/incr-vacuum", Cfg: l3, Alphabet: a3, Depth: d(2, 4), Seeds: seeds},
		{Name: "seeded/L1-L8", Cfg: l8, Alphabet: a8, Depth: d(3, 5), Seeds: seeds[:1]},
		{Name: "seeded/L1-L2/l0-pruned", Cfg: l2ret, Alphabet: a2, Depth: d(2, 4), Seeds: seeds},
		{Name: "seeded/L1-L2/interval-closed", Cfg: l2closed, Alphabet: a2, Depth: d(2, 3), Seeds: seeds[:1]},
		// a large image already checkpointed into the database file, then a shrink that lives only in the WAL
		{Name: "seeded/L1-L2/shrink-after-checkpoint", Cfg: l2, Alphabet: strings.Fields("D VAC SW SNAP CMP:1 W1"), Depth: d(4, 5),
			Seeds: [][]string{strings.Fields("W3 W3 W3 SW LC:TRUNCATE"), strings.Fields("W3 W3 W3 SW LC:PASSIVE D")}},
		{Name: "seeded/L1-L3/incr-shrink-after-checkpoint", Cfg: l3, Alphabet: strings.Fields("D IVAC SW SNAP CMP:1 W1"), Depth: d(3, 5),
			Seeds: [][]string{strings.Fields("W3 W3 W3 SW LC:TRUNCATE D")}},
		{Name: "merged/L1-L2/wide", Cfg: l2, Alphabet: aw, Depth: d(8, 12), Merge: true, MaxRuns: int64(d(2500, 120000)), Seeds: seeds[:1]},
	}
	return hc.RunLayers(layers, ev.Budget(100*time.Second, 40*time.Minute),
		[]string{
			"no storage faults (C05) and no snapshot retention (C07) in these histories",
			"every level-0 file is archived by the harness when it first appears on the replica; the reference re-composition is a fold over those archived files decoded with the ltx library",
			"a snapshot (level 9) reads the database directly, so the page holding litestream's own _litestream_seq row is excluded when comparing a snapshot with the fold",
		},
		"every history over the layer alphabet (writes, shrinking deletes/VACUUM, syncs, in-chain full snapshots via TRUNCATE checkpoints, Compact(level) for every configured level, Snapshot) up to the layer depth for level layouts 1, 2, 3 and 8; oracle: each compacted file == fold of the level-0 files it covers (pages, size, newest input's timestamp), levels contiguous from 1, every TXID restores to fold(1..n) whatever the mix of levels")
}
