package main

import (
	"fmt"
	"os"
	"strconv"
	"strings"
	"sync"
	"time"

	"lsverif/scn"
)

func init() { register("bench", bench) }

// bench <workers> <n> <mode> [ops...]; mode: new | ops | oracle
func bench(args []string) int {
	workers, _ := strconv.Atoi(args[0])
	n, _ := strconv.Atoi(args[1])
	mode := args[2]
	hist := args[3:]
	t0 := time.Now()
	var wg sync.WaitGroup
	for w := 0; w < workers; w++ {
		wg.Add(1)
		go func() {
			defer wg.Done()
			for i := 0; i < n; i++ {
				switch mode {
				case "mkdir2":
					d := fmt.Sprintf("/dev/shm/bw-%d-%d/b-%d", os.Getpid(), w, i)
					os.MkdirAll(d, 0o755)
					os.WriteFile(d+"/f", make([]byte, 8192), 0o644)
					os.RemoveAll(d)
				case "mkdir":
					d := fmt.Sprintf("/dev/shm/b-%d-%d", os.Getpid(), i*1000+w)
					os.MkdirAll(d, 0o755)
					os.WriteFile(d+"/f", make([]byte, 8192), 0o644)
					os.RemoveAll(d)
				default:
					s, err := scn.New(scn.DefaultConfig())
					if err != nil {
						panic(err)
					}
					for _, op := range hist {
						s.Do(op)
					}
					if mode == "oracle" {
						s.AckOracle(false)
					}
					if mode == "cross" {
						s.AckOracle(true)
					}
					s.Destroy()
				}
			}
		}()
	}
	wg.Wait()
	el := time.Since(t0)
	fmt.Printf("workers=%d mode=%s ops=%s per-run=%v throughput=%.0f/s\n", workers, mode, strings.Join(hist, " "), el/time.Duration(n), float64(workers*n)/el.Seconds())
	return 0
}
