package main

import (
	"fmt"
	"strings"
	"time"

	"lsverif/ev"
	"lsverif/scn"
)

// C09, second half: the sync path that turns the reader's page map into replicated files.
// The reader half (c09.go) decides which frames count; this half decides that what db.sync /
// writeLTXFromWAL put into the LTX files is exactly that: the header's commit size is the
// committed database size (the mxFrame commit field SQLite itself honours), no page above it
// is present, and every TXID decodes to one committed state of the source. It is the E1
// history explorer over alphabets biased towards what makes the committed size differ from
// the database FILE size: shrinking commits (VACUUM, incremental vacuum) that live only in
// the WAL on top of a large checkpointed file, growth that lives only in the WAL, stale tails.

func c09SyncCheck() *HistCheck {
	return &HistCheck{
		ID:    "C09",
		Level: "exploration",
		Final: func(s *scn.Scn) ([]*scn.Problem, string, error) {
			acked := false
			if s.LSOpen {
				o := s.Do("SW")
				if !o.Ack {
					return nil, "final-sw-failed:" + o.String(), nil
				}
				acked = true
			}
			var probs []*scn.Problem
			var newest *ltxFile
			var newestRef scn.FileRef
			nfiles := 0
			for _, fs := range scn.AllLevels(s.ReplicaDir) {
				for _, f := range fs {
					b, err := readReplicaFile(s, f)
					if err != nil {
						continue
					}
					lf, err := decodeLTX(b)
					if err != nil {
						probs = append(probs, &scn.Problem{Kind: "ltx-invalid", Detail: fmt.Sprintf("%s: %v", f, err)})
						continue
					}
					nfiles++
					for p := range lf.Pages {
						if p > lf.Hdr.Commit {
							probs = append(probs, &scn.Problem{Kind: "page-beyond-commit", Detail: fmt.Sprintf("%s holds page %d, header commit is %d", f, p, lf.Hdr.Commit)})
							break
						}
					}
					if f.Level == 0 && (newest == nil || f.Max > newestRef.Max) {
						newest, newestRef = lf, f
					}
				}
			}
			if acked && newest != nil {
				im, _, err := s.SourceImage()
				if err != nil {
					return nil, "", &scn.HarnessError{Msg: "source image: " + err.Error()}
				}
				if int(newest.Hdr.Commit) != im.Pages() {
					probs = append(probs, &scn.Problem{Kind: "commit-size-mismatch", Detail: fmt.Sprintf("after an acknowledged sync the newest level-0 file %s declares %d pages; SQLite's committed size is %d pages", newestRef, newest.Hdr.Commit, im.Pages())})
				}
			}
			probs = append(probs, c02Oracle(s, false)...)
			return probs, fmt.Sprintf("ok/files=%d/%s", nfiles, levelsPresent(s)), nil
		},
	}
}

func c09SyncLayers(thorough bool) []Layer {
	d := func(q, t int) int {
		if thorough {
			return t
		}
		return q
	}
	cfgs := c01Configs()
	big := [][]string{
		strings.Fields("W3 W3 W3 SW LC:TRUNCATE"),  // large image entirely in the database file, WAL truncated
		strings.Fields("W3 W3 W3 SW CK:PASSIVE"),   // same, WAL kept (stale frames above a restarted prefix later)
		strings.Fields("W3 W3 W3 SW LC:PASSIVE D"), // freelist populated, nothing shrunk yet
		strings.Fields("W1 SW W3 W3"),              // growth that lives only in the WAL
	}
	return []Layer{
		{Name: "sync/base/shrink-in-wal", Cfg: cfgs["base"], Alphabet: strings.Fields("D VAC S SW W1 CK:PASSIVE LC:TRUNCATE"), Depth: d(3, 5), Seeds: big},
		{Name: "sync/avincr/incr-shrink-in-wal", Cfg: cfgs["avincr"], Alphabet: strings.Fields("D IVAC S SW W3 CK:TRUNCATE"), Depth: d(3, 5), Seeds: big},
		{Name: "sync/chunk1/shrink-under-byte-budget", Cfg: cfgs["chunk1"], Alphabet: strings.Fields("D VAC S SW W1 CK:RESTART"), Depth: d(2, 4), Seeds: big[:3]},
		{Name: "sync/min3/exact", Cfg: cfgs["min3"], Alphabet: alphaShape, Depth: d(3, 4)},
	}
}

const c09SyncRule = "sync path: every history over the layer alphabets (writes, shrinking deletes, VACUUM / incremental vacuum, application and litestream checkpoints, syncs; also under a one-frame MaxSyncWALBytes budget) up to the layer depth from seeds that put a large image into the database file; oracle on every replicated file: no page above the header's commit size, newest level-0 commit size == SQLite's committed size after an acknowledged sync, every TXID restores to one committed state of the source"

func c09SyncBudget() time.Duration { return ev.Budget(25*time.Second, 10*time.Minute) }
