//go:build c17

package main

import (
	"context"
	"fmt"
	"os"
	"path/filepath"

	"github.com/benbjohnson/litestream"
	"github.com/benbjohnson/litestream/file"
	"github.com/superfly/ltx"
)

// Layer 3: the follow-mode apply step (Replica.applyLTXFile through the hook VerifApplyNewLTXFiles) on a follower
// file that ends around the lock page. SQLite never writes the lock page and LTX files never carry it, so whenever
// an applied file's commit size reaches or passes the lock page the follower file must be brought to exactly
// commit x page size by the apply step itself: lock page inside, AT THE END OF, or just beyond the committed range
// (the property's quantifier; a database that ends on the lock page is not something SQLite produces, hence the
// synthetic LTX file, like layer 2).

type c17Follow struct {
	PageSize int    `json:"page_size"`
	Lock     int    `json:"lock_pgno"`
	Before   uint32 `json:"follower_pages_before"`
	Commit   uint32 `json:"commit"`
}

func c17FollowCases(ps, lock int) []c17Follow {
	var out []c17Follow
	for before := lock - 2; before <= lock+1; before++ {
		for commit := lock - 1; commit <= lock+2; commit++ {
			if before < 1 || commit < 1 {
				continue
			}
			out = append(out, c17Follow{PageSize: ps, Lock: lock, Before: uint32(before), Commit: uint32(commit)})
		}
	}
	return out
}

// c17FollowRun builds a replica holding one level-0 file [2-2] with the given commit size that carries page 1 and
// every page in (before, commit] except the lock page, applies it to a follower file of `before` pages, and checks
// size and content.
func c17FollowRun(dir string, fc c17Follow) (*c17Viol, error) {
	os.RemoveAll(dir)
	ps := fc.PageSize
	rdir := filepath.Join(dir, "replica")
	if err := os.MkdirAll(filepath.Join(rdir, "ltx", "0"), 0o755); err != nil {
		return nil, err
	}
	defer os.RemoveAll(dir)
	// follower as of TXID 1
	fpath := filepath.Join(dir, "follower")
	f, err := os.OpenFile(fpath, os.O_RDWR|os.O_CREATE|os.O_TRUNC, 0o644)
	if err != nil {
		return nil, err
	}
	defer f.Close()
	if err := f.Truncate(int64(fc.Before) * int64(ps)); err != nil {
		return nil, err
	}
	for p := uint32(1); p <= fc.Before; p++ {
		if int(p) == fc.Lock {
			continue
		}
		if _, err := f.WriteAt(c17FillPage('D', p, ps), int64(p-1)*int64(ps)); err != nil {
			return nil, err
		}
	}
	// level-0 file 2-2
	lf, err := os.Create(filepath.Join(rdir, "ltx", "0", ltx.FormatFilename(2, 2)))
	if err != nil {
		return nil, err
	}
	enc, err := ltx.NewEncoder(lf)
	if err != nil {
		return nil, err
	}
	if err := enc.EncodeHeader(ltx.Header{Version: ltx.Version, PageSize: uint32(ps), Commit: fc.Commit, MinTXID: 2, MaxTXID: 2,
		Timestamp: 1700000000000, PreApplyChecksum: ltx.ChecksumFlag | 1}); err != nil {
		return nil, err
	}
	want := map[uint32][]byte{}
	for p := uint32(1); p <= fc.Before && p <= fc.Commit; p++ {
		if int(p) != fc.Lock {
			want[p] = c17FillPage('D', p, ps)
		}
	}
	var pages []uint32
	pages = append(pages, 1)
	for p := fc.Before + 1; p <= fc.Commit; p++ {
		if int(p) != fc.Lock && p != 1 {
			pages = append(pages, p)
		}
	}
	for _, p := range pages {
		d := c17FillPage('W', p, ps)
		want[p] = d
		if err := enc.EncodePage(ltx.PageHeader{Pgno: p}, d); err != nil {
			return nil, fmt.Errorf("encode page %d (commit %d, lock %d): %w", p, fc.Commit, fc.Lock, err)
		}
	}
	enc.SetPostApplyChecksum(ltx.ChecksumFlag | 2)
	if err := enc.Close(); err != nil {
		return nil, err
	}
	if err := lf.Close(); err != nil {
		return nil, err
	}
	r := litestream.NewReplicaWithClient(nil, file.NewReplicaClient(rdir))
	got, err := r.VerifApplyNewLTXFiles(context.Background(), f, 1, uint32(ps))
	if err != nil {
		return &c17Viol{Kind: "follow-apply-failed", Msg: fmt.Sprintf("applying a level-0 file with commit %d (lock page %d) to a follower of %d pages: %v", fc.Commit, fc.Lock, fc.Before, err)}, nil
	}
	if got != 2 {
		return &c17Viol{Kind: "follow-apply-failed", Msg: fmt.Sprintf("follower advanced to TXID %d, want 2", got)}, nil
	}
	fi, err := f.Stat()
	if err != nil {
		return nil, err
	}
	if fi.Size() != int64(fc.Commit)*int64(ps) {
		return &c17Viol{Kind: "follower-size-differs", Msg: fmt.Sprintf("follower is %d bytes (%d pages) after applying a file with commit %d (lock page %d, %d pages before): want %d pages", fi.Size(), fi.Size()/int64(ps), fc.Commit, fc.Lock, fc.Before, fc.Commit)}, nil
	}
	buf := make([]byte, ps)
	for p := uint32(1); p <= fc.Commit; p++ {
		if _, err := f.ReadAt(buf, int64(p-1)*int64(ps)); err != nil {
			return nil, err
		}
		if int(p) == fc.Lock {
			if !allZero(buf) {
				return &c17Viol{Kind: "lock-page-not-empty", Msg: fmt.Sprintf("follower: lock page %d is not empty", p)}, nil
			}
			continue
		}
		w, ok := want[p]
		if ok && p == 1 {
			// follow mode rewrites header bytes 18-19 (journal mode) and 24-27 (change counter) on page 1
			w, buf = append([]byte{}, w...), append([]byte{}, buf...)
			for _, i := range []int{18, 19, 24, 25, 26, 27} {
				w[i], buf[i] = 0, 0
			}
		}
		if ok && string(w) != string(buf) {
			return &c17Viol{Kind: "follower-page-differs", Msg: fmt.Sprintf("follower page %d differs (commit %d, lock %d)", p, fc.Commit, fc.Lock)}, nil
		}
	}
	return nil, nil
}
