package main

import (
	"fmt"
	"os"
	"sort"
	"strings"
	"sync"
	"sync/atomic"
	"time"

	"github.com/benbjohnson/litestream"

	"lsverif/ev"
	"lsverif/faultclient"
	"lsverif/scn"
)

func init() { register("c05", c05) }

type c05Result struct {
	Points   []faultclient.Point
	Problems []*scn.Problem
	Outcome  string
	Trace    []string
	Harness  error
}

// c05Run executes one scenario under a deviation plan and evaluates C05's oracle.
func c05Run(sc e3Scenario, plan map[int]string) (res c05Result) {
	var fc *faultclient.Client
	var s *scn.Scn
	add := func(k, d string) {
		for _, p := range res.Problems {
			if p.Kind == k {
				return
			}
		}
		res.Problems = append(res.Problems, &scn.Problem{Kind: k, Detail: d})
	}
	calls := 0
	after := func(p faultclient.Point, err error) {
		calls++
		// (a) no hole in the level-0 sequence on the replica, at any instant
		l0 := scn.ListLevel(s.ReplicaDir, 0)
		for i := 1; i < len(l0); i++ {
			if l0[i].Min != l0[i-1].Max+1 {
				add("l0-hole", fmt.Sprintf("after call #%d (%s %s %s): level-0 files %s then %s", p.Index, p.Kind, p.Arg, p.Dev, l0[i-1], l0[i]))
			}
		}
		// (b) the replica stays restorable to a committed state throughout
		if len(l0) == 0 && len(scn.ListLevel(s.ReplicaDir, litestream.SnapshotLevel)) == 0 {
			return
		}
		im, rerr := s.Restore(scn.RestoreOpt{})
		if rerr != nil {
			add("replica-unrestorable", fmt.Sprintf("after call #%d (%s %s %s): %s [%s]", p.Index, p.Kind, p.Arg, p.Dev, scn.ErrClass(rerr), scn.Shape(s.ReplicaDir)))
			return
		}
		if len(s.MatchLedger(im)) == 0 {
			s.RecordLedgerNow()
			if len(s.MatchLedger(im)) == 0 {
				add("replica-state-not-committed", fmt.Sprintf("after call #%d (%s %s %s): restore(latest) equals no committed source state [%s]", p.Index, p.Kind, p.Arg, p.Dev, scn.Shape(s.ReplicaDir)))
			}
		}
	}
	var err error
	s, err = scn.NewOpt(sc.Cfg, func(x *scn.Scn) {
		x.WrapClient = func(inner litestream.ReplicaClient) litestream.ReplicaClient {
			fc = faultclient.New(inner, plan)
			fc.After = after
			return fc
		}
	})
	if err != nil {
		res.Harness = err
		return
	}
	defer s.Destroy()
	ackCheck := func(op string) {
		loc, rem := s.LocalMaxL0(), s.RemoteMaxL0()
		if rem < loc {
			add("false-ack", fmt.Sprintf("%s acknowledged with local TXID %d but replica level-0 max %d", op, loc, rem))
		}
		p, oerr := s.AckOracle(false)
		if oerr != nil {
			res.Harness = oerr
			return
		}
		if p != nil {
			add("false-ack/"+p.Kind, op+" acknowledged: "+p.Detail)
		}
	}
	acks, fails := 0, 0
	for _, op := range sc.Ops {
		o := s.Do(op)
		if o.Illegal {
			continue
		}
		if o.Ack {
			acks++
			ackCheck(op)
		} else if o.Err != nil {
			fails++
		}
	}
	// Fault-free suffix: the replica catches up.
	fc.Plan = nil
	mainPoints := len(fc.Points)
	if !s.LSOpen {
		s.Do("START")
	}
	for _, op := range []string{"SW", "CMP:1", "SW"} {
		o := s.Do(op)
		if op == "SW" && !o.Ack {
			// one more attempt is what the monitor loop does after an error cleared its cached position
			o = s.Do(op)
			if !o.Ack {
				add("no-catch-up", "fault-free SyncAndWait after the faults: "+o.String())
			}
		}
		if o.Ack {
			ackCheck("suffix " + op)
		}
	}
	for lvl, fs := range scn.AllLevels(s.ReplicaDir) {
		if lvl == 0 || lvl == litestream.SnapshotLevel {
			continue
		}
		for i := 1; i < len(fs); i++ {
			if fs[i].Min > fs[i-1].Max+1 {
				add("level-gap-after-catch-up", fmt.Sprintf("level %d: %s then %s", lvl, fs[i-1], fs[i]))
			}
		}
	}
	res.Points = fc.Points[:mainPoints]
	res.Trace = s.Trace
	res.Outcome = fmt.Sprintf("acks=%d/failed-ops=%d/%s", acks, fails, shapeClass(s))
	return
}

func c05Scenarios() []e3Scenario {
	f := strings.Fields
	keep := cfgWith(func(c *scn.Config) { c.L0RetentionNS = int64(1000 * time.Hour) })
	prune := cfgWith(func(c *scn.Config) { c.L0RetentionNS = 1 })
	nolocal := cfgWith(func(c *scn.Config) { c.L0RetentionNS = 1; c.UseStore = false })
	return []e3Scenario{
		{"sync-compact", keep, f("W1 SW W3 S W1 SW CMP:1 W1 SW")},
		{"compact-prune-snapshot", prune, f("W1 SW W1 SW CMP:1 W1 SW CMP:1 CMP:2 SNAP W1 SW RET9A:1")},
		{"close-restart", keep, f("W1 SW W1 S W1 CL START W1 SW")},
		{"ckpt-chain", cfgWith(func(c *scn.Config) { c.MinCheckpointPageN = 3; c.TruncatePageN = 8 }), f("W3 SW W3 SW LC:TRUNCATE W1 SW CMP:1")},
		{"retention", prune, f("W1 SW W1 SW W1 SW CMP:1 RETL0A:2 W1 SW SNAP W1 SW SNAP RET9A:1 CMP:1 CMP:2")},
		{"nostore-remote-read", nolocal, f("W1 SW W1 SW CMP:1 W1 SW CMP:1 CMP:2 W1 SW CMP:1 CMP:2")},
		{"reset-midway", keep, f("W1 SW W1 SW RSET W1 SW CMP:1")},
		{"kill-restart", keep, f("W1 SW W1 S KILL NEW W1 SW CMP:1")},
		// a compaction whose upload fails (possibly after taking effect) between two successful ones, with level-0
		// retention in between: cached level maxima, listings and names must still agree afterwards
		{"compact-fail-then-prune", keep, f("W1 SW W1 SW CMP:1 W1 SW W1 SW CMP:1 RETL0A:4 W1 SW W1 SW CMP:1 CMP:2")},
	}
}

func c05(args []string) int {
	t := ev.Start()
	rep := ev.NewReporter("C05")
	thorough := ev.Tier() == "thorough"
	deadline := time.Now().Add(ev.Budget(100*time.Second, 40*time.Minute))
	scs := c05Scenarios()
	if one := os.Getenv("C05_ONE"); one != "" {
		// debugging aid: C05_ONE="<scenario>;<call>=<deviation>,..." runs one plan and prints calls and problems
		parts := strings.SplitN(one, ";", 2)
		plan := map[int]string{}
		if len(parts) == 2 && parts[1] != "" {
			for _, kv := range strings.Split(parts[1], ",") {
				var i int
				var d string
				if _, err := fmt.Sscanf(strings.Replace(kv, "=", " ", 1), "%d %s", &i, &d); err == nil {
					plan[i] = d
				}
			}
		}
		for _, sc := range scs {
			if sc.Name == parts[0] {
				r := c05Run(sc, plan)
				for _, p := range r.Points {
					fmt.Printf("  #%d %s %s %s\n", p.Index, p.Kind, p.Arg, p.Dev)
				}
				fmt.Println("trace:", r.Trace)
				for _, p := range r.Problems {
					fmt.Println("PROBLEM:", p)
				}
				return 0
			}
		}
		return 2
	}
	if !thorough {
		// quick tier: every scenario with every single deviation (about 25 s), then pairs in this order until the budget ends
		scs = []e3Scenario{scs[6], scs[2], scs[7], scs[0], scs[3], scs[8], scs[1], scs[4], scs[5]} // small, state-rebuilding scenarios first: they get their pairs done
	}
	type job struct {
		sc   e3Scenario
		plan map[int]string
	}
	var evals, devRuns int64
	outcomes := map[string]int{}
	var mu sync.Mutex
	var samples []any
	exhaustive := true
	var harnessErr error
	type scRep struct {
		Name    string `json:"name"`
		Ops     string `json:"ops"`
		Points  int    `json:"client_calls"`
		Singles int    `json:"single_deviation_runs"`
		Pairs   int    `json:"pair_deviation_runs"`
		Done    bool   `json:"complete"`
	}
	var reports []scRep
	runJobs := func(jobs []job) (done int) {
		var idx atomic.Int64
		var wg sync.WaitGroup
		for w := 0; w < 16; w++ {
			wg.Add(1)
			go func() {
				defer wg.Done()
				for {
					i := int(idx.Add(1) - 1)
					if i >= len(jobs) || time.Now().After(deadline) {
						return
					}
					j := jobs[i]
					r := c05Run(j.sc, j.plan)
					atomic.AddInt64(&evals, 1)
					if r.Harness != nil {
						mu.Lock()
						harnessErr = r.Harness
						mu.Unlock()
						return
					}
					var devs []string
					var keys []int
					for k := range j.plan {
						keys = append(keys, k)
					}
					sort.Ints(keys)
					for _, k := range keys {
						kind := "?"
						if k-1 < len(r.Points) {
							kind = r.Points[k-1].Kind + " " + r.Points[k-1].Arg
						}
						devs = append(devs, fmt.Sprintf("#%d %s=%s", k, kind, j.plan[k]))
					}
					mu.Lock()
					outcomes[r.Outcome]++
					if len(samples) < 6 && (i%53 == 1) {
						samples = append(samples, fmt.Sprintf("%s with {%s} => %s, %d problems", j.sc.Name, strings.Join(devs, "; "), r.Outcome, len(r.Problems)))
					}
					mu.Unlock()
					if len(r.Problems) > 0 {
						again := c05Run(j.sc, j.plan)
						if !sameProblems(r.Problems, again.Problems) {
							mu.Lock()
							harnessErr = fmt.Errorf("nondeterministic: %s %v: %v vs %v", j.sc.Name, j.plan, r.Problems, again.Problems)
							mu.Unlock()
							return
						}
						for _, p := range r.Problems {
							var dk []string
							for _, k := range keys {
								kind := "?"
								if k-1 < len(r.Points) {
									kind = r.Points[k-1].Kind
								}
								dk = append(dk, kind+"="+j.plan[k])
							}
							rep.Report(&ev.Violation{Kind: p.Kind, Signature: fmt.Sprintf("%s|%s|%s|%s", p.Kind, j.sc.Name, strings.Join(dk, ","), strings.Join(devs, "; ")),
								Detail: map[string]any{"scenario": j.sc, "plan": j.plan, "problem": p.String(), "trace": r.Trace, "points": r.Points}})
						}
					}
				}
			}()
		}
		wg.Wait()
		d := int(idx.Load())
		if d > len(jobs) {
			d = len(jobs)
		}
		return d
	}
	// Daemon-mode phase (c05daemon.go): the monitors, not explicit syncs, must bring the replica up to date after
	// one failing storage call at start-up.
	type dj struct {
		st c05DaemonStart
		k  int
	}
	var djobs []dj
	for _, st := range c05DaemonStarts() {
		for k := 1; k <= c05DaemonCalls; k++ {
			djobs = append(djobs, dj{st, k})
		}
	}
	var daemonRuns, daemonNotReached atomic.Int64
	daemonPoints := map[string]int{}
	{
		var idx atomic.Int64
		var wg sync.WaitGroup
		for w := 0; w < 8; w++ {
			wg.Add(1)
			go func() {
				defer wg.Done()
				for {
					i := int(idx.Add(1) - 1)
					if i >= len(djobs) {
						return
					}
					j := djobs[i]
					probs, reached, point, herr := c05DaemonRun(j.st, j.k)
					if herr != nil {
						mu.Lock()
						harnessErr = herr
						mu.Unlock()
						return
					}
					daemonRuns.Add(1)
					if !reached {
						daemonNotReached.Add(1)
					}
					mu.Lock()
					daemonPoints[reDigits.ReplaceAllString(point, "#")]++
					mu.Unlock()
					if len(probs) > 0 {
						// replay-twice rule: the same start state and failing call must fail again
						again, _, _, _ := c05DaemonRun(j.st, j.k)
						if !sameProblems(probs, again) {
							mu.Lock()
							harnessErr = fmt.Errorf("daemon phase not reproducible: %s call %d: %v vs %v", j.st.Name, j.k, probs, again)
							mu.Unlock()
							return
						}
						for _, p := range probs {
							rep.Report(&ev.Violation{Kind: p.Kind, Signature: fmt.Sprintf("%s|daemon/%s|%s", p.Kind, j.st.Name, reDigits.ReplaceAllString(point, "#")),
								Detail: map[string]any{"start": j.st, "failing_call": j.k, "point": point, "problem": p.String()}})
						}
					}
				}
			}()
		}
		wg.Wait()
		evals += daemonRuns.Load()
		fmt.Printf("[C05] daemon-mode phase: runs=%d (fault not reached in %d) distinct failing-call classes=%d\n", daemonRuns.Load(), daemonNotReached.Load(), len(daemonPoints))
	}
	var quickSingles [][]job // quick tier: the single-deviation jobs per scenario, for the pair phase below
	for _, sc := range scs {
		base := c05Run(sc, nil)
		evals++
		if base.Harness != nil {
			harnessErr = base.Harness
			break
		}
		for _, p := range base.Problems {
			rep.Report(&ev.Violation{Kind: p.Kind, Signature: p.Kind + "|" + sc.Name + "|no-faults", Detail: map[string]any{"scenario": sc, "problem": p.String()}})
		}
		r := scRep{Name: sc.Name, Ops: strings.Join(sc.Ops, " "), Points: len(base.Points)}
		// every single deviation at every point
		var jobs []job
		for _, p := range base.Points {
			for _, d := range faultclient.Menu(p.Kind) {
				jobs = append(jobs, job{sc, map[int]string{p.Index: d}})
			}
		}
		done := runJobs(jobs)
		r.Singles = done
		devRuns += int64(done)
		r.Done = done == len(jobs)
		if !thorough {
			quickSingles = append(quickSingles, jobs)
		}
		if thorough && r.Done && harnessErr == nil {
			// every pair: the second point is re-derived from the run with the first deviation applied
			var pairs []job
			for _, j1 := range jobs {
				var i1 int
				for k := range j1.plan {
					i1 = k
				}
				r1 := c05Run(sc, j1.plan)
				for _, p := range r1.Points {
					if p.Index <= i1 {
						continue
					}
					for _, d := range faultclient.Menu(p.Kind) {
						pairs = append(pairs, job{sc, map[int]string{i1: j1.plan[i1], p.Index: d}})
					}
				}
				if time.Now().After(deadline) {
					break
				}
			}
			dp := runJobs(pairs)
			r.Pairs = dp
			devRuns += int64(dp)
			r.Done = dp == len(pairs)
		}
		if !r.Done {
			exhaustive = false
		}
		reports = append(reports, r)
		fmt.Printf("[C05] scenario %-24s calls=%d single-deviation runs=%d pair runs=%d complete=%v\n", sc.Name, r.Points, r.Singles, r.Pairs, r.Done)
		if harnessErr != nil {
			break
		}
	}
	// Quick tier: with every single deviation of every scenario done, the rest of the budget goes into pairs,
	// scenario by scenario ("complete" keeps meaning "all singles"; quick_pairs_complete_for names the scenarios
	// whose pairs were all run as well).
	pairsComplete := []string{}
	if !thorough && harnessErr == nil && exhaustive && len(quickSingles) == len(scs) {
		for si, jobs := range quickSingles {
			if time.Now().After(deadline) {
				break
			}
			sc := scs[si]
			var pairs []job
			cut := false
			for _, j1 := range jobs {
				var i1 int
				for k := range j1.plan {
					i1 = k
				}
				r1 := c05Run(sc, j1.plan)
				for _, p := range r1.Points {
					if p.Index <= i1 {
						continue
					}
					for _, d := range faultclient.Menu(p.Kind) {
						pairs = append(pairs, job{sc, map[int]string{i1: j1.plan[i1], p.Index: d}})
					}
				}
				if time.Now().After(deadline) {
					cut = true
					break
				}
			}
			dp := runJobs(pairs)
			devRuns += int64(dp)
			reports[si].Pairs = dp
			if !cut && dp == len(pairs) {
				pairsComplete = append(pairsComplete, sc.Name)
			}
			fmt.Printf("[C05] scenario %-24s pair runs=%d of %d%s\n", sc.Name, dp, len(pairs), map[bool]string{true: " (enumeration cut by the budget)", false: ""}[cut])
		}
	}
	if harnessErr != nil {
		fmt.Fprintln(os.Stderr, "HARNESS ERROR (no verdict):", harnessErr)
		return 2
	}
	if len(samples) == 0 {
		samples = append(samples, "(none)")
	}
	e := &ev.Evidence{PropertyID: "C05", Tier: ev.Tier(), Seed: ev.Seed(), Level: "fault_enumeration", WallS: t.S(), Violations: rep.Unknown(),
		Assumptions: []string{
			"faults are injected at the ReplicaClient interface around the real file client: listing errors (immediate / after yielding half), writes failing before, midway (reader partly consumed, nothing stored) or after taking effect, open errors / not-found, stream errors and premature EOF in mid-file (once, and four times = beyond the retry budget), deletes failing before / midway / after",
			"the 250ms*2^n back-off of the resumable reader is reduced to nanoseconds by a build overlay generated from the working tree; retry counts and control flow are unchanged",
			"after the scenario a fault-free suffix SyncAndWait, Compact(1), SyncAndWait runs",
		},
		Coverage: map[string]any{
			"evaluations": evals, "distinct_nontrivial": len(outcomes),
			"rule":    "deviation-bounded enumeration: for each scenario every client call is numbered; all runs with 0 deviations, every single deviation of the call's menu at every call (quick+thorough), every pair of deviations with the second point re-derived from the run under the first (thorough); oracle after EVERY client call: no hole in remote level-0, restore(latest) succeeds and equals a committed source state; at every acknowledgement: remote level-0 max >= local TXID and page-exact restore; after the fault-free suffix: acknowledged, page-exact, no gap in levels >= 1; distinct = (acks, failed ops, replica shape) classes",
			"samples": samples, "exhaustive": exhaustive, "quick_pairs_complete_for": pairsComplete, "scenarios": reports, "deviation_runs": devRuns,
			"daemon_mode_runs": daemonRuns.Load(), "daemon_mode_fault_not_reached": daemonNotReached.Load(), "daemon_mode_failing_call_classes": daemonPoints,
			"daemon_mode_rule": fmt.Sprintf("a database replicated before is opened by new litestream objects whose DB and replica monitors run at 1 ms; the K-th storage call (K=1..%d; start states: local LTX state kept / removed) fails once; the application commits four times; with no explicit sync the replica must reach the local position and restore page-exactly within %s of each commit (normally milliseconds); exhaustive in K, not in thread schedules", c05DaemonCalls, c05DaemonWait),
		}}
	if err := ev.Write(e); err != nil {
		fmt.Fprintln(os.Stderr, err)
		return 2
	}
	code := rep.Finish()
	fmt.Printf("[C05] %s tier: runs=%d outcome-classes=%d exhaustive=%v wall=%.1fs exit=%d\n", ev.Tier(), evals, len(outcomes), exhaustive, t.S(), code)
	return code
}
