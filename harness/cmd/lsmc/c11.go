package main

import (
	"fmt"
	"os"
	"path/filepath"
	"regexp"
	"sort"
	"strconv"
	"strings"
	"time"

	"github.com/superfly/ltx"

	"lsverif/ev"
	"lsverif/scn"
)

func init() { register("c11", c11) }

// ---------------------------------------------------------------------------
// Trace monitor: ordering rules over write/fsync/rename/fsync-dir/unlink.

type ltxRef struct {
	remote   bool
	level    int
	min, max ltx.TXID
}

func (r ltxRef) String() string {
	side := "local"
	if r.remote {
		side = "replica"
	}
	return fmt.Sprintf("%s:L%d[%d,%d]", side, r.level, r.min, r.max)
}

// classify returns what kind of final name a path (relative to the scenario dir) is.
func classifyPath(rel string) (kind string, ref ltxRef) {
	if strings.HasSuffix(rel, ".tmp") {
		return "tmp", ref
	}
	if strings.HasSuffix(rel, "-txid") {
		return "sidecar", ref
	}
	if rel == "/restored" || rel == "/follower" {
		return "restore-output", ref
	}
	if strings.HasSuffix(rel, ".ltx") {
		parts := strings.Split(strings.TrimPrefix(rel, "/"), "/")
		// replica/ltx/<level>/<name>  or  .db-litestream/ltx/<level>/<name>
		if len(parts) == 4 && parts[1] == "ltx" {
			lvl, err1 := strconv.Atoi(parts[2])
			mn, mx, err2 := ltx.ParseFilename(parts[3])
			if err1 == nil && err2 == nil {
				return "ltx", ltxRef{remote: parts[0] == "replica", level: lvl, min: mn, max: mx}
			}
		}
		return "ltx-unparsed", ref
	}
	return "", ref
}

type fileState struct {
	written bool // some write since creation / last fsync
	synced  bool // fsync'ed after the last write
}

type monitor struct {
	dir      string
	files    map[string]*fileState // by relative path
	pendDir  map[string][]string   // dir -> final names renamed into it and not yet covered by a dir fsync
	durable  map[ltxRef]bool       // final LTX files that are published and durable
	inFollow bool
	probs    []*scn.Problem
	events   int // rename/unlink events checked
	rules    map[string]int
}

func newMonitor(dir string, existing []string) *monitor {
	m := &monitor{dir: dir, files: map[string]*fileState{}, pendDir: map[string][]string{}, durable: map[ltxRef]bool{}, rules: map[string]int{}}
	for _, rel := range existing {
		if k, ref := classifyPath(rel); k == "ltx" {
			m.durable[ref] = true
		}
	}
	return m
}

func (m *monitor) rel(p string) string {
	r := strings.TrimPrefix(p, m.dir)
	if r == "" && p != "" {
		return "/" // the scenario directory itself
	}
	return r
}

func (m *monitor) st(rel string) *fileState {
	s := m.files[rel]
	if s == nil {
		s = &fileState{}
		m.files[rel] = s
	}
	return s
}

func (m *monitor) fail(kind, detail string) {
	m.probs = append(m.probs, &scn.Problem{Kind: kind, Detail: detail})
}

// covered reports whether deleting ref is safe given what is durable (rule R3).
func (m *monitor) covered(ref ltxRef) string {
	for g := range m.durable {
		if g == ref {
			continue
		}
		if !ref.remote && g.remote && g.level == ref.level && g.min == ref.min && g.max == ref.max {
			return g.String() // the uploaded copy of a local file
		}
		if g.remote && g.level > ref.level && g.min <= ref.min && g.max >= ref.max {
			return g.String() // a higher-level file covering the range
		}
		if g.remote == ref.remote && g.level == 9 && ref.level == 9 && g.max >= ref.max {
			return g.String() // a newer snapshot
		}
		if g.remote && g.level == 9 && g.max >= ref.max {
			return g.String() // any snapshot at or beyond the range
		}
	}
	return ""
}

// step consumes one trace line. It returns true at an operation boundary (.mark).
func (m *monitor) step(t TraceLine) (boundary bool) {
	path := m.rel(t.KV["path"])
	failed := strings.HasPrefix(t.Ret, "-")
	switch t.Name {
	case "openat", "open", "creat":
		if path == "/.mark" {
			return t.Seq > 0
		}
		if t.Seq == 0 || failed {
			return
		}
		flags := t.KV["flags"]
		if strings.Contains(flags, "O_TRUNC") || strings.Contains(flags, "O_CREAT") {
			if k, _ := classifyPath(path); (k == "ltx" || k == "sidecar" || (k == "restore-output" && !m.inFollow)) && (strings.Contains(flags, "O_WRONLY") || strings.Contains(flags, "O_RDWR")) {
				m.rules["R4"]++
				m.fail("write-to-final-name", fmt.Sprintf("call #%d opens final name %s for writing (%s)", t.Seq, path, flags))
			}
			if strings.Contains(flags, "O_TRUNC") {
				s := m.st(path)
				s.written, s.synced = true, false
			}
		}
	case "write", "pwrite64", "writev", "pwritev", "pwritev2", "ftruncate", "fallocate", "copy_file_range":
		if path == "/.mark" || failed {
			return
		}
		if k, _ := classifyPath(path); k == "ltx" || k == "sidecar" || (k == "restore-output" && !m.inFollow) {
			m.rules["R4"]++
			m.fail("write-to-final-name", fmt.Sprintf("call #%d %s writes to final name %s", t.Seq, t.Name, path))
		}
		s := m.st(path)
		s.written, s.synced = true, false
	case "fsync", "fdatasync":
		if failed {
			return
		}
		if t.KV["isdir"] == "1" {
			m.rules["R2"] += len(m.pendDir[path])
			for _, name := range m.pendDir[path] {
				if k, ref := classifyPath(name); k == "ltx" {
					m.durable[ref] = true
				}
			}
			delete(m.pendDir, path)
			return
		}
		s := m.st(path)
		s.written, s.synced = false, true
	case "rename", "renameat", "renameat2":
		if failed {
			return
		}
		oldp, newp := m.rel(t.KV["old"]), m.rel(t.KV["new"])
		k, _ := classifyPath(newp)
		if k == "ltx" || k == "sidecar" || k == "restore-output" {
			m.events++
			m.rules["R1"]++
			s := m.files[oldp]
			if s == nil || s.written || !s.synced {
				m.fail("publish-before-flush", fmt.Sprintf("call #%d renames %s to final name %s but the source was not fsynced after its last write", t.Seq, oldp, newp))
			}
			d := filepath.Dir(newp)
			m.pendDir[d] = append(m.pendDir[d], newp)
			if k == "sidecar" {
				// R5: the TXID sidecar vouches for the database next to it (a restarted follower trusts it and skips
				// everything up to that TXID): whatever was written to that database must be flushed before the
				// sidecar is published
				dbp := strings.TrimSuffix(newp, "-txid")
				if ds := m.files[dbp]; ds != nil {
					m.rules["R5"]++
					if ds.written {
						m.fail("sidecar-before-data-flush", fmt.Sprintf("call #%d publishes %s while %s has writes that were not fsynced", t.Seq, newp, dbp))
					}
				}
			}
		}
		if s := m.files[oldp]; s != nil {
			m.files[newp] = s
			delete(m.files, oldp)
		}
	case "unlink", "unlinkat":
		if failed {
			return
		}
		if k, ref := classifyPath(path); k == "ltx" {
			m.events++
			m.rules["R3"]++
			if by := m.covered(ref); by == "" {
				m.fail("delete-before-supersede", fmt.Sprintf("call #%d unlinks %s but no durable file supersedes it (durable: %s)", t.Seq, ref, m.durableList()))
			}
			delete(m.durable, ref)
		}
		delete(m.files, path)
	}
	return
}

func (m *monitor) durableList() string {
	var l []string
	for g := range m.durable {
		l = append(l, g.String())
	}
	sort.Strings(l)
	return strings.Join(l, " ")
}

// boundary is called when the worker reports an operation's result (rule R2).
func (m *monitor) boundary(op, result string) {
	if strings.HasPrefix(result, "err") {
		// a failed operation acknowledges nothing; pending publishes stay pending
		return
	}
	for d, names := range m.pendDir {
		for _, n := range names {
			m.rules["R2"]++
			m.fail("ack-before-dir-flush", fmt.Sprintf("operation %s reported %q while %s (renamed into %s) was not yet covered by an fsync of that directory", op, result, n, d))
		}
		delete(m.pendDir, d)
	}
}

// ---------------------------------------------------------------------------

type c11Scenario struct {
	Name string
	Cfg  scn.Config
	Ops  []string // app ops, litestream ops, and STOPW / RESTARTW / RMMETA(driver-side)
}

func listRel(dir string) []string {
	var out []string
	filepath.Walk(dir, func(p string, fi os.FileInfo, err error) error {
		if err == nil && !fi.IsDir() {
			out = append(out, strings.TrimPrefix(p, dir))
		}
		return nil
	})
	return out
}

type c11Result struct {
	Problems []*scn.Problem
	Events   int
	Rules    map[string]int
	Calls    int
	Harness  error
	Sample   string
	Flushes  []c11Flush // fault-free run: the flush calls a fault run can fail
	Reached  bool       // fault run: the injected call was reached
}

// c11Flush is one fsync/fdatasync of a litestream-owned file or directory (not the database, WAL or shm).
type c11Flush struct {
	Seg  int    // worker segment (1-based)
	Seq  int    // counted call number within the segment
	Path string // relative path
	Dir  bool
}

var reDigits = regexp.MustCompile(`[0-9a-f]{8,}|[0-9]+`)

func c11Run(sc c11Scenario, tmp string) c11Result { return c11RunFault(sc, tmp, nil) }

// c11RunFault runs the scenario; with fault != nil the given flush call of the given worker segment does not
// execute and returns EIO (killat fail). The same ordering rules are then evaluated up to and including the
// result of the operation in flight: a flush that failed has flushed nothing, so an operation that reports
// success over it acknowledges an unflushed publish.
func c11RunFault(sc c11Scenario, tmp string, fault *c11Flush) (res c11Result) {
	res.Rules = map[string]int{}
	s, err := scn.NewAppOnly(sc.Cfg)
	if err != nil {
		res.Harness = err
		return
	}
	defer s.Destroy()
	var p *proc
	seg := 0
	type segment struct {
		trace    string
		existing []string
		ops      []string // op + "=" + result in order, for boundaries
	}
	var segs []*segment
	start := func() error {
		seg++
		sg := &segment{trace: filepath.Join(tmp, fmt.Sprintf("%s-%d.trace", sc.Name, seg)), existing: listRel(s.Dir)}
		segs = append(segs, sg)
		var err error
		mode := "record " + sg.trace
		if fault != nil && fault.Seg == seg {
			mode = fmt.Sprintf("fail %d 5 %s", fault.Seq, sg.trace)
		}
		p, err = startWorker(s.Dir, sc.Cfg, mode)
		if err != nil {
			return err
		}
		sg.ops = append(sg.ops, "(attach)=ready")
		s.Remote, s.RemoteDead = p, false
		return nil
	}
	if err := start(); err != nil {
		res.Harness = err
		return
	}
	for _, op := range sc.Ops {
		switch {
		case op == "STOPW":
			p.Stop()
			s.Remote = nil
		case op == "RESTARTW":
			if p != nil {
				p.Stop()
			}
			if err := start(); err != nil {
				res.Harness = err
				return
			}
		case op == "RMMETA":
			os.RemoveAll(filepath.Join(s.Dir, ".db-litestream"))
		case strings.HasPrefix(op, "V3GEN"):
			// a legacy 0.3.x replica (one generation, two WAL indexes) generated from a real history, into the replica directory;
			// V3GEN:snaponly keeps only the snapshots (restore then applies no WAL segment)
			h := c19Hist{Mode: "upd", PageSize: 512, Gens: [][]int{{1, 1}}}
			d, err := c19Generate(h, filepath.Join(tmp, "v3src-"+sc.Name))
			if err != nil {
				res.Harness = err
				return
			}
			b, err := c19BuildLayout(c19Layout{Hist: h, Splits: [][]int{{0, 0}}, Snaps: []int{1}}, d, nil)
			if err != nil {
				res.Harness = err
				return
			}
			for i := range b.Files {
				if strings.HasSuffix(op, "snaponly") && strings.Contains(b.Files[i].Rel, "/wal/") {
					continue
				}
				if err := c19WriteFile(s.ReplicaDir, &b.Files[i]); err != nil {
					res.Harness = err
					return
				}
			}
		case strings.HasPrefix(op, "RESTORE") || strings.HasPrefix(op, "FOLLOW") || strings.HasPrefix(op, "FWAIT") || op == "FSTOP":
			r, derr := p.Do(op)
			if derr != nil {
				res.Harness = fmt.Errorf("worker died during %s: %s", op, p.stderr.String())
				return
			}
			segs[len(segs)-1].ops = append(segs[len(segs)-1].ops, op+"="+r)
		default:
			o := s.Do(op)
			if s.RemoteDead {
				res.Harness = fmt.Errorf("worker died during %s: %s", op, p.stderr.String())
				return
			}
			if isLSOp(opName(op)) {
				segs[len(segs)-1].ops = append(segs[len(segs)-1].ops, op+"="+o.String())
			}
		}
	}
	if p != nil {
		p.Stop()
	}
	for si, sg := range segs {
		tr, err := parseTrace(sg.trace)
		if err != nil {
			res.Harness = err
			return
		}
		m := newMonitor(s.Dir, sg.existing)
		opi := 0
		stopAtBoundary := false
		for _, t := range tr {
			if t.Seq > 0 {
				res.Calls++
			}
			if fault == nil && t.Seq > 0 && (t.Name == "fsync" || t.Name == "fdatasync") && !strings.HasPrefix(t.Ret, "-") {
				rel := m.rel(t.KV["path"])
				isDir := t.KV["isdir"] == "1"
				k, _ := classifyPath(rel)
				own := k == "tmp" || k == "ltx" || k == "sidecar" || k == "restore-output" ||
					(isDir && (strings.Contains(rel, "/ltx") || strings.HasPrefix(rel, "/replica") || rel == "/" || rel == ""))
				if own {
					res.Flushes = append(res.Flushes, c11Flush{Seg: si + 1, Seq: t.Seq, Path: rel, Dir: isDir})
				}
			}
			if fault != nil && fault.Seg == si+1 && t.Seq == fault.Seq {
				res.Reached = true
				stopAtBoundary = true
			}
			if strings.HasPrefix(t.Name, "openat") && m.rel(t.KV["path"]) == "/.mark" && t.Seq > 0 {
				if opi < len(sg.ops) {
					kv := strings.SplitN(sg.ops[opi], "=", 2)
					if strings.HasPrefix(kv[0], "FOLLOW") {
						m.inFollow = true
					}
					if kv[0] == "FSTOP" {
						m.inFollow = false
					}
					// FOLLOW/FWAIT answers are not acknowledgements of the follower: the follow loop runs in the
					// background and FWAIT merely observes its sidecar, possibly between a rename and the directory
					// fsync that follows it. The follower's publishes are judged when it is stopped (FSTOP).
					if !strings.HasPrefix(kv[0], "FOLLOW") && !strings.HasPrefix(kv[0], "FWAIT") && !(m.inFollow && kv[0] != "FSTOP") {
						m.boundary(kv[0], kv[1])
					}
					opi++
				}
				if stopAtBoundary {
					break
				}
				continue
			}
			m.step(t)
		}
		if stopAtBoundary {
			res.Problems = append(res.Problems, m.probs...)
			break
		}
		res.Problems = append(res.Problems, m.probs...)
		res.Events += m.events
		for k, v := range m.rules {
			res.Rules[k] += v
		}
	}
	res.Sample = fmt.Sprintf("%s: %d counted calls, %d rename/unlink events, rules %v", sc.Name, res.Calls, res.Events, res.Rules)
	return
}

func isLSOp(name string) bool {
	switch name {
	case "S", "RS", "RSL", "SW", "SD", "LC", "SNAP", "FSNAP", "CMP", "RETL0", "RET9", "RETL0A", "RET9A", "CL", "START", "RSET":
		return true
	}
	return false
}

func c11Scenarios() []c11Scenario {
	var out []c11Scenario
	for _, sc := range c03Scenarios() {
		out = append(out, c11Scenario{sc.Name, sc.Cfg, sc.Ops})
	}
	f := strings.Fields
	base := scn.DefaultConfig()
	out = append(out,
		c11Scenario{"behind-replica-fetch", base, f("W3 SW W1 SW STOPW RMMETA RESTARTW SW W1 SW CL")},
		c11Scenario{"behind-replica-idle", base, f("W3 SW W1 SW STOPW RMMETA RESTARTW S RS CL")},
		c11Scenario{"restart-clean", base, f("W3 SW W1 S STOPW W1 RESTARTW SW CMP:1 RETL0:2 CL")},
		c11Scenario{"follower", base, f("W3 SW FOLLOW:follower FWAIT:1 W1 SW FWAIT:2 W1 SW CMP:1 RETL0:2 W1 SW FWAIT:4 FSTOP CL")},
		// a follower that fell behind level-0 retention while it was stopped: its next TXID exists only in level 1,
		// the gap is bridged from there (fillFollowGap), with and without level-0 files left to apply afterwards
		c11Scenario{"follower-bridges-from-l1", cfgWith(func(c *scn.Config) { c.L0RetentionNS = 1 }), f("W3 SW FOLLOW:follower FWAIT:1 FSTOP W1 SW W1 SW W1 SW CMP:1 RETL0A:4 FOLLOW:follower FWAIT:4 FSTOP W1 SW W1 SW CMP:1 RETL0A:2 W1 SW FOLLOW:follower FWAIT:7 FSTOP CL")},
		c11Scenario{"legacy-restore-snapshot-only", base, f("V3GEN:snaponly RESTORE:restored")},
		c11Scenario{"legacy-restore-with-wal", base, f("V3GEN:full RESTORE:restored")},
		// byte-budgeted syncs whose LAST chunk is itself budget-limited (one transaction larger than the budget)
		c11Scenario{"chunked-big-tx", cfgWith(func(c *scn.Config) { c.MaxSyncWALFrames = 2 }), f("W3 SW WN:3 SW W1 WN:2 SW LC:PASSIVE WN:4 SW CL")},
		c11Scenario{"retention-off", cfgWith(func(c *scn.Config) { c.RetentionEnabled = false }), f("W3 SW W1 SW CMP:1 RETL0:2 SNAP W1 SW SNAP RET9:1 CL")},
		// a name that already exists on the replica is published again (a second forced snapshot at an unchanged
		// position, as replicate -force-snapshot on an idle database): the rename replaces a directory entry
		c11Scenario{"republish-same-name", base, f("W3 SW FSNAP FSNAP W1 SW FSNAP CMP:1 FSNAP FSNAP CL")},
		c11Scenario{"nostore", cfgWith(func(c *scn.Config) { c.UseStore = false }), f("W3 SW W1 SW CMP:1 SNAP RET9:0 LC:TRUNCATE W1 SW CL")},
	)
	return out
}

func c11(args []string) int {
	t := ev.Start()
	rep := ev.NewReporter("C11")
	if _, err := os.Stat(killatPath()); err != nil {
		fmt.Fprintln(os.Stderr, "killat binary missing (run setup.sh):", err)
		return 2
	}
	workerEnv = []string{"LSMC_MARK=1"}
	scs := c11Scenarios()
	if ev.Tier() != "thorough" {
		// quick: the scenarios that between them contain every publish/delete site
		keep := map[string]bool{"sync+ckpt": true, "compact+retain": true, "restore+close": true, "behind-replica-fetch": true, "follower": true, "behind-replica-idle": true, "legacy-restore-snapshot-only": true, "legacy-restore-with-wal": true, "chunked": true, "chunked-big-tx": true, "republish-same-name": true, "follower-bridges-from-l1": true}
		var q []c11Scenario
		for _, s := range scs {
			if keep[s.Name] {
				q = append(q, s)
			}
		}
		scs = q
	}
	tmp := filepath.Join(scn.ScratchRoot, fmt.Sprintf("lsmc-%d-c11", os.Getpid()))
	os.MkdirAll(tmp, 0o755)
	defer os.RemoveAll(tmp)
	deadline := time.Now().Add(ev.Budget(90*time.Second, 20*time.Minute))
	var samples []any
	events, calls := 0, 0
	rules := map[string]int{}
	exhaustive := true
	kinds := map[string]bool{}
	faultRuns, faultNotReached, faultInconclusive, faultCut, faultSkippedSameClass := 0, 0, 0, 0, 0
	// Pass 1: the fault-free trace of EVERY scenario is judged, whatever the budget (a few seconds each); pass 2, the
	// flush-failure enumeration, then takes what is left of the budget, an even share per scenario.
	type ffRun struct {
		sc c11Scenario
		r  c11Result
	}
	var ffs []ffRun
	for _, sc := range scs {
		r := c11Run(sc, tmp)
		if r.Harness != nil {
			fmt.Fprintln(os.Stderr, "HARNESS ERROR (no verdict):", sc.Name, r.Harness)
			return 2
		}
		events += r.Events
		calls += r.Calls
		for k, v := range r.Rules {
			rules[k] += v
			kinds[sc.Name+"/"+k] = true
		}
		samples = append(samples, r.Sample)
		fmt.Printf("[C11] %s problems=%d\n", r.Sample, len(r.Problems))
		for _, p := range r.Problems {
			site := p.Detail
			if i := strings.Index(site, " "); i > 0 && strings.HasPrefix(site, "call #") {
				site = site[strings.Index(site[6:], " ")+7:]
			}
			rep.Report(&ev.Violation{Kind: p.Kind, Signature: p.Kind + "|" + sc.Name + "|" + reScnDir.ReplaceAllString(site, ""),
				Detail: map[string]any{"scenario": sc, "problem": p.String()}})
		}
		ffs = append(ffs, ffRun{sc, r})
	}
	scsRun := len(ffs)
	for fi, ff := range ffs {
		sc, r := ff.sc, ff.r
		scDeadline := time.Now().Add(time.Until(deadline) / time.Duration(len(ffs)-fi))
		// Flush-failure enumeration: every flush of a litestream-owned file or directory seen in the fault-free run
		// is made to fail (EIO, the call does not execute) in a run of its own; the operation in flight must not
		// report success over an unflushed publish.
		// quick tier: per class of flushed path (digits masked) the first and the last occurrence; thorough: all
		flushes := r.Flushes
		if ev.Tier() != "thorough" {
			first, last := map[string]int{}, map[string]int{}
			for i, fl := range flushes {
				k := fmt.Sprintf("%v|%s", fl.Dir, reDigits.ReplaceAllString(normTmp(fl.Path), "#"))
				if _, ok := first[k]; !ok {
					first[k] = i
				}
				last[k] = i
			}
			var sel []c11Flush
			for i, fl := range flushes {
				k := fmt.Sprintf("%v|%s", fl.Dir, reDigits.ReplaceAllString(normTmp(fl.Path), "#"))
				if first[k] == i || last[k] == i {
					sel = append(sel, fl)
				}
			}
			faultSkippedSameClass += len(flushes) - len(sel)
			flushes = sel
		}
		for _, fl := range flushes {
			if time.Now().After(scDeadline) {
				exhaustive = false
				faultCut++
				continue
			}
			fl := fl
			fr := c11RunFault(sc, tmp, &fl)
			if fr.Harness != nil {
				// the worker may legitimately die or a later operation may refuse to continue after the injected
				// error; only a start failure is a harness problem
				faultInconclusive++
				continue
			}
			faultRuns++
			if !fr.Reached {
				faultNotReached++
			}
			for _, p := range fr.Problems {
				site := p.Detail
				if i := strings.Index(site, " "); i > 0 && strings.HasPrefix(site, "call #") {
					site = site[strings.Index(site[6:], " ")+7:]
				}
				what := "file"
				if fl.Dir {
					what = "dir"
				}
				rep.Report(&ev.Violation{Kind: p.Kind, Signature: p.Kind + "|" + sc.Name + "|flush-fails:" + what + ":" + normTmp(fl.Path) + "|" + normTmp(reScnDir.ReplaceAllString(site, "")),
					Detail: map[string]any{"scenario": sc, "failed_flush": fl, "problem": p.String()}})
			}
		}
	}
	e := &ev.Evidence{PropertyID: "C11", Tier: ev.Tier(), Seed: ev.Seed(), Level: "fault_enumeration", WallS: t.S(), Violations: rep.Unknown(),
		Assumptions: []string{
			"POSIX-level model: data is durable after fsync/fdatasync of the file, a directory entry change after fsync of the directory",
			"operation boundaries are made visible to the trace by a marker file the worker writes when it reports a result",
			"files that exist when a worker starts are treated as durable",
			"mmap stores are invisible to the tracer (SQLite -shm only; not an LTX/restore path)",
		},
		Coverage: map[string]any{
			"evaluations": events + rules["R2"] + rules["R4"] + faultRuns, "distinct_nontrivial": len(kinds),
			"rule":    "every rename onto a final name (LTX file, restore output, TXID sidecar) and every unlink of an LTX file in the recorded syscall traces of the scenarios is a checked event: R1 source fsynced after its last write before the rename; R2 directory fsynced before the operation reports success; R3 an unlinked LTX file is superseded by a durable file (uploaded copy, higher level covering its range, or snapshot); R4 no write ever targets a final name; R5 the database a TXID sidecar sits next to has no unflushed writes when the sidecar is published; distinct = (scenario, rule) pairs exercised",
			"samples": samples, "exhaustive": exhaustive, "rename_unlink_events": events, "counted_syscalls": calls, "rule_checks": rules, "scenarios": scsRun,
			"flush_failure_runs": faultRuns, "flush_failure_call_not_reached": faultNotReached, "flush_failure_inconclusive": faultInconclusive, "flush_failure_cut_by_budget": faultCut, "flush_failure_skipped_same_path_class_quick": faultSkippedSameClass,
			"flush_failure_rule": "every fsync/fdatasync of a litestream-owned file or directory in the fault-free trace fails with EIO (without executing) in a run of its own; rules R1/R2 are evaluated up to the result of the operation in flight",
		}}
	if err := ev.Write(e); err != nil {
		fmt.Fprintln(os.Stderr, err)
		return 2
	}
	code := rep.Finish()
	fmt.Printf("[C11] %s tier: scenarios=%d events=%d rule-checks=%v wall=%.1fs exit=%d\n", ev.Tier(), len(scs), events, rules, t.S(), code)
	return code
}
