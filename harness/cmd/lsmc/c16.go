package main

import (
	"bytes"
	"context"
	"fmt"
	"os"
	"path/filepath"
	"strings"
	"sync"
	"sync/atomic"
	"time"

	"github.com/benbjohnson/litestream"
	"github.com/benbjohnson/litestream/file"
	"github.com/superfly/ltx"

	"lsverif/ev"
	"lsverif/scn"
)

func init() { register("c16", c16) }

// follower is the follow-mode restore target of one scenario (convergence half, engine E1).
// c16Client is the follower's replica client: after its next level-0 listing has been taken (armed by FPOLLR) it
// lets the primary compact and prune level 0, so that the listed files are gone when the follower opens them.
type c16Client struct {
	litestream.ReplicaClient
	afterList func()
}

func (c *c16Client) LTXFiles(ctx context.Context, level int, seek ltx.TXID, useMetadata bool) (ltx.FileIterator, error) {
	itr, err := c.ReplicaClient.LTXFiles(ctx, level, seek, useMetadata)
	if err == nil && level == 0 && c.afterList != nil {
		// the file client's iterator is a snapshot of the directory taken by the call above
		fn := c.afterList
		c.afterList = nil
		fn()
	}
	return itr, err
}

type follower struct {
	client   *c16Client
	path     string
	f        *os.File
	rep      *litestream.Replica
	last     ltx.TXID
	sidecars []ltx.TXID
	arch     *archive
	probs    []*scn.Problem
	polls    int
}

// maskFollow clears the header bytes follow mode rewrites on page 1 (18-19 journal mode, 24-27 change counter).
func maskFollow(b []byte) []byte {
	out := append([]byte{}, b...)
	if len(out) >= 28 {
		for _, i := range []int{18, 19, 24, 25, 26, 27} {
			out[i] = 0
		}
	}
	return out
}

func (fo *follower) add(k, d string) {
	for _, p := range fo.probs {
		if p.Kind == k {
			return
		}
	}
	fo.probs = append(fo.probs, &scn.Problem{Kind: k, Detail: d})
}

// check compares the follower file with the state of its sidecar TXID.
func (fo *follower) check(s *scn.Scn, when string) {
	side, err := litestream.ReadTXIDFile(fo.path)
	if err != nil || side == 0 {
		fo.add("sidecar-unreadable", fmt.Sprintf("%s: sidecar=%d err=%v", when, side, err))
		return
	}
	if n := len(fo.sidecars); n == 0 || fo.sidecars[n-1] != side {
		if n > 0 && side < fo.sidecars[n-1] {
			fo.add("sidecar-regressed", fmt.Sprintf("%s: sidecar went from %d to %d", when, fo.sidecars[n-1], side))
		}
		fo.sidecars = append(fo.sidecars, side)
	}
	got, err := os.ReadFile(fo.path)
	if err != nil {
		fo.add("follower-unreadable", err.Error())
		return
	}
	var want []byte
	if im, rerr := s.Restore(scn.RestoreOpt{TXID: side}); rerr == nil {
		want = im.Data
	} else if im2, aerr := fo.arch.image(side, s.Cfg.PageSize); aerr == nil {
		want = im2.Data // TXID no longer individually restorable (compacted): reference fold of archived level-0 files
	} else {
		return
	}
	s.RefreshSeqRoot()
	a, b := maskFollow(want), maskFollow(got)
	if len(a) != len(b) {
		fo.add("follower-size-differs", fmt.Sprintf("%s: follower has %d bytes, restore of its sidecar TXID %d has %d [%s]", when, len(b), side, len(a), scn.Shape(s.ReplicaDir)))
		return
	}
	ps := s.Cfg.PageSize
	for p := 0; p*ps < len(a); p++ {
		if uint32(p+1) == s.SeqRoot {
			continue
		}
		if !bytes.Equal(a[p*ps:(p+1)*ps], b[p*ps:(p+1)*ps]) {
			fo.add("follower-page-differs", fmt.Sprintf("%s: page %d of the follower differs from the restore of its sidecar TXID %d [%s]", when, p+1, side, scn.Shape(s.ReplicaDir)))
			return
		}
	}
}

func c16Ext(s *scn.Scn, name, arg string) (scn.Outcome, bool) {
	fo, _ := s.User.(*follower)
	switch name {
	case "FOPEN": // initial follow-mode restore (the real Restore(Follow) up to the point where it enters the loop)
		if fo != nil && fo.f != nil {
			return scn.Outcome{Illegal: true}, true
		}
		if fo == nil {
			fo = &follower{arch: newArchive()}
			s.User = fo
		}
		fo.path = filepath.Join(s.Dir, "follower")
		fo.client = &c16Client{ReplicaClient: file.NewReplicaClient(s.ReplicaDir)}
		fo.rep = litestream.NewReplicaWithClient(nil, fo.client)
		opt := litestream.NewRestoreOptions()
		opt.OutputPath = fo.path
		opt.Follow = true
		opt.FollowInterval = time.Hour // the loop never ticks by itself: polls are explicit FPOLL operations
		ctx, cancel := context.WithCancel(context.Background())
		done := make(chan error, 1)
		go func() { done <- fo.rep.Restore(ctx, opt) }()
		deadline := time.Now().Add(20 * time.Second)
		for {
			if t, _ := litestream.ReadTXIDFile(fo.path); t > 0 {
				break
			}
			select {
			case err := <-done:
				cancel()
				if err != nil {
					// nothing restorable yet is a legitimate refusal
					return scn.Outcome{Err: err}, true
				}
			default:
			}
			if time.Now().After(deadline) {
				cancel()
				return scn.Outcome{Err: fmt.Errorf("follow restore did not produce a sidecar within 20s")}, true
			}
			time.Sleep(200 * time.Microsecond)
		}
		cancel()
		<-done
		f, err := os.OpenFile(fo.path, os.O_RDWR, 0)
		if err != nil {
			return scn.Outcome{Err: err}, true
		}
		fo.f = f
		fo.last, _ = litestream.ReadTXIDFile(fo.path)
		fo.check(s, "after initial restore")
		return scn.Outcome{}, true
	case "FPOLLR":
		// A poll racing the primary's level-0 retention: right after the follower has listed level 0, the primary
		// compacts level 0 into level 1 and prunes every level-0 file older than the threshold (all of them, aged),
		// so the files the follower is about to open are gone. One fixed interleaving inside the operation.
		if fo == nil || fo.f == nil || fo.client == nil || !s.LSOpen {
			return scn.Outcome{Illegal: true}, true
		}
		fo.client.afterList = func() {
			ctx := context.Background()
			if s.Store != nil {
				if lvl, err := s.Levels().Level(1); err == nil {
					_, _ = s.Store.CompactDB(ctx, s.DB, lvl)
				}
			} else {
				_, _ = s.DB.Compact(ctx, 1)
			}
			old := time.Now().Add(-2 * time.Hour)
			for _, f := range scn.ListLevel(s.ReplicaDir, 0) {
				os.Chtimes(s.ReplicaFilePath(f), old, old)
			}
			s.DB.L0Retention = time.Hour
			_ = s.DB.EnforceL0RetentionByTime(ctx)
		}
		fallthrough
	case "FPOLL":
		if fo == nil || fo.f == nil {
			return scn.Outcome{Illegal: true}, true
		}
		fo.polls++
		nt, err := fo.rep.VerifFollowStep(context.Background(), fo.f, fo.path, fo.last, uint32(s.Cfg.PageSize))
		if err != nil {
			// the loop logs and retries on the next tick; the file must still match its sidecar
			fo.check(s, "after failed poll")
			return scn.Outcome{Err: err}, true
		}
		fo.last = nt
		fo.check(s, fmt.Sprintf("after poll %d", fo.polls))
		return scn.Outcome{}, true
	}
	return scn.Outcome{}, false
}

func c16Check() *HistCheck {
	return &HistCheck{
		ID:    "C16",
		Level: "model_checking",
		Prepare: func(s *scn.Scn) {
			s.ExtOp = c16Ext
			s.User = &follower{arch: newArchive()}
		},
		AfterOp: func(s *scn.Scn, op string, o scn.Outcome) *scn.Problem {
			s.User.(*follower).arch.update(s)
			return nil
		},
		Final: func(s *scn.Scn) ([]*scn.Problem, string, error) {
			fo := s.User.(*follower)
			defer func() {
				if fo.f != nil {
					fo.f.Close()
				}
			}()
			if fo.f == nil {
				return fo.probs, "no-follower", nil
			}
			if s.LSOpen {
				s.Do("SW")
				fo.arch.update(s)
			}
			// Convergence: poll until two consecutive polls return the same TXID (the replica no longer changes).
			var maxRemote ltx.TXID
			for _, fs := range scn.AllLevels(s.ReplicaDir) {
				for _, f := range fs {
					if f.Max > maxRemote {
						maxRemote = f.Max
					}
				}
			}
			prev := ltx.TXID(0)
			for i := 0; i < 12; i++ {
				o := s.Do("FPOLL")
				if o.Err == nil && fo.last == prev {
					break
				}
				prev = fo.last
			}
			if fo.last != maxRemote {
				// Did the follower legitimately lose its chain (history pruned below its position)? Only then may it stop short.
				fo.add("follower-did-not-converge", fmt.Sprintf("follower stopped at TXID %d, replica is at %d [%s]", fo.last, maxRemote, scn.Shape(s.ReplicaDir)))
			} else if want, err := s.Restore(scn.RestoreOpt{}); err == nil {
				got, _ := os.ReadFile(fo.path)
				s.RefreshSeqRoot()
				gi := &scn.Image{Data: maskFollow(got), PageSize: s.Cfg.PageSize}
				wi := &scn.Image{Data: maskFollow(want.Data), PageSize: s.Cfg.PageSize}
				if d := scn.Compare(wi, gi, s.SeqRoot); d != nil {
					fo.add("converged-follower-differs", fmt.Sprintf("at the fixpoint (TXID %d) the follower differs from an ordinary restore: %s [%s]", fo.last, d, scn.Shape(s.ReplicaDir)))
				}
			}
			for i := 1; i < len(fo.sidecars); i++ {
				if fo.sidecars[i] <= fo.sidecars[i-1] {
					fo.add("sidecar-not-increasing", fmt.Sprintf("sidecar values %v", fo.sidecars))
				}
			}
			return fo.probs, fmt.Sprintf("ok/polls=%d/steps=%d/%s", bucket(fo.polls), len(fo.sidecars), shapeClass(s)), nil
		},
	}
}

// ---------------------------------------------------------------------------
// Kill/resume half (engine E3): the real Restore(Follow) loop in a worker under killat.

type c16KillScenario struct {
	Name string
	Cfg  scn.Config
	S1   []string // primary history before the follower starts
	S1b  []string // primary history while follower 1 runs
	S2   []string // primary history after follower 1 was killed (while it is dead)
}

func c16KillScenarios() []c16KillScenario {
	f := strings.Fields
	keep := cfgWith(func(c *scn.Config) { c.L0RetentionNS = int64(1000 * time.Hour) })
	prune := cfgWith(func(c *scn.Config) { c.L0RetentionNS = 1 })
	return []c16KillScenario{
		{"no-snapshot", keep, f("W3 SW"), f("W1 SW W1 SW"), f("W1 SW W3 SW")},
		{"snapshot-behind-follower", keep, f("W3 SW SNAP W1 SW"), f("W1 SW"), f("W1 SW")},
		// the largest page size (stored as 1 in the two-byte header field the follow loop reads from its output) and
		// the smallest next to it: the convergence half hands the page size to the apply step itself, only the real
		// follow loop of this half decodes it
		{"page-size-65536", cfgWith(func(c *scn.Config) { c.PageSize = 65536; c.L0RetentionNS = int64(1000 * time.Hour) }), f("W1 SW"), f("W1 SW"), f("W1 SW")},
		{"l0-compacted-away", prune, f("W3 SW W1 SW"), f("W1 SW"), f("W1 SW CMP:1 W1 SW CMP:1 CMP:2 W1 SW")},
		{"shrink", cfgWith(func(c *scn.Config) { c.AutoVacuum = "INCREMENTAL"; c.L0RetentionNS = int64(1000 * time.Hour) }), f("W3 W3 SW"), f("D SW"), f("IVAC SW W1 SW")},
		{"page-size-1024", cfgWith(func(c *scn.Config) { c.PageSize = 1024; c.L0RetentionNS = int64(1000 * time.Hour) }), f("W1 SW"), f("W1 SW"), f("W1 SW")},
	}
}

type c16KillResult struct {
	Killed   bool
	Before   string
	Problems []*scn.Problem
	Harness  error
	Counted  int
}

// c16RunKill: primary builds S1, follower 1 (traced) follows while the primary advances, is killed before its
// K-th counted call (K=0: record only), the primary advances to S2, follower 2 (untraced) resumes on the same output.
func c16RunKill(sc c16KillScenario, K int, traceFile string) (res c16KillResult) {
	s, err := scn.New(sc.Cfg)
	if err != nil {
		res.Harness = err
		return
	}
	defer s.Destroy()
	run := func(ops []string) {
		for _, op := range ops {
			s.Do(op)
		}
	}
	run(sc.S1)
	mode := fmt.Sprintf("kill %d", K)
	if K == 0 {
		mode = "record " + traceFile
	}
	// The follower only touches <dir>/follower*: count syscalls inside a dedicated subdirectory.
	fdir := filepath.Join(s.Dir, "fdir")
	os.MkdirAll(fdir, 0o755)
	os.Symlink(s.ReplicaDir, filepath.Join(fdir, "replica"))
	p, perr := startWorker(fdir, sc.Cfg, mode, "nols")
	if perr != nil && p == nil {
		res.Harness = perr
		return
	}
	defer p.Stop()
	dead := perr != nil
	do := func(cmd string) bool {
		if dead {
			return false
		}
		if _, err := p.Do(cmd); err != nil {
			dead = true
			return false
		}
		return true
	}
	do("FOLLOW:follower")
	for _, op := range sc.S1b {
		s.Do(op)
		if op == "SW" {
			want := s.RemoteMaxL0()
			if K == 0 && !dead {
				// the fault-free run is judged too: the real follow loop must reach every acknowledged TXID
				// (the convergence half drives the apply step directly and never runs this loop)
				if r, err := p.Do(fmt.Sprintf("FWAIT:%d", want)); err != nil {
					dead = true
				} else if r != "ok" {
					res.Problems = append(res.Problems, &scn.Problem{Kind: "follower-did-not-converge", Detail: fmt.Sprintf("no kill: the follower did not reach TXID %d within the wait (%s) [%s]", want, r, scn.Shape(s.ReplicaDir))})
					break
				}
				continue
			}
			do(fmt.Sprintf("FWAIT:%d", want))
		}
	}
	do("FSTOP")
	p.Stop()
	if K == 0 {
		return
	}
	res.Killed, res.Before = p.KilledAt()
	if !res.Killed {
		return
	}
	fpath := filepath.Join(fdir, "follower")
	side1, _ := litestream.ReadTXIDFile(fpath)
	_, statErr := os.Stat(fpath)
	add := func(k, d string) { res.Problems = append(res.Problems, &scn.Problem{Kind: k, Detail: d}) }
	maxOf := func() ltx.TXID {
		var m ltx.TXID
		for _, fs := range scn.AllLevels(s.ReplicaDir) {
			for _, f := range fs {
				if f.Max > m {
					m = f.Max
				}
			}
		}
		return m
	}
	// (a) The primary is idle: a fresh follower must resume on the same output and reach the current tip without any
	// new upload (a follower that was exactly caught up when it died is the boundary case of the resume validation).
	{
		tip := maxOf()
		pi, err := startWorker(fdir, sc.Cfg, "", "nols")
		if err != nil {
			res.Harness = err
			return
		}
		pi.Do("FOLLOW:follower")
		r0, d0 := pi.Do(fmt.Sprintf("FWAIT:%d", tip))
		stop0, _ := pi.Do("FSTOP")
		pi.Stop()
		if d0 != nil {
			res.Harness = fmt.Errorf("idle-resume follower died: %s", pi.stderr.String())
			return
		}
		if r0 != "ok" || (strings.HasPrefix(stop0, "err") && !strings.Contains(stop0, "context canceled")) {
			// FWAIT only observes the sidecar (which may already be at the tip): a follower that refused to resume
			// reports its error when it is stopped
			add("idle-resume-did-not-converge", fmt.Sprintf("killed before %s (sidecar %d); with the primary idle the restarted follower did not reach TXID %d: wait=%s stop=%s [%s]", res.Before, side1, tip, r0, stop0, scn.Shape(s.ReplicaDir)))
			return
		}
	}
	// (b) While the follower is dead the replica advances.
	run(sc.S2)
	want, werr := s.Restore(scn.RestoreOpt{})
	if werr != nil {
		res.Harness = werr
		return
	}
	maxRemote := maxOf()
	p2, err := startWorker(fdir, sc.Cfg, "", "nols")
	if err != nil {
		res.Harness = err
		return
	}
	defer p2.Stop()
	p2.Do("FOLLOW:follower")
	r, derr := p2.Do(fmt.Sprintf("FWAIT:%d", maxRemote))
	stop, _ := p2.Do("FSTOP")
	if derr != nil {
		res.Harness = fmt.Errorf("follower 2 died: %s", p2.stderr.String())
		return
	}
	if r != "ok" || (strings.HasPrefix(stop, "err") && !strings.Contains(stop, "context canceled")) {
		what := "output absent at kill"
		if statErr == nil {
			what = fmt.Sprintf("output present, sidecar TXID %d at kill", side1)
		}
		add("resume-did-not-converge", fmt.Sprintf("killed before %s (%s); restarted follower did not reach TXID %d: wait=%s stop=%s [%s]", res.Before, what, maxRemote, r, stop, scn.Shape(s.ReplicaDir)))
		return
	}
	got, _ := os.ReadFile(fpath)
	s.RefreshSeqRoot()
	gi := &scn.Image{Data: maskFollow(got), PageSize: s.Cfg.PageSize}
	wi := &scn.Image{Data: maskFollow(want.Data), PageSize: s.Cfg.PageSize}
	if d := scn.Compare(wi, gi, s.SeqRoot); d != nil {
		add("resumed-follower-differs", fmt.Sprintf("killed before %s (sidecar %d); after resuming and converging at TXID %d the follower differs from an ordinary restore: %s", res.Before, side1, maxRemote, d))
	}
	if side2, _ := litestream.ReadTXIDFile(fpath); side2 < side1 {
		add("sidecar-regressed", fmt.Sprintf("sidecar %d at kill, %d after resume", side1, side2))
	}
	return
}

func c16(args []string) int {
	hc := c16Check()
	if p := replayArg(args); p != "" {
		return hc.Replay(p)
	}
	thorough := ev.Tier() == "thorough"
	d := func(q, t int) int {
		if thorough {
			return t
		}
		return q
	}
	keep := cfgWith(func(c *scn.Config) { c.L0RetentionNS = int64(1000 * time.Hour) })
	prune := cfgWith(func(c *scn.Config) { c.L0RetentionNS = 1 })
	incr := cfgWith(func(c *scn.Config) { c.L0RetentionNS = 1; c.AutoVacuum = "INCREMENTAL" })
	if h := histArg(args); h != nil {
		hc.rep = ev.NewReporter("C16")
		cfg := prune
		if os.Getenv("C16_CFG") == "keep" {
			cfg = keep
		}
		legal, probs, outcome, _, trace, err := hc.exec(cfg, h)
		fmt.Println(legal, probs, outcome, err, trace)
		return 0
	}
	// W3 (a row with its own overflow pages) rather than W1: consecutive W1 rewrite the same leaf page, which
	// would make a skipped or re-ordered TXID invisible in the follower's pages
	a := strings.Fields("W3 SW CMP:1 CMP:2 SNAP RETL0A:2 FOPEN FPOLL")
	aShrink := strings.Fields("W3 D IVAC VAC SW CMP:1 FOPEN FPOLL")
	seeds := [][]string{strings.Fields("W1 SW"), strings.Fields("W1 SW W1 SW FOPEN W1 SW W1 SW"), strings.Fields("W3 W3 SW FOPEN D SW")}
	layers := []Layer{
		{Name: "exact/prune", Cfg: prune, Alphabet: a, Depth: d(4, 6), Seeds: seeds[:1]},
		{Name: "seeded/prune", Cfg: prune, Alphabet: a, Depth: d(3, 5), Seeds: seeds[1:2]},
		{Name: "seeded/keep", Cfg: keep, Alphabet: a, Depth: d(3, 4), Seeds: seeds[1:2]},
		{Name: "seeded/shrink", Cfg: incr, Alphabet: aShrink, Depth: d(3, 5), Seeds: seeds[2:]},
		// The follower's position is reachable only through level 2, then level 1, then level 0: snapshot retention has
		// cascaded away the level-1 file below it and level-0 retention the level-0 files (a gap bridged only in part per poll).
		{Name: "seeded/keep/multi-level-bridge", Cfg: keep, Alphabet: strings.Fields("FPOLL W1 SW CMP:1"), Depth: d(2, 4), Seeds: [][]string{
			// end shape: L0[8] L1[6-7] L2[1-5] L9[1-8], follower at 2
			// (W3 writes its own overflow pages: a skipped TXID stays visible, whereas consecutive W1 rewrite the same leaf page)
			strings.Fields("W1 SW W1 SW FOPEN W1 SW W1 SW W1 SW CMP:1 CMP:2 W3 SW W3 SW CMP:1 SNAP W1 SW FSNAP RET9A:1 RETL0A:7"),
			// end shape: L0[5-6] L1[4-4] L2[1-3] L9[1-6], follower at 1
			strings.Fields("W1 SW FOPEN W1 SW W1 SW CMP:1 CMP:2 W3 SW CMP:1 SNAP W1 SW W1 SW FSNAP RET9A:1 RETL0A:5"),
		}},
		// a poll whose listed level-0 files are compacted and pruned by the primary before the follower opens them
		{Name: "seeded/keep/poll-races-retention", Cfg: keep, Alphabet: strings.Fields("FPOLLR FPOLL W3 SW"), Depth: d(2, 3), Seeds: [][]string{
			strings.Fields("W1 SW FOPEN W3 SW W3 SW W3 SW"), strings.Fields("W3 SW W1 SW FOPEN U SW W3 SW W1 SW")}},
		{Name: "merged/prune", Cfg: prune, Alphabet: append(append([]string{}, a...), "W3", "D", "VAC", "S", "RET9A:1"), Depth: d(7, 10), Merge: true, MaxRuns: int64(d(1500, 80000)), Seeds: seeds[1:2]},
	}
	budget := ev.Budget(110*time.Second, 40*time.Minute)
	// --- kill/resume half first (bounded), then the convergence half with the remaining budget
	t0 := time.Now()
	killRep := ev.NewReporter("C16")
	var killEvals, killed int64
	var killSummaries []string
	if _, err := os.Stat(killatPath()); err != nil {
		fmt.Fprintln(os.Stderr, "killat binary missing (run setup.sh):", err)
		return 2
	}
	kscs := c16KillScenarios()
	if !thorough {
		kscs = kscs[:3]
	}
	killDeadline := t0.Add(budget * 2 / 5)
	tmp := filepath.Join(scn.ScratchRoot, fmt.Sprintf("lsmc-%d-c16", os.Getpid()))
	os.MkdirAll(tmp, 0o755)
	defer os.RemoveAll(tmp)
	killExhaustive := true
	classes := map[string]bool{}
	for si, sc := range kscs {
		tf := filepath.Join(tmp, fmt.Sprintf("t%d", si))
		r0 := c16RunKill(sc, 0, tf)
		if r0.Harness != nil {
			fmt.Fprintln(os.Stderr, "HARNESS ERROR (no verdict):", r0.Harness)
			return 2
		}
		if len(r0.Problems) > 0 {
			again := c16RunKill(sc, 0, tf)
			if sameProblems(r0.Problems, again.Problems) {
				for _, p := range r0.Problems {
					killRep.Report(&ev.Violation{Kind: p.Kind, Signature: fmt.Sprintf("%s|no-kill|%s", p.Kind, sc.Name), Detail: map[string]any{"scenario": sc, "problem": p.String()}})
				}
				fmt.Printf("[C16] kill scenario %-26s the fault-free follower does not converge; kill points not run\n", sc.Name)
				killExhaustive = false
				continue
			}
		}
		tr, _ := parseTrace(tf)
		n := 0
		for _, l := range tr {
			if l.Seq > n {
				n = l.Seq
			}
		}
		var idx atomic.Int64
		var wg sync.WaitGroup
		var mu sync.Mutex
		var herr error
		for w := 0; w < 12; w++ {
			wg.Add(1)
			go func() {
				defer wg.Done()
				for {
					k := int(idx.Add(1))
					if k > n || time.Now().After(killDeadline) {
						return
					}
					r := c16RunKill(sc, k, "")
					atomic.AddInt64(&killEvals, 1)
					if r.Harness != nil {
						mu.Lock()
						herr = r.Harness
						mu.Unlock()
						return
					}
					if r.Killed {
						atomic.AddInt64(&killed, 1)
						call := strings.Fields(r.Before)
						if len(call) >= 2 {
							mu.Lock()
							classes[sc.Name+"/"+call[1]] = true
							mu.Unlock()
						}
					}
					for _, p := range r.Problems {
						again := c16RunKill(sc, k, "")
						if !sameProblems(r.Problems, again.Problems) {
							continue // timing-dependent (the follower's progress at the kill point varies): not reported
						}
						call := strings.Fields(r.Before)
						c := ""
						if len(call) >= 2 {
							c = call[1]
						}
						killRep.Report(&ev.Violation{Kind: p.Kind, Signature: fmt.Sprintf("%s|kill|%s|before=%s", p.Kind, sc.Name, c),
							Detail: map[string]any{"scenario": sc, "kill_before_call": k, "call": r.Before, "problem": p.String()}})
					}
				}
			}()
		}
		wg.Wait()
		if herr != nil {
			fmt.Fprintln(os.Stderr, "HARNESS ERROR (no verdict):", herr)
			return 2
		}
		done := int(idx.Load())
		if done > n {
			done = n
		}
		if done < n {
			killExhaustive = false
		}
		killSummaries = append(killSummaries, fmt.Sprintf("%s: %d counted follower syscalls, %d kill points run", sc.Name, n, done))
		fmt.Printf("[C16] kill scenario %-26s counted=%d kill-runs=%d\n", sc.Name, n, done)
	}
	// --- convergence half
	hcBudget := budget - time.Since(t0)
	if hcBudget < 20*time.Second {
		hcBudget = 20 * time.Second
	}
	hc.ExtraCoverage = map[string]any{
		"kill_resume": map[string]any{"scenarios": killSummaries, "kill_runs": killEvals, "effective_kills": killed, "exhaustive": killExhaustive, "classes": len(classes),
			"note": "follower syscall indices are not perfectly reproducible (the follow loop polls on a 1ms ticker), so kill point K lands on slightly different calls from run to run; every K in 1..N is run once; a problem is reported only if the same K reproduces it"},
	}
	hc.rep = killRep
	return hc.RunLayers(layers, hcBudget,
		[]string{
			"convergence half: one follow-loop iteration is an explicit FPOLL operation (hook VerifFollowStep mirrors the loop body); the initial follow-mode restore is the real Restore(Follow) stopped when it enters the loop",
			"kill/resume half: the real Restore(Follow, 1ms) runs in a worker process under the ptrace supervisor; only syscalls inside the follower's directory are counted",
			"header bytes 18-19 and 24-27 of page 1 are masked, as the property allows; the page holding litestream's _litestream_seq row is excluded as in C01",
		},
		"convergence: every primary history over {write, sync, compact L1/L2, snapshot, level-0 retention, shrink/vacuum} with the follower opened at every position and polled at every later position, up to the layer depth; after every poll the masked follower file equals the restore of its sidecar TXID and the sidecar never regresses; at the fixpoint it equals an ordinary restore of the latest TXID. kill/resume: for each evolution S1->S2 the follower process is killed before each of its counted syscalls; a fresh follower must first resume on the same output with the primary idle and reach the tip, then the replica advances and another fresh follower resumes and must converge to restore(latest)")
}
