package main

import (
	"fmt"
	"os"
	"path/filepath"
	"runtime/pprof"
	"strconv"
	"time"

	"lsverif/scn"
)

func init() { register("c10dbg", c10dbg) }

// c10dbg <replica-name> <plan-file-index> <kind> <arg> [rep]: runs one C10 job in-process; dumps goroutines if it takes > 15s.
func c10dbg(args []string) int {
	root := filepath.Join(scn.ScratchRoot, fmt.Sprintf("lsmc-%d-c10dbg", os.Getpid()))
	os.MkdirAll(root, 0o755)
	defer os.RemoveAll(root)
	reps, err := c10BuildReplicas(root, true)
	if err != nil {
		fmt.Println(err)
		return 2
	}
	fi, _ := strconv.Atoi(args[1])
	arg, _ := strconv.ParseInt(args[3], 10, 64)
	var rep int64
	if len(args) > 4 {
		rep, _ = strconv.ParseInt(args[4], 10, 64)
	}
	for _, r := range reps {
		if r.Name != args[0] {
			continue
		}
		go func() {
			time.Sleep(15 * time.Second)
			pprof.Lookup("goroutine").WriteTo(os.Stdout, 1)
			os.Exit(3)
		}()
		t0 := time.Now()
		o, p, d, herr := c10Exec(c10Job{r, fi, args[2], arg, rep}, root)
		fmt.Println(o, p, d, herr, time.Since(t0))
		return 0
	}
	fmt.Println("no such replica")
	return 2
}
