package main

import (
	"fmt"
	"strings"
	"time"

	"github.com/benbjohnson/litestream"
	"github.com/superfly/ltx"

	"lsverif/ev"
	"lsverif/scn"
)

func init() { register("c02", c02) }

// c02Oracle: every TXID present at any level of the replica restores to exactly
// one committed state of the source (a ledger entry), with ledger indices
// non-decreasing in TXID; level-0 names are 1..max without a gap; headers carry
// the TXIDs of their names.
func c02Oracle(s *scn.Scn, gapless bool) []*scn.Problem {
	var probs []*scn.Problem
	l0 := scn.ListLevel(s.ReplicaDir, 0)
	if gapless {
		for i, f := range l0 {
			if f.Min != f.Max || f.Min != ltx.TXID(i+1) {
				probs = append(probs, &scn.Problem{Kind: "l0-gap", Detail: fmt.Sprintf("level-0 file #%d is %s; names must be 1..max without a gap: %s", i+1, f, scn.Shape(s.ReplicaDir))})
				break
			}
		}
	}
	// header TXIDs == names, at every level
	for _, fs := range scn.AllLevels(s.ReplicaDir) {
		for _, f := range fs {
			b, err := readReplicaFile(s, f)
			if err != nil {
				continue
			}
			lf, err := decodeLTX(b)
			if err != nil {
				probs = append(probs, &scn.Problem{Kind: "ltx-invalid", Detail: fmt.Sprintf("%s: %v", f, err)})
				continue
			}
			if lf.Hdr.MinTXID != f.Min || lf.Hdr.MaxTXID != f.Max {
				probs = append(probs, &scn.Problem{Kind: "header-name-mismatch", Detail: fmt.Sprintf("%s has header %d-%d", f, lf.Hdr.MinTXID, lf.Hdr.MaxTXID)})
			}
		}
	}
	// every TXID that ends a file at any level
	ends := map[ltx.TXID]bool{}
	var maxT ltx.TXID
	for _, fs := range scn.AllLevels(s.ReplicaDir) {
		for _, f := range fs {
			ends[f.Max] = true
			if f.Max > maxT {
				maxT = f.Max
			}
		}
	}
	lo := 0
	for n := ltx.TXID(1); n <= maxT; n++ {
		im, err := s.Restore(scn.RestoreOpt{TXID: n})
		if err != nil {
			if scn.IsTxNotAvailable(err) && !ends[n] {
				continue
			}
			if scn.IsTxNotAvailable(err) {
				// a file ends at n but no chain reaches it: allowed only if level-0 history below it was removed (not in C02's alphabets)
				if gapless {
					probs = append(probs, &scn.Problem{Kind: "txid-unrestorable", Detail: fmt.Sprintf("TXID %d is present on the replica but cannot be restored: %s (%s)", n, scn.ErrClass(err), scn.Shape(s.ReplicaDir))})
				}
				continue
			}
			probs = append(probs, &scn.Problem{Kind: "txid-restore-error", Detail: fmt.Sprintf("TXID %d: %s", n, scn.ErrClass(err))})
			continue
		}
		idx := s.MatchLedger(im)
		if len(idx) == 0 {
			probs = append(probs, &scn.Problem{Kind: "txid-not-a-committed-state", Detail: fmt.Sprintf("restore of TXID %d (%d pages) equals no committed state of the source (ledger has %d states)", n, im.Pages(), len(s.Ledger))})
			continue
		}
		// greedy non-decreasing assignment
		pick := -1
		for _, i := range idx {
			if i >= lo {
				pick = i
				break
			}
		}
		if pick < 0 {
			probs = append(probs, &scn.Problem{Kind: "txid-order-regresses", Detail: fmt.Sprintf("TXID %d restores to ledger state %v, earlier than state %d of a lower TXID", n, idx, lo)})
			continue
		}
		lo = pick
	}
	// snapshots decode directly to the state of their MaxTXID
	for _, f := range scn.ListLevel(s.ReplicaDir, litestream.SnapshotLevel) {
		b, err := readReplicaFile(s, f)
		if err != nil {
			continue
		}
		lf, err := decodeLTX(b)
		if err != nil {
			continue
		}
		im := &scn.Image{PageSize: s.Cfg.PageSize, Data: make([]byte, int(lf.Hdr.Commit)*s.Cfg.PageSize)}
		for p, d := range lf.Pages {
			if p <= lf.Hdr.Commit {
				copy(im.Data[int(p-1)*s.Cfg.PageSize:], d)
			}
		}
		want, err := s.Restore(scn.RestoreOpt{TXID: f.Max})
		if err != nil {
			continue
		}
		_ = want
		if len(s.MatchLedger(im)) == 0 {
			probs = append(probs, &scn.Problem{Kind: "snapshot-not-a-committed-state", Detail: fmt.Sprintf("snapshot %s decodes to a database that equals no committed state of the source", f)})
		}
	}
	return probs
}

func c02Check() *HistCheck {
	return &HistCheck{
		ID:    "C02",
		Level: "model_checking",
		Final: func(s *scn.Scn) ([]*scn.Problem, string, error) {
			if s.LSOpen {
				o := s.Do("SW")
				if !o.Ack {
					return nil, "final-sw-failed:" + o.String(), nil
				}
			}
			probs := c02Oracle(s, true)
			return probs, fmt.Sprintf("ok/txids=%d/ledger=%d/%s", s.RemoteMaxL0(), len(s.Ledger), levelsPresent(s)), nil
		},
	}
}

func levelsPresent(s *scn.Scn) string {
	var ls []string
	for l := 0; l <= litestream.SnapshotLevel; l++ {
		if len(scn.ListLevel(s.ReplicaDir, l)) > 0 {
			ls = append(ls, fmt.Sprint(l))
		}
	}
	return "L" + strings.Join(ls, ",")
}

func c02(args []string) int {
	hc := c02Check()
	if p := replayArg(args); p != "" {
		return hc.Replay(p)
	}
	thorough := ev.Tier() == "thorough"
	d := func(q, t int) int {
		if thorough {
			return t
		}
		return q
	}
	base := scn.DefaultConfig()
	chunk1 := cfgWith(func(c *scn.Config) { c.MaxSyncWALFrames = 1 })
	chunk3 := cfgWith(func(c *scn.Config) { c.MaxSyncWALFrames = 3; c.MinCheckpointPageN = 4 })
	min3 := cfgWith(func(c *scn.Config) { c.MinCheckpointPageN = 3; c.TruncatePageN = 8 })
	// No level-0 retention in C02: the property asks for gapless level-0 names from 1.
	for _, c := range []*scn.Config{&base, &chunk1, &chunk3, &min3} {
		c.L0RetentionNS = int64(1000 * time.Hour)
	}
	if h := histArg(args); h != nil {
		hc.rep = ev.NewReporter("C02")
		legal, probs, outcome, _, trace, err := hc.exec(base, h)
		fmt.Println(legal, probs, outcome, err, trace)
		return 0
	}
	aTx := strings.Fields("W1 U TXB TXC TXR S SW LC:PASSIVE SNAP CMP:1")
	aCmp := strings.Fields("W1 W3 D S SW SNAP CMP:1 CMP:2 LC:TRUNCATE")
	aWide := strings.Fields("W1 W3 U D VAC TXB TXC TXR RDB RDE S RS SW LC:PASSIVE LC:TRUNCATE CK:PASSIVE CK:TRUNCATE SNAP FSNAP CMP:1 CMP:2")
	seeds := [][]string{strings.Fields("W1 SW"), strings.Fields("W1 SW TXB"), strings.Fields("W3 SW W1 S W1 S"), strings.Fields("W3 SW LC:PASSIVE W1"),
		strings.Fields("W3 W3 SW W1"), // multi-page table, unsynced commit: a following TXB spills new versions of existing pages behind it
		strings.Fields("W3 W3 SW W1 TXB")}
	layers := []Layer{
		// snapshots, compactions and syncs right after litestream was restarted on a WAL it had already copied
		{Name: "seeded/base/after-restart", Cfg: base, Alphabet: strings.Fields("S SW FSNAP SNAP CMP:1 W1 U"), Depth: d(2, 3),
			Seeds: [][]string{strings.Fields("W3 SW LC:TRUNCATE W1 SW KILL NEW"), strings.Fields("W3 SW W1 SW CL START"), strings.Fields("W3 SW LC:PASSIVE U SW W1 SW KILL NEW"),
				strings.Fields("W3 SW LC:PASSIVE W1 SW KILL NEW S")}}, // the restarted litestream's first sync found nothing to copy
		// litestream is down while the application commits a (multi-frame) transaction behind the synced position,
		// backfills it and restarts the WAL with something shorter: the file written after the restart must be one
		// committed state, not the old position plus the new generation
		{Name: "seeded/base/tail-hidden-by-restart-while-down", Cfg: base, Alphabet: strings.Fields("W1 U START NEW SW CK:PASSIVE"), Depth: d(3, 4),
			Seeds: [][]string{strings.Fields("W3 SW CL W3 CK:PASSIVE"), strings.Fields("W3 SW KILL W3 U CK:PASSIVE"), strings.Fields("W3 SW CL U CK:PASSIVE"), strings.Fields("W3 SW CL W3 CK:RESTART")}},
		// litestream is down while the database and its WAL are replaced by a divergent copy of the same WAL generation
		// (same salts, same length): what is written after the restart must not be deltas on pages of the other history
		{Name: "seeded/base/database-swapped-while-down", Cfg: base, Alphabet: strings.Fields("W1 U START NEW SW"), Depth: d(3, 4),
			Seeds: [][]string{strings.Fields("W3 SW SAVEDB W1 CL SWAPDB"), strings.Fields("W3 SW SAVEDB U SW CL SWAPDB"), strings.Fields("W3 SW SAVEDB W1 SW KILL SWAPDB")}},
		{Name: "exact/chunk1/tx", Cfg: chunk1, Alphabet: aTx, Depth: d(3, 5)},
		{Name: "exact/base/tx", Cfg: base, Alphabet: aTx, Depth: d(3, 5)},
		{Name: "exact/chunk3/tx", Cfg: chunk3, Alphabet: aTx, Depth: d(3, 4)},
		{Name: "exact/base/compaction", Cfg: base, Alphabet: aCmp, Depth: d(3, 5)},
		{Name: "seeded/min3/tx", Cfg: min3, Alphabet: aTx, Depth: d(2, 4), Seeds: seeds},
		{Name: "seeded/chunk1/compaction", Cfg: chunk1, Alphabet: aCmp, Depth: d(2, 3), Seeds: seeds},
		{Name: "merged/chunk1/wide", Cfg: chunk1, Alphabet: aWide, Depth: d(7, 12), Merge: true, MaxRuns: int64(d(2500, 120000))},
		{Name: "merged/min3/wide", Cfg: min3, Alphabet: aWide, Depth: d(7, 12), Merge: true, MaxRuns: int64(d(1500, 80000))},
	}
	return hc.RunLayers(layers, ev.Budget(100*time.Second, 40*time.Minute),
		[]string{
			"this check covers the histories quantifier; the schedules quantifier (concurrent application writer) is covered by the schedule exploration in C12's check",
			"the ledger of committed source states is computed from the db file + committed WAL frames by a from-spec decoder after every operation; states only differing in litestream's own _litestream_seq row are identified",
			"no retention in these alphabets, so level-0 must be exactly 1..max on the replica",
		},
		"every history over the layer alphabet (multi-statement transactions with spilled uncommitted frames, rollbacks, chunked syncs, snapshots, compactions) up to the layer depth; at the end every TXID 1..max is restored and must equal a committed source state with non-decreasing order; level-0 names gapless from 1; headers match names; snapshots decode to a committed state")
}
