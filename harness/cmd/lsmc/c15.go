package main

import (
	"context"
	"fmt"
	"sort"
	"strings"
	"time"

	"github.com/benbjohnson/litestream"
	"github.com/benbjohnson/litestream/file"
	"github.com/superfly/ltx"

	"lsverif/ev"
	"lsverif/scn"
)

func init() { register("c15", c15) }

// c15Oracle restores at every T at / just before / just after / between the
// replication times of every TXID and checks the result against the fold of
// archived level-0 files.
func c15Oracle(s *scn.Scn, a *archive) (probs []*scn.Problem, nT int, harness error) {
	add := func(k, d string) {
		probs = append(probs, &scn.Problem{Kind: k, Detail: d + " [" + scn.Shape(s.ReplicaDir) + "]"})
	}
	var maxT ltx.TXID
	for n := range a.l0 {
		if n > maxT {
			maxT = n
		}
	}
	if maxT == 0 {
		return nil, 0, nil
	}
	ts := make([]int64, maxT+1) // replication time (ms) of TXID j = header timestamp of level-0 file j
	imgs := make([]*scn.Image, maxT+1)
	for j := ltx.TXID(1); j <= maxT; j++ {
		f, err := decodeLTX(a.l0[j])
		if err != nil {
			return nil, 0, fmt.Errorf("archived L0 %d: %w", j, err)
		}
		ts[j] = f.Hdr.Timestamp
		im, err := a.image(j, s.Cfg.PageSize)
		if err != nil {
			return nil, 0, err
		}
		imgs[j] = im
		if j > 1 && ts[j] < ts[j-1] {
			return nil, 0, fmt.Errorf("level-0 timestamps not monotone: t%d=%d t%d=%d", j-1, ts[j-1], j, ts[j])
		}
	}
	// Candidate times.
	// (in MICROseconds since the epoch: replication times are whole milliseconds, a requested T need not be; the
	// candidates 400 us before and after every replication time fall inside the millisecond next to it)
	const ms = int64(1000)
	cand := map[int64]bool{(ts[1] - 1) * ms: true, (ts[maxT] + 1) * ms: true}
	for j := ltx.TXID(1); j <= maxT; j++ {
		cand[ts[j]*ms], cand[(ts[j]+1)*ms], cand[(ts[j]-1)*ms] = true, true, true
		cand[ts[j]*ms+400], cand[ts[j]*ms-400] = true, true
		if j < maxT && ts[j+1]-ts[j] >= 2 {
			cand[(ts[j]+ts[j+1])/2*ms] = true
		}
	}
	for lvl, fs := range scn.AllLevels(s.ReplicaDir) {
		if lvl == 0 {
			continue
		}
		for _, f := range fs {
			m := f.MTime.UnixMilli()
			cand[(m-1)*ms], cand[m*ms], cand[(m+1)*ms] = true, true, true
			// A compacted file is "replicated" when its newest input was: its listing time must be that time.
			if lvl != litestream.SnapshotLevel && f.Max <= maxT && m != ts[f.Max] {
				add("compacted-file-time-not-newest-input", fmt.Sprintf("%s is listed with time %+dms relative to the replication time of TXID %d", f, m-ts[f.Max], f.Max))
			}
		}
	}
	var Ts []int64
	for t := range cand {
		Ts = append(Ts, t)
	}
	sort.Slice(Ts, func(i, j int) bool { return Ts[i] < Ts[j] })
	// Are all level-0 files still on the replica?
	remote0 := scn.ListLevel(s.ReplicaDir, 0)
	complete := len(remote0) == int(maxT) && remote0[0].Min == 1
	rep := litestream.NewReplicaWithClient(nil, file.NewReplicaClient(s.ReplicaDir))
	prevJ := ltx.TXID(0)
	for _, T := range Ts {
		nT++
		tt := time.UnixMicro(T).UTC()
		im, err := s.Restore(scn.RestoreOpt{Timestamp: tt})
		// newest TXID replicated strictly before T
		var best ltx.TXID
		for j := ltx.TXID(1); j <= maxT; j++ {
			if ts[j]*ms < T {
				best = j
			}
		}
		// CalcRestoreTarget must reject a T before the first backup.
		if T < ts[1]*ms {
			opt := litestream.NewRestoreOptions()
			opt.Timestamp = tt
			if _, terr := rep.CalcRestoreTarget(context.Background(), opt); terr == nil {
				add("target-accepts-time-before-first-backup", fmt.Sprintf("CalcRestoreTarget accepted T=t1%+dus", T-ts[1]*ms))
			}
		}
		if err != nil {
			if complete && best > 0 {
				add("timestamp-restore-failed", fmt.Sprintf("T=%s: all level-0 files present, TXID %d was replicated before T, but restore failed: %s", relTus(T, ts), best, scn.ErrClass(err)))
			}
			continue
		}
		if best == 0 {
			add("restore-before-first-backup-succeeded", fmt.Sprintf("T=%s is not after the first replication time but restore returned a database", relTus(T, ts)))
			continue
		}
		// Which TXIDs does the restored image equal?
		var eq []ltx.TXID
		for j := ltx.TXID(1); j <= maxT; j++ {
			if scn.Compare(imgs[j], im, s.SeqRoot) == nil {
				eq = append(eq, j)
			}
		}
		if len(eq) == 0 {
			add("timestamp-restore-not-a-txid-state", fmt.Sprintf("T=%s: restored database equals the state of no replicated TXID", relTus(T, ts)))
			continue
		}
		ok, exact := false, false
		var chosen ltx.TXID
		for _, j := range eq {
			if ts[j]*ms < T {
				ok = true
				if j >= chosen {
					chosen = j
				}
			}
			if j == best {
				exact = true
			}
		}
		if !ok {
			add("data-from-after-T", fmt.Sprintf("T=%s: restored state equals TXID(s) %v, all replicated at or after T", relTus(T, ts), eq))
			continue
		}
		if complete && !exact {
			add("not-last-txid-before-T", fmt.Sprintf("T=%s: all level-0 files present; expected TXID %d, restored state equals %v", relTus(T, ts), best, eq))
		}
		// A later T never yields an earlier state: the newest matching TXID must not regress below the
		// previous answer unless the images are equal (eq contains a TXID >= prevJ).
		if chosen < prevJ {
			add("later-T-earlier-state", fmt.Sprintf("T=%s yields TXID %v after an earlier T yielded %d", relTus(T, ts), eq, prevJ))
		}
		if chosen > prevJ {
			prevJ = chosen
		}
	}
	return probs, nT, nil
}

// relTus is relT for a T given in microseconds.
func relTus(T int64, ts []int64) string {
	r := relT(T/1000, ts)
	if us := T % 1000; us != 0 {
		r += fmt.Sprintf("%+dus", us)
	}
	return r
}

func relT(T int64, ts []int64) string {
	for j := len(ts) - 1; j >= 1; j-- {
		if T >= ts[j]-1 {
			return fmt.Sprintf("t%d%+dms", j, T-ts[j])
		}
	}
	return fmt.Sprintf("t1%+dms", T-ts[1])
}

func c15Check() *HistCheck {
	return &HistCheck{
		ID:      "C15",
		Level:   "model_checking",
		Prepare: func(s *scn.Scn) { s.DistinctMS = true; s.TickGapMS = 3 },
		AfterOp: func(s *scn.Scn, op string, o scn.Outcome) *scn.Problem {
			archiveOf(s).update(s)
			return nil
		},
		Final: func(s *scn.Scn) ([]*scn.Problem, string, error) {
			a := archiveOf(s)
			if s.LSOpen {
				s.Do("SW")
				a.update(s)
			}
			s.RefreshSeqRoot()
			probs, nT, err := c15Oracle(s, a)
			if err != nil {
				return nil, "", &scn.HarnessError{Msg: err.Error()}
			}
			// Commit-time bound, independent of the timestamps litestream wrote: state i of the source was committed
			// not earlier than LedgerPre[i], hence replicated not earlier either; a restore with T = that instant
			// (truncated to the millisecond resolution of LTX timestamps) must yield a state committed before it.
			for i := 1; i < len(s.Ledger) && i < len(s.LedgerPre); i++ {
				T := s.LedgerPre[i].Truncate(time.Millisecond)
				im, rerr := s.Restore(scn.RestoreOpt{Timestamp: T})
				if rerr != nil {
					continue
				}
				nT++
				idx := s.MatchLedger(im)
				if len(idx) == 0 {
					continue // judged by the TXID-state oracle above
				}
				older := false
				for _, j := range idx {
					if j < i {
						older = true
					}
				}
				if !older {
					probs = append(probs, &scn.Problem{Kind: "data-from-after-T", Detail: fmt.Sprintf("T = an instant not later than the commit of source state #%d: the restore equals source state(s) %v, committed (hence replicated) at or after T", i, idx)})
				}
			}
			return probs, fmt.Sprintf("ok/%s/T=%d", shapeClass(s), bucket(nT)), nil
		},
	}
}

func c15(args []string) int {
	hc := c15Check()
	if p := replayArg(args); p != "" {
		return hc.Replay(p)
	}
	thorough := ev.Tier() == "thorough"
	d := func(q, t int) int {
		if thorough {
			return t
		}
		return q
	}
	keep := cfgWith(func(c *scn.Config) { c.UseStore = false; c.L0RetentionNS = int64(1000 * time.Hour) })
	prune := cfgWith(func(c *scn.Config) { c.UseStore = false; c.L0RetentionNS = 1 })
	if h := histArg(args); h != nil {
		hc.rep = ev.NewReporter("C15")
		legal, probs, outcome, _, trace, err := hc.exec(keep, h)
		fmt.Println(legal, probs, outcome, err, trace)
		return 0
	}
	// S and RS separately: the upload then happens at least one tick gap after the file was stamped
	a := strings.Fields("W1 SW S RS LC:TRUNCATE CMP:1 CMP:2 SNAP RET9:1 RETL0:2")
	seeds := [][]string{
		strings.Fields("W1 SW W1 SW W1 SW"),
		strings.Fields("W1 SW W1 SW CMP:1 W1 SW SNAP W1 SW"),
		strings.Fields("W1 SW SNAP W1 SW CMP:1 W1 SW CMP:1 CMP:2 W1 SW SNAP"),
	}
	layers := []Layer{
		// files whose content is fixed later than they were requested: a snapshot requested while a sync is in
		// flight (QSNAP = one fixed interleaving of DB.Sync and DB.Snapshot, see scn/ops.go) must not be stamped
		// earlier than the level-0 file it ends up covering
		{Name: "seeded/keep-l0/queued-snapshot", Cfg: keep, Alphabet: strings.Fields("W1 SW QSNAP CMP:1 RETL0:2"), Depth: d(3, 4),
			Seeds: [][]string{strings.Fields("W1 SW W1"), strings.Fields("W1 SW W1 SW CMP:1 W1")}},
		// several level-0 files written by ONE executor pass with an application commit landing in between (LCW: the
		// checkpoint barrier waits for the application's open transaction)
		{Name: "seeded/keep-l0/commit-inside-checkpoint-pass", Cfg: func() scn.Config { c := keep; c.BusyTimeoutMS = 80; return c }(), Alphabet: strings.Fields("LCW:PASSIVE:early LCW:RESTART:early LCW:PASSIVE W1 SW TXB"), Depth: d(2, 3),
			Seeds: [][]string{strings.Fields("W1 SW W1 TXB"), strings.Fields("W1 SW TXB")}},
		// a snapshot taken by a freshly restarted litestream BEFORE it has copied the application's newest commit (its
		// first sync found nothing to copy; the WAL file still carries a stale tail from before a checkpoint): the
		// snapshot must end at the replicated position, not at whatever the WAL file holds
		{Name: "seeded/keep-l0/restart-idle-sync-then-snapshot", Cfg: keep, Alphabet: strings.Fields("W1 U S FSNAP SNAP SW"), Depth: d(3, 4),
			Seeds: [][]string{strings.Fields("W3 SW LC:PASSIVE W1 SW KILL NEW S"), strings.Fields("W3 W3 SW CK:PASSIVE W1 SW CL START S"), strings.Fields("W3 SW LC:PASSIVE W1 SW KILL NEW")}},
		{Name: "exact/keep-l0", Cfg: keep, Alphabet: a, Depth: d(4, 6)},
		{Name: "seeded/keep-l0", Cfg: keep, Alphabet: a, Depth: d(2, 4), Seeds: seeds},
		{Name: "seeded/l0-pruned-by-compaction", Cfg: prune, Alphabet: a, Depth: d(2, 4), Seeds: seeds},
		{Name: "merged/keep-l0", Cfg: keep, Alphabet: append(append([]string{}, a...), "S", "W3", "D", "LC:PASSIVE", "RET9:2", "RETL0:1", "RETL0:3"), Depth: d(7, 10), Merge: true, MaxRuns: int64(d(800, 60000)), Seeds: seeds[:1]},
	}
	return hc.RunLayers(layers, ev.Budget(110*time.Second, 40*time.Minute),
		[]string{
			"replication time of TXID j = header timestamp (ms) of level-0 file j, read back from the archived file; the driver keeps file-creating operations at least 3 ms apart",
			"the state of TXID j is the reference fold of archived level-0 files 1..j",
			"file replica: CreatedAt = mtime set from the LTX header timestamp",
		},
		"every history over {write, sync, TRUNCATE checkpoint (in-chain snapshot), compact L1/L2, snapshot, snapshot retention, level-0 retention} up to the layer depth; at the end every T in {t1-1ms, ti-1ms, ti, ti+1ms, midpoints, tn+1ms} and +-1ms around every higher-level file time is restored: the result equals the state of a TXID replicated strictly before T, never regresses for later T, equals the last TXID before T when all level-0 files remain, fails for T <= t1; CalcRestoreTarget rejects T < t1")
}
