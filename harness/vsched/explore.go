package vsched

import "time"

// Explorer is the stateless, preemption-bounded depth-first schedule explorer:
// every execution starts from scratch (Run replays a prefix of choices, then
// takes choice 0 at every later point), and for every point beyond the prefix
// each alternative choice that stays within the preemption bound is explored
// recursively.
type Explorer struct {
	// Exec performs one execution from scratch with the given choice prefix;
	// expect holds the enabled sets recorded when the prefix was first seen.
	Exec func(prefix []int, expect [][]int) *Execution
	// Check is called once per execution; returning false stops the exploration.
	Check func(x *Execution) bool

	Bound    int
	Deadline time.Time // zero = none
	MaxExecs int64     // 0 = unlimited

	Execs     int64
	Points    int64 // sum of points over executions
	MaxPoints int
	Truncated bool // stopped by deadline, MaxExecs or Check
	stop      bool
}

// Explore runs the exploration for the configured bound; it returns true when
// every schedule within the bound was executed.
func (e *Explorer) Explore() bool {
	e.stop, e.Truncated = false, false
	e.explore(nil, nil)
	return !e.Truncated
}

func (e *Explorer) explore(prefix []int, expect [][]int) {
	if e.stop {
		return
	}
	if (!e.Deadline.IsZero() && time.Now().After(e.Deadline)) || (e.MaxExecs > 0 && e.Execs >= e.MaxExecs) {
		e.stop, e.Truncated = true, true
		return
	}
	x := e.Exec(prefix, expect)
	e.Execs++
	e.Points += int64(len(x.Points))
	if len(x.Points) > e.MaxPoints {
		e.MaxPoints = len(x.Points)
	}
	if !e.Check(x) {
		e.stop, e.Truncated = true, true
		return
	}
	if x.Diverged != "" || x.Stuck {
		e.stop, e.Truncated = true, true
		return
	}
	// preemptions before point i, incrementally
	pre := 0
	for i := 0; i < len(x.Points); i++ {
		p := x.Points[i]
		if i >= len(prefix) {
			cost := pre
			if p.RunningEnabled {
				cost++ // switching away from a runnable thread is a preemption
			}
			if cost <= e.Bound {
				for alt := 1; alt < len(p.Enabled); alt++ {
					np := append(append(make([]int, 0, i+1), x.Choices[:i]...), alt)
					ne := make([][]int, i+1)
					for j := 0; j <= i; j++ {
						ne[j] = x.Points[j].Enabled
					}
					e.explore(np, ne)
					if e.stop {
						return
					}
				}
			}
		}
		if p.RunningEnabled && p.Chosen != 0 {
			pre++
		}
	}
}
