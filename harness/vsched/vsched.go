// Package vsched is a cooperative scheduler for systematic schedule
// exploration (CHESS style) of real, unmodified-in-logic Go code whose
// blocking primitives were replaced (at build time) by the shims in
// lsverif/vsync. Threads are real goroutines; exactly one managed thread runs
// between two scheduling points, all others are parked. The controller (the
// goroutine that calls Run) decides at every point which enabled thread
// proceeds, from a list of choices, so an execution is a pure function of its
// choice list.
//
// Managed threads are identified by goroutine id (parsed from runtime.Stack),
// so a goroutine that is not managed (database/sql helpers, setup/teardown
// code) is never mistaken for the running thread; when such a goroutine
// touches a shim object while an execution is active it is counted in
// UnmanagedTouches (the shims then fall back to real blocking semantics).
package vsched

import (
	"fmt"
	"os"
	"runtime"
	"runtime/debug"
	"sort"
	"strings"
	"sync"
	"sync/atomic"
	"time"
	"unsafe"
)

// Pred reports whether a parked thread's pending operation can proceed.
type Pred func() bool

// Thread is one managed thread.
type Thread struct {
	ID     int
	Name   string
	Parent int // -1 for harness threads
	goid   uint64
	resume chan struct{}
	done   bool

	// pending operation (valid while parked)
	kind   string
	obj    string
	pred   Pred
	prefer int // thread that naturally continues when this one blocks (pipe peer), -1 = none

	PanicVal   any
	PanicStack string
	steps      int
}

// PointRec is one scheduling decision.
type PointRec struct {
	Enabled        []int  `json:"enabled"` // thread ids in canonical order: running thread first if enabled, then ascending ids
	Chosen         int    `json:"chosen"`  // index into Enabled
	RunningEnabled bool   `json:"running_enabled"`
	Thread         int    `json:"thread"` // id of the chosen thread
	Kind           string `json:"kind"`   // operation the chosen thread performs next
	Obj            string `json:"obj"`
}

// ThreadInfo summarises a thread at the end of an execution.
type ThreadInfo struct {
	ID       int    `json:"id"`
	Name     string `json:"name"`
	Parent   int    `json:"parent"`
	Finished bool   `json:"finished"`
	Panic    string `json:"panic,omitempty"`
	Stack    string `json:"stack,omitempty"`
	Pending  string `json:"pending,omitempty"` // kind@obj it is parked at, if unfinished
	Steps    int    `json:"steps"`
}

// Execution is the record of one run.
type Execution struct {
	Points           []PointRec
	Choices          []int // Chosen of every point
	Deadlock         bool
	Horizon          bool
	Stuck            bool // a thread did not reach its next point within the watchdog time
	Diverged         string
	Threads          []ThreadInfo
	Handoffs         int64 // forced pipe hand-offs (no scheduling decision)
	Collapsed        int64 // operations on non-preemptible objects that proceeded without yielding
	UnmanagedTouches int64
	UnmanagedSample  []string
}

// PreemptionsBefore counts preemptive switches among points [0,i).
func (x *Execution) PreemptionsBefore(i int) int {
	n := 0
	for j := 0; j < i && j < len(x.Points); j++ {
		if x.Points[j].RunningEnabled && x.Points[j].Chosen != 0 {
			n++
		}
	}
	return n
}

// Preemptions counts preemptive switches in the whole execution.
func (x *Execution) Preemptions() int { return x.PreemptionsBefore(len(x.Points)) }

type state struct {
	mu       sync.Mutex
	threads  []*Thread
	byGoid   map[uint64]*Thread
	yielded  chan *Thread
	names    map[unsafe.Pointer]string
	anonSeq  int
	policy   func(kind, obj string) bool
	unmSamp  []string
	abandon  bool
	watchdog time.Duration
}

var (
	active    atomic.Bool
	collapsed atomic.Int64
	unmanaged atomic.Int64
	st        = newState()
)

func newState() *state {
	return &state{byGoid: map[uint64]*Thread{}, yielded: make(chan *Thread, 1), names: map[unsafe.Pointer]string{}, watchdog: 30 * time.Second}
}

// Reset prepares a new execution: forgets threads, object names and counters.
// Threads abandoned by an earlier deadlocked execution stay parked forever.
func Reset() {
	active.Store(false)
	st = newState()
	collapsed.Store(0)
	unmanaged.Store(0)
}

// SetWatchdog sets how long the controller waits for a resumed thread to reach its next point.
func SetWatchdog(d time.Duration) { st.watchdog = d }

// SetPolicy installs the preemptibility policy: policy(kind, obj) == false makes
// operations on obj yield only when they cannot proceed.
func SetPolicy(p func(kind, obj string) bool) { st.policy = p }

// Preemptible applies the policy.
func Preemptible(kind, obj string) bool {
	if p := st.policy; p != nil {
		return p(kind, obj)
	}
	return true
}

// SetName names a shim object (by address) for schedules, lock tables and policies.
func SetName(p unsafe.Pointer, name string) {
	st.mu.Lock()
	st.names[p] = name
	st.mu.Unlock()
}

// NameOf returns the name of a shim object, assigning "typ#k" in first-touch
// order (deterministic for a deterministic schedule) when it has none.
func NameOf(p unsafe.Pointer, typ string) string {
	st.mu.Lock()
	defer st.mu.Unlock()
	if n, ok := st.names[p]; ok {
		return n
	}
	st.anonSeq++
	n := fmt.Sprintf("%s#%d", typ, st.anonSeq)
	st.names[p] = n
	return n
}

func goid() uint64 {
	var buf [40]byte
	n := runtime.Stack(buf[:], false)
	// "goroutine 123 ["
	var id uint64
	for i := len("goroutine "); i < n; i++ {
		c := buf[i]
		if c < '0' || c > '9' {
			break
		}
		id = id*10 + uint64(c-'0')
	}
	return id
}

// Active reports whether an execution is in progress.
func Active() bool { return active.Load() }

// Cur returns the managed thread of the calling goroutine, or nil. While an
// execution is active a nil result is counted as an unmanaged touch.
func Cur() *Thread {
	if !active.Load() {
		return nil
	}
	g := goid()
	s := st
	s.mu.Lock()
	t := s.byGoid[g]
	if t == nil && len(s.unmSamp) < 3 {
		s.unmSamp = append(s.unmSamp, string(debug.Stack()))
	}
	s.mu.Unlock()
	if t == nil {
		unmanaged.Add(1)
	}
	return t
}

// CurQuiet is Cur without the unmanaged-touch accounting (for harness code).
func CurQuiet() *Thread {
	if !active.Load() {
		return nil
	}
	g := goid()
	st.mu.Lock()
	defer st.mu.Unlock()
	return st.byGoid[g]
}

type abandoned struct{}

func spawn(name string, parent int, f func()) *Thread {
	s := st
	s.mu.Lock()
	t := &Thread{ID: len(s.threads), Name: name, Parent: parent, resume: make(chan struct{}), kind: "start", obj: name, prefer: -1}
	s.threads = append(s.threads, t)
	s.mu.Unlock()
	reg := make(chan struct{})
	go func() {
		t.goid = goid()
		s.mu.Lock()
		s.byGoid[t.goid] = t
		s.mu.Unlock()
		close(reg)
		<-t.resume
		if s.abandon {
			return
		}
		defer func() {
			if r := recover(); r != nil {
				if _, ok := r.(abandoned); ok {
					return
				}
				t.PanicVal = r
				t.PanicStack = string(debug.Stack())
			}
			s.mu.Lock()
			t.done = true
			delete(s.byGoid, t.goid)
			s.mu.Unlock()
			s.yielded <- t
		}()
		f()
	}()
	<-reg
	return t
}

// Spawn creates a harness thread (before Run). It starts parked at its "start" point.
func Spawn(name string, f func()) *Thread { return spawn(name, -1, f) }

// Go is the replacement of the go statement inside the code under test: from a
// managed thread it creates a managed child thread (parked at "start"), from
// any other goroutine it is a plain go statement.
func Go(f func()) {
	if t := Cur(); t != nil {
		n := 0
		st.mu.Lock()
		for _, o := range st.threads {
			if o.Parent == t.ID {
				n++
			}
		}
		st.mu.Unlock()
		spawn(fmt.Sprintf("%s/go%d", t.Name, n), t.ID, f)
		return
	}
	go f()
}

// Point is a scheduling point of thread t before operation kind on obj. pred
// (nil = always) tells whether the operation can proceed; the thread is not
// enabled until it can. With preempt == false the thread yields only when the
// operation cannot proceed right now.
func (t *Thread) Point(kind, obj string, pred Pred, preempt bool) {
	if !preempt && (pred == nil || pred()) {
		collapsed.Add(1)
		return
	}
	s := st
	t.kind, t.obj, t.pred = kind, obj, pred
	s.yielded <- t
	<-t.resume
	if s.abandon {
		panic(abandoned{})
	}
}

// BlockPrefer is Point for an operation that yields only when it cannot proceed, naming the
// thread that naturally continues while this one is blocked (the peer of a pipe): the
// scheduler treats that thread as the continuation of the running one, so switching to a
// third thread at this point costs a preemption (or, with Options.ForcedHandoff, is not
// offered at all).
func (t *Thread) BlockPrefer(kind, obj string, pred Pred, prefer int) {
	if pred == nil || pred() {
		collapsed.Add(1)
		return
	}
	t.prefer = prefer
	t.Point(kind, obj, pred, true)
	t.prefer = -1
}

// LastChild returns the id of the most recently spawned unfinished child of t, or -1.
func LastChild(t *Thread) int {
	st.mu.Lock()
	defer st.mu.Unlock()
	for i := len(st.threads) - 1; i >= 0; i-- {
		if o := st.threads[i]; o.Parent == t.ID && !o.done {
			return o.ID
		}
	}
	return -1
}

// Steps returns how many times the thread has been resumed so far.
func (t *Thread) Steps() int { return t.steps }

// Yield is an explicit, always enabled scheduling point (no-op outside managed threads).
func Yield(kind, obj string) {
	if t := CurQuiet(); t != nil {
		t.Point(kind, obj, nil, true)
	}
}

// Options of Run.
type Options struct {
	Choices  []int   // choices[i] is taken at point i; choice 0 afterwards
	Expect   [][]int // optional: enabled sets recorded by an earlier execution; a difference while replaying is a divergence
	MaxSteps int     // livelock horizon
	// ForcedHandoff: when the running thread blocks on a pipe whose peer is enabled, the peer
	// continues without a scheduling decision (the pair behaves like one coroutine).
	ForcedHandoff bool
}

// HarnessError is the panic value for misuse (out-of-range choice).
type HarnessError struct{ Msg string }

func (e *HarnessError) Error() string { return "vsched: " + e.Msg }

// Run executes the spawned threads under the given choices until all have
// finished, none is enabled (deadlock) or the step horizon is hit.
func Run(o Options) *Execution {
	s := st
	x := &Execution{}
	if o.MaxSteps <= 0 {
		o.MaxSteps = 50000
	}
	active.Store(true)
	defer active.Store(false)
	last := -1
	for step := 0; ; step++ {
		s.mu.Lock()
		ths := append([]*Thread(nil), s.threads...)
		s.mu.Unlock()
		var en []*Thread
		unfinished := 0
		for _, t := range ths {
			if t.done {
				continue
			}
			unfinished++
			if t.pred == nil || t.pred() {
				en = append(en, t)
			}
		}
		if len(en) == 0 {
			if unfinished > 0 {
				x.Deadlock = true
			}
			break
		}
		if step >= o.MaxSteps {
			x.Horizon = true
			break
		}
		sort.Slice(en, func(i, j int) bool { return en[i].ID < en[j].ID })
		cont := last
		if last >= 0 && last < len(ths) {
			lt := ths[last]
			lastEnabled := false
			for _, t := range en {
				if t.ID == last {
					lastEnabled = true
				}
			}
			if !lastEnabled && !lt.done && lt.prefer >= 0 {
				cont = lt.prefer // the blocked thread's pipe peer continues in its place
			}
		}
		runningEnabled := false
		for i, t := range en {
			if t.ID == cont {
				runningEnabled = true
				copy(en[1:i+1], en[:i])
				en[0] = t
				break
			}
		}
		if o.ForcedHandoff && runningEnabled && cont != last {
			t := en[0]
			x.Handoffs++
			step--
			t.pred = nil
			t.resume <- struct{}{}
			select {
			case <-s.yielded:
			case <-time.After(s.watchdog):
				x.Stuck = true
			}
			if x.Stuck {
				break
			}
			last = t.ID
			continue
		}
		ids := make([]int, len(en))
		for i, t := range en {
			ids[i] = t.ID
		}
		if step < len(o.Expect) && !equalInts(o.Expect[step], ids) {
			x.Diverged = fmt.Sprintf("point %d: enabled set %v differs from the recorded %v", step, ids, o.Expect[step])
			break
		}
		c := 0
		if step < len(o.Choices) {
			c = o.Choices[step]
			if c < 0 || c >= len(en) {
				x.Diverged = fmt.Sprintf("point %d: choice %d out of range (enabled %v)", step, c, ids)
				break
			}
		}
		t := en[c]
		x.Points = append(x.Points, PointRec{Enabled: ids, Chosen: c, RunningEnabled: runningEnabled, Thread: t.ID, Kind: t.kind, Obj: t.obj})
		x.Choices = append(x.Choices, c)
		t.pred = nil
		t.steps++
		t.resume <- struct{}{}
		select {
		case <-s.yielded:
		case <-time.After(s.watchdog):
			x.Stuck = true
			buf := make([]byte, 1<<20)
			n := runtime.Stack(buf, true)
			fmt.Fprintf(os.Stderr, "vsched: thread %d (%s) did not reach a scheduling point within %v after %s@%s\n%s\n", t.ID, t.Name, s.watchdog, t.kind, t.obj, buf[:n])
		}
		if x.Stuck {
			break
		}
		last = t.ID
	}
	s.mu.Lock()
	for _, t := range s.threads {
		ti := ThreadInfo{ID: t.ID, Name: t.Name, Parent: t.Parent, Finished: t.done, Steps: t.steps}
		if t.PanicVal != nil {
			ti.Panic = fmt.Sprint(t.PanicVal)
			ti.Stack = t.PanicStack
		}
		if !t.done {
			ti.Pending = t.kind + "@" + t.obj
		}
		x.Threads = append(x.Threads, ti)
	}
	x.UnmanagedSample = s.unmSamp
	s.mu.Unlock()
	x.Collapsed = collapsed.Load()
	x.UnmanagedTouches = unmanaged.Load()
	if x.Deadlock || x.Horizon || x.Diverged != "" {
		// Unfinished threads are abandoned: resume them so that they unwind.
		// A thread unwinding through deferred unlocks of shim objects must not
		// park again, so abandon mode makes every later Point panic(abandoned).
		s.abandon = true
	}
	return x
}

// Abandon wakes every parked thread of an execution that ended early so that its
// goroutine unwinds (deferred functions run outside any schedule). It must be
// called after Run returned and after the harness has inspected the lock table.
func Abandon() {
	s := st
	if !s.abandon {
		return
	}
	s.mu.Lock()
	ths := append([]*Thread(nil), s.threads...)
	s.mu.Unlock()
	for _, t := range ths {
		if t.done {
			continue
		}
		select {
		case t.resume <- struct{}{}:
			select {
			case <-s.yielded:
			case <-time.After(2 * time.Second):
			}
		case <-time.After(100 * time.Millisecond):
		}
	}
}

func equalInts(a, b []int) bool {
	if len(a) != len(b) {
		return false
	}
	for i := range a {
		if a[i] != b[i] {
			return false
		}
	}
	return true
}

// Describe renders a schedule compactly: one "T<id>:<kind>@<obj>" per point, with '*' marking preemptions.
func (x *Execution) Describe() []string {
	out := make([]string, 0, len(x.Points))
	for _, p := range x.Points {
		m := ""
		if p.RunningEnabled && p.Chosen != 0 {
			m = "*"
		}
		out = append(out, fmt.Sprintf("%sT%d:%s@%s", m, p.Thread, p.Kind, p.Obj))
	}
	return out
}

// Blocked lists the unfinished threads and what they wait for.
func (x *Execution) Blocked() string {
	var sb []string
	for _, t := range x.Threads {
		if !t.Finished {
			sb = append(sb, fmt.Sprintf("T%d(%s) waits %s", t.ID, t.Name, t.Pending))
		}
	}
	return strings.Join(sb, "; ")
}
