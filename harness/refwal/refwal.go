// Package refwal is a from-the-spec reference decoder for SQLite WAL files.
//
// It shares no code with litestream's wal_reader.go. It implements the rule of
// SQLite's walIndexRecover(): a frame is valid iff its salts equal the header
// salts, its page number is non-zero and its cumulative checksum matches; the
// first invalid frame ends the log; only frames up to the last valid commit
// frame are part of the database, whose size is that frame's "db size" field.
package refwal

import (
	"encoding/binary"
	"errors"
)

const (
	HeaderSize      = 32
	FrameHeaderSize = 24
)

var ErrBadHeader = errors.New("refwal: invalid wal header")

// Frame describes one valid frame.
type Frame struct {
	Offset int64 // offset of frame header in file
	Pgno   uint32
	Commit uint32 // non-zero on commit frames: db size in pages
}

// Result is the outcome of decoding a WAL image.
type Result struct {
	PageSize  uint32
	BigEndian bool // checksum byte order
	Salt1     uint32
	Salt2     uint32

	Frames []Frame // all valid frames (committed or not)

	// Derived from Frames:
	CommittedFrames int              // number of frames up to and including the last commit frame
	Commit          uint32           // db size in pages after the last commit frame, 0 if none
	EndOffset       int64            // offset just past the last commit frame (HeaderSize if none)
	Pages           map[uint32]int64 // pgno -> frame offset of latest committed version, pgno <= Commit
}

// FrameSize returns the on-disk size of a frame.
func (r *Result) FrameSize() int64 { return int64(r.PageSize) + FrameHeaderSize }

func cksum(bo binary.ByteOrder, s0, s1 uint32, b []byte) (uint32, uint32) {
	for i := 0; i+8 <= len(b); i += 8 {
		s0 += bo.Uint32(b[i:]) + s1
		s1 += bo.Uint32(b[i+4:]) + s0
	}
	return s0, s1
}

// Decode parses a complete WAL image starting at the file header.
func Decode(wal []byte) (*Result, error) {
	return DecodeFrom(wal, HeaderSize, 0)
}

// DecodeFrom parses a WAL image, returning in Pages/Commit/EndOffset only what
// frames at offset >= start contribute (frames before start are still
// validated, because the checksum is cumulative). If budget > 0, decoding stops
// at the first commit frame at which the bytes consumed since start are >=
// budget (the "MaxSyncWALBytes" rule: limits apply at commit boundaries only).
func DecodeFrom(wal []byte, start int64, budget int64) (*Result, error) {
	if len(wal) < HeaderSize {
		return nil, ErrBadHeader
	}
	magic := binary.BigEndian.Uint32(wal[0:])
	if magic&^1 != 0x377f0682 {
		return nil, ErrBadHeader
	}
	if binary.BigEndian.Uint32(wal[4:]) != 3007000 {
		return nil, ErrBadHeader
	}
	ps := binary.BigEndian.Uint32(wal[8:])
	if ps < 512 || ps > 65536 || ps&(ps-1) != 0 {
		return nil, ErrBadHeader
	}
	var bo binary.ByteOrder = binary.LittleEndian
	if magic&1 == 1 {
		bo = binary.BigEndian
	}
	s0, s1 := cksum(bo, 0, 0, wal[:24])
	if s0 != binary.BigEndian.Uint32(wal[24:]) || s1 != binary.BigEndian.Uint32(wal[28:]) {
		return nil, ErrBadHeader
	}
	r := &Result{
		PageSize:  ps,
		BigEndian: magic&1 == 1,
		Salt1:     binary.BigEndian.Uint32(wal[16:]),
		Salt2:     binary.BigEndian.Uint32(wal[20:]),
		EndOffset: HeaderSize,
		Pages:     map[uint32]int64{},
	}
	fs := int64(ps) + FrameHeaderSize
	tx := map[uint32]int64{}
	for off := int64(HeaderSize); off+fs <= int64(len(wal)); off += fs {
		h := wal[off : off+FrameHeaderSize]
		pgno := binary.BigEndian.Uint32(h[0:])
		commit := binary.BigEndian.Uint32(h[4:])
		if binary.BigEndian.Uint32(h[8:]) != r.Salt1 || binary.BigEndian.Uint32(h[12:]) != r.Salt2 {
			break
		}
		if pgno == 0 {
			break
		}
		s0, s1 = cksum(bo, s0, s1, h[:8])
		s0, s1 = cksum(bo, s0, s1, wal[off+FrameHeaderSize:off+fs])
		if s0 != binary.BigEndian.Uint32(h[16:]) || s1 != binary.BigEndian.Uint32(h[20:]) {
			break
		}
		r.Frames = append(r.Frames, Frame{Offset: off, Pgno: pgno, Commit: commit})
		if off >= start {
			tx[pgno] = off
		}
		if commit != 0 {
			r.CommittedFrames = len(r.Frames)
			if off >= start {
				for p, o := range tx {
					r.Pages[p] = o
				}
				tx = map[uint32]int64{}
				r.Commit = commit
				r.EndOffset = off + fs
				if budget > 0 && off+fs-start >= budget {
					break
				}
			}
		}
	}
	for p := range r.Pages {
		if p > r.Commit {
			delete(r.Pages, p)
		}
	}
	return r, nil
}

// Apply overlays the committed pages of the WAL onto a database image and
// returns the image a full checkpoint would produce.
func Apply(db []byte, wal []byte) ([]byte, *Result, error) {
	r, err := Decode(wal)
	if err != nil {
		return nil, nil, err
	}
	if r.Commit == 0 {
		out := make([]byte, len(db))
		copy(out, db)
		return out, r, nil
	}
	ps := int64(r.PageSize)
	// A database can only be as large as the pages present in the file plus the pages the WAL carries;
	// a forged commit size beyond that is refused instead of allocating gigabytes.
	if int64(r.Commit)*ps > int64(len(db))+int64(len(r.Frames))*ps+ps {
		return nil, nil, errors.New("refwal: commit size exceeds db + wal pages")
	}
	out := make([]byte, int64(r.Commit)*ps)
	copy(out, db)
	for p, off := range r.Pages {
		copy(out[int64(p-1)*ps:int64(p)*ps], wal[off+FrameHeaderSize:off+FrameHeaderSize+ps])
	}
	return out, r, nil
}
