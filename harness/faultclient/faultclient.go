// Package faultclient wraps a litestream.ReplicaClient and numbers every call
// (engine E4). Each numbered point has the default answer "ok" and a finite
// menu of deviations; a Plan assigns deviations to point indices.
package faultclient

import (
	"context"
	"errors"
	"fmt"
	"io"
	"log/slog"
	"os"
	"sync"

	"github.com/benbjohnson/litestream"
	"github.com/superfly/ltx"
)

// ErrInjected is the transient error returned by injected faults.
var ErrInjected = errors.New("injected storage fault")

// Point is one numbered client call.
type Point struct {
	Index int    `json:"i"`
	Kind  string `json:"kind"` // list | open | write | delete
	Arg   string `json:"arg"`  // e.g. "L0" or "L1[1,3]"
	Dev   string `json:"dev,omitempty"`
	Size  int64  `json:"size,omitempty"` // for open: size of the file
}

// Menu returns the deviations applicable to a point kind.
func Menu(kind string) []string {
	switch kind {
	case "list":
		return []string{"err", "err-late"}
	case "write":
		return []string{"fail-before", "fail-partial", "fail-after"}
	case "open":
		return []string{"err", "notfound", "read-err-mid", "read-eof-mid", "read-err-mid-x4", "read-eof-mid-x4"}
	case "delete":
		return []string{"fail-before", "fail-midway", "fail-after"}
	}
	return nil
}

// Client is the fault-injecting wrapper.
type Client struct {
	Inner litestream.ReplicaClient
	Plan  map[int]string
	// After, if set, is called after every call has completed (with the wrapper's lock released).
	After func(p Point, err error)

	mu     sync.Mutex
	n      int
	Points []Point
}

func New(inner litestream.ReplicaClient, plan map[int]string) *Client {
	return &Client{Inner: inner, Plan: plan}
}

func (c *Client) point(kind, arg string, size int64) (Point, string) {
	c.mu.Lock()
	defer c.mu.Unlock()
	c.n++
	p := Point{Index: c.n, Kind: kind, Arg: arg, Size: size}
	p.Dev = c.Plan[c.n]
	if p.Dev == "transient" {
		// kind not known in advance (free-running daemon mode): the plain transient failure of whatever call this is
		if kind == "list" || kind == "open" {
			p.Dev = "err"
		} else {
			p.Dev = "fail-before"
		}
	}
	c.Points = append(c.Points, p)
	return p, p.Dev
}

// SetPlan replaces the deviation plan (safe while other goroutines keep calling).
func (c *Client) SetPlan(p map[int]string) {
	c.mu.Lock()
	defer c.mu.Unlock()
	c.Plan = p
}

// Snapshot returns a copy of the calls seen so far (safe while other goroutines keep calling).
func (c *Client) Snapshot() []Point {
	c.mu.Lock()
	defer c.mu.Unlock()
	return append([]Point(nil), c.Points...)
}

func (c *Client) done(p Point, err error) {
	if c.After != nil {
		c.After(p, err)
	}
}

func (c *Client) Type() string                   { return c.Inner.Type() }
func (c *Client) Init(ctx context.Context) error { return c.Inner.Init(ctx) }
func (c *Client) SetLogger(l *slog.Logger)       { c.Inner.SetLogger(l) }
func (c *Client) DeleteAll(ctx context.Context) error {
	return c.Inner.DeleteAll(ctx)
}

// lateIterator yields the first half of the items and then fails.
type lateIterator struct {
	ltx.FileIterator
	left int
	err  error
}

func (it *lateIterator) Next() bool {
	if it.left <= 0 {
		it.err = ErrInjected
		return false
	}
	it.left--
	return it.FileIterator.Next()
}
func (it *lateIterator) Err() error {
	if it.err != nil {
		return it.err
	}
	return it.FileIterator.Err()
}
func (it *lateIterator) Close() error {
	e := it.FileIterator.Close()
	if it.err != nil {
		return it.err
	}
	return e
}

func (c *Client) LTXFiles(ctx context.Context, level int, seek ltx.TXID, useMetadata bool) (ltx.FileIterator, error) {
	p, dev := c.point("list", fmt.Sprintf("L%d", level), 0)
	if dev == "err" {
		c.done(p, ErrInjected)
		return nil, ErrInjected
	}
	itr, err := c.Inner.LTXFiles(ctx, level, seek, useMetadata)
	if err == nil && dev == "err-late" {
		// count items
		var infos []*ltx.FileInfo
		for itr.Next() {
			infos = append(infos, itr.Item())
		}
		itr.Close()
		itr = &lateIterator{FileIterator: ltx.NewFileInfoSliceIterator(infos), left: len(infos) / 2}
	}
	c.done(p, err)
	return itr, err
}

// faultStream fails when the absolute position reaches failAt.
type faultStream struct {
	io.ReadCloser
	pos    int64
	failAt int64
	eof    bool
	c      *Client
	key    string
}

func (s *faultStream) Read(b []byte) (int, error) {
	if s.pos >= s.failAt {
		if s.eof {
			return 0, io.EOF
		}
		return 0, ErrInjected
	}
	if max := s.failAt - s.pos; int64(len(b)) > max {
		b = b[:max]
	}
	n, err := s.ReadCloser.Read(b)
	s.pos += int64(n)
	return n, err
}

// streamFaults tracks, per file, how many more times a read fault fires (repetition count).
var streamFaultsMu sync.Mutex

func (c *Client) OpenLTXFile(ctx context.Context, level int, minTXID, maxTXID ltx.TXID, offset, size int64) (io.ReadCloser, error) {
	arg := fmt.Sprintf("L%d[%d,%d]@%d", level, minTXID, maxTXID, offset)
	var fsize int64
	if itr, err := c.Inner.LTXFiles(ctx, level, 0, false); err == nil {
		for itr.Next() {
			if i := itr.Item(); i.MinTXID == minTXID && i.MaxTXID == maxTXID {
				fsize = i.Size
			}
		}
		itr.Close()
	}
	p, dev := c.point("open", arg, fsize)
	switch dev {
	case "err":
		c.done(p, ErrInjected)
		return nil, ErrInjected
	case "notfound":
		err := fmt.Errorf("injected: %w", os.ErrNotExist)
		c.done(p, err)
		return nil, err
	}
	rc, err := c.Inner.OpenLTXFile(ctx, level, minTXID, maxTXID, offset, size)
	if err != nil {
		c.done(p, err)
		return nil, err
	}
	switch dev {
	case "read-err-mid", "read-eof-mid", "read-err-mid-x4", "read-eof-mid-x4":
		mid := fsize / 2
		if mid < offset {
			mid = offset
		}
		rc = &faultStream{ReadCloser: rc, pos: offset, failAt: mid, eof: dev == "read-eof-mid" || dev == "read-eof-mid-x4"}
		if dev == "read-err-mid-x4" || dev == "read-eof-mid-x4" {
			// the next three re-opens of the same file fail at the same place: beyond the retry budget
			c.mu.Lock()
			base := dev[:len(dev)-3]
			for k := 1; k <= 3; k++ {
				if _, taken := c.Plan[c.n+k]; !taken {
					if c.Plan == nil {
						c.Plan = map[int]string{}
					}
					c.Plan[c.n+k] = base
				}
			}
			c.mu.Unlock()
		}
	}
	c.done(p, nil)
	return rc, nil
}

func (c *Client) WriteLTXFile(ctx context.Context, level int, minTXID, maxTXID ltx.TXID, r io.Reader) (*ltx.FileInfo, error) {
	p, dev := c.point("write", fmt.Sprintf("L%d[%d,%d]", level, minTXID, maxTXID), 0)
	switch dev {
	case "fail-before":
		c.done(p, ErrInjected)
		return nil, ErrInjected
	case "fail-partial":
		io.CopyN(io.Discard, r, 200)
		c.done(p, ErrInjected)
		return nil, ErrInjected
	}
	info, err := c.Inner.WriteLTXFile(ctx, level, minTXID, maxTXID, r)
	if err == nil && dev == "fail-after" {
		c.done(p, ErrInjected)
		return nil, ErrInjected
	}
	c.done(p, err)
	return info, err
}

func (c *Client) DeleteLTXFiles(ctx context.Context, a []*ltx.FileInfo) error {
	arg := ""
	for _, i := range a {
		arg += fmt.Sprintf("L%d[%d,%d] ", i.Level, i.MinTXID, i.MaxTXID)
	}
	p, dev := c.point("delete", arg, 0)
	switch dev {
	case "fail-before":
		c.done(p, ErrInjected)
		return ErrInjected
	case "fail-midway":
		c.Inner.DeleteLTXFiles(ctx, a[:len(a)/2])
		c.done(p, ErrInjected)
		return ErrInjected
	}
	err := c.Inner.DeleteLTXFiles(ctx, a)
	if err == nil && dev == "fail-after" {
		err = ErrInjected
	}
	c.done(p, err)
	return err
}
