// Package fakes3 is an in-memory object store with the conditional-request
// semantics of S3 (If-Match / If-None-Match:* on PutObject, If-Match on
// DeleteObject), used to model-check code that builds compare-and-swap protocols on
// top of them (s3.Leaser). Every request first calls a scheduling hook; the
// request itself is one atomic step.
//
// The store is NOT goroutine safe by design: callers run under a cooperative
// scheduler in which exactly one client executes at a time.
package fakes3

import (
	"bytes"
	"context"
	"fmt"
	"io"
	"net/http"
	"strconv"

	awshttp "github.com/aws/aws-sdk-go-v2/aws/transport/http"
	"github.com/aws/aws-sdk-go-v2/service/s3"
	"github.com/aws/aws-sdk-go-v2/service/s3/types"
	"github.com/aws/smithy-go"
	smithyhttp "github.com/aws/smithy-go/transport/http"
)

// Object is one stored object version.
type Object struct {
	Body []byte
	ETag string // quoted, like real S3
}

// Store is a single bucket.
type Store struct {
	Bucket string
	objs   map[string]*Object
	ctr    int // ETag counter: every successful put gets a fresh value
}

func NewStore(bucket string) *Store {
	return &Store{Bucket: bucket, objs: map[string]*Object{}}
}

// Peek returns the current object under key (nil if absent) without a request.
func (s *Store) Peek(key string) *Object { return s.objs[key] }

// Keys returns the number of stored keys.
func (s *Store) Keys() int { return len(s.objs) }

// Request describes one storage request and, once performed, its response.
type Request struct {
	Op          string // "GET", "PUT", "DELETE"
	Bucket, Key string
	IfMatch     string // "" = header absent
	IfNoneMatch string // "" = header absent
	Body        []byte // PUT payload

	// Response (filled in when the request is performed).
	Status   int    // 200, 204, 404, 412
	ETag     string // GET: etag of returned object; PUT: etag of the new object
	RespBody []byte // GET payload
	Err      error
	Before   *Object // store content under Key before the request
	After    *Object // ... and after it
}

// Changed reports whether the request modified the store.
func (r *Request) Changed() bool { return r.Before != r.After }

func (r *Request) String() string {
	s := r.Op
	if r.IfMatch != "" {
		s += " If-Match:" + r.IfMatch
	}
	if r.IfNoneMatch != "" {
		s += " If-None-Match:" + r.IfNoneMatch
	}
	return s
}

// Client is one client's connection to the store; it implements s3.S3API of
// litestream's s3 package. Before is called before the request is performed
// (the scheduling point), After once the response is known.
type Client struct {
	S      *Store
	Before func(r *Request)
	After  func(r *Request)
}

func str(p *string) string {
	if p == nil {
		return ""
	}
	return *p
}

func (c *Client) do(r *Request, opName string) {
	if c.Before != nil {
		c.Before(r) // scheduling point: may block until the explorer resumes this client
	}
	c.S.perform(r, opName)
	if c.After != nil {
		c.After(r)
	}
}

// perform executes r atomically.
func (s *Store) perform(r *Request, opName string) {
	if r.Bucket != s.Bucket {
		r.Status = 404
		r.Err = apiError(opName, 404, &smithy.GenericAPIError{Code: "NoSuchBucket", Message: "The specified bucket does not exist"})
		return
	}
	cur := s.objs[r.Key]
	r.Before, r.After = cur, cur
	switch r.Op {
	case "GET":
		if cur == nil {
			r.Status = 404
			r.Err = apiError(opName, 404, &types.NoSuchKey{Message: strp("The specified key does not exist.")})
			return
		}
		r.Status, r.ETag, r.RespBody = 200, cur.ETag, cur.Body
	case "PUT":
		if r.IfNoneMatch != "" {
			if r.IfNoneMatch != "*" {
				r.Status = 501
				r.Err = apiError(opName, 501, &smithy.GenericAPIError{Code: "NotImplemented", Message: "If-None-Match supports only *"})
				return
			}
			if cur != nil {
				r.Status, r.Err = 412, preconditionFailed(opName, "If-None-Match")
				return
			}
		}
		if r.IfMatch != "" {
			// Real S3 answers 404 NoSuchKey for If-Match on a missing key in some
			// configurations and 412 in others; the task fixes 412 here.
			if cur == nil || cur.ETag != r.IfMatch {
				r.Status, r.Err = 412, preconditionFailed(opName, "If-Match")
				return
			}
		}
		s.ctr++
		obj := &Object{Body: append([]byte(nil), r.Body...), ETag: strconv.Quote(strconv.Itoa(s.ctr))}
		s.objs[r.Key] = obj
		r.Status, r.ETag, r.After = 200, obj.ETag, obj
	case "DELETE":
		if r.IfMatch != "" {
			if cur == nil || cur.ETag != r.IfMatch {
				r.Status, r.Err = 412, preconditionFailed(opName, "If-Match")
				return
			}
		}
		delete(s.objs, r.Key)
		r.Status, r.After = 204, nil
	default:
		panic("fakes3: bad op " + r.Op)
	}
}

func strp(s string) *string { return &s }

// apiError builds the error chain the AWS SDK v2 produces for a service error:
// *smithy.OperationError -> *awshttp.ResponseError (HTTPStatusCode()) -> API error.
func apiError(opName string, status int, inner error) error {
	return &smithy.OperationError{
		ServiceID:     "S3",
		OperationName: opName,
		Err: &awshttp.ResponseError{
			ResponseError: &smithyhttp.ResponseError{
				Response: &smithyhttp.Response{Response: &http.Response{StatusCode: status, Status: fmt.Sprintf("%d", status)}},
				Err:      inner,
			},
			RequestID: "fakes3",
		},
	}
}

func preconditionFailed(opName, cond string) error {
	return apiError(opName, 412, &smithy.GenericAPIError{
		Code:    "PreconditionFailed",
		Message: "At least one of the pre-conditions you specified did not hold (" + cond + ")",
	})
}

func (c *Client) GetObject(ctx context.Context, in *s3.GetObjectInput, _ ...func(*s3.Options)) (*s3.GetObjectOutput, error) {
	r := &Request{Op: "GET", Bucket: str(in.Bucket), Key: str(in.Key)}
	c.do(r, "GetObject")
	if r.Err != nil {
		return nil, r.Err
	}
	n := int64(len(r.RespBody))
	return &s3.GetObjectOutput{
		Body:          io.NopCloser(bytes.NewReader(r.RespBody)),
		ETag:          strp(r.ETag),
		ContentLength: &n,
	}, nil
}

func (c *Client) PutObject(ctx context.Context, in *s3.PutObjectInput, _ ...func(*s3.Options)) (*s3.PutObjectOutput, error) {
	var body []byte
	if in.Body != nil {
		b, err := io.ReadAll(in.Body)
		if err != nil {
			return nil, err
		}
		body = b
	}
	r := &Request{Op: "PUT", Bucket: str(in.Bucket), Key: str(in.Key), IfMatch: str(in.IfMatch), IfNoneMatch: str(in.IfNoneMatch), Body: body}
	c.do(r, "PutObject")
	if r.Err != nil {
		return nil, r.Err
	}
	return &s3.PutObjectOutput{ETag: strp(r.ETag)}, nil
}

func (c *Client) DeleteObject(ctx context.Context, in *s3.DeleteObjectInput, _ ...func(*s3.Options)) (*s3.DeleteObjectOutput, error) {
	r := &Request{Op: "DELETE", Bucket: str(in.Bucket), Key: str(in.Key), IfMatch: str(in.IfMatch)}
	c.do(r, "DeleteObject")
	if r.Err != nil {
		return nil, r.Err
	}
	return &s3.DeleteObjectOutput{}, nil
}
