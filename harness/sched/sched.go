// Package sched is a minimal cooperative scheduler: every Thread is its own
// goroutine (a runtime coroutine obtained from iter.Pull), exactly one of them
// runs at a time, and a thread gives up control only by calling the yield
// function it was given (a scheduling point) or by returning. The caller of
// Step decides which thread proceeds next, so it controls the interleaving
// completely.
package sched

import "iter"

type killed struct{}

// IsKilled reports whether a recovered panic value is the unwinding of an
// abandoned thread; code that recovers panics inside a thread body must re-panic it.
func IsKilled(r any) bool { _, ok := r.(killed); return ok }

// Thread is one cooperative thread.
type Thread struct {
	next func() (any, bool)
	stop func()
	// Done is true once the body has returned.
	Done bool
	// Point is the value passed to yield at the scheduling point the thread is
	// parked at (nil when Done).
	Point any
	// Steps counts how many times the thread has been resumed.
	Steps int
}

// Spawn creates a thread and runs body up to its first scheduling point (the
// part of body before its first yield must not touch shared state).
func Spawn(body func(yield func(point any))) *Thread {
	t := &Thread{}
	seq := iter.Seq[any](func(y func(any) bool) {
		defer func() {
			if r := recover(); r != nil {
				if _, ok := r.(killed); ok {
					return
				}
				panic(r)
			}
		}()
		body(func(p any) {
			if !y(p) {
				panic(killed{}) // thread abandoned by Kill: unwind
			}
		})
	})
	t.next, t.stop = iter.Pull(seq)
	t.advance()
	return t
}

func (t *Thread) advance() {
	p, ok := t.next()
	if !ok {
		t.Done, t.Point = true, nil
		return
	}
	t.Point = p
}

// Step resumes the thread: it passes its current scheduling point, and runs
// until the next one or until it finishes.
func (t *Thread) Step() {
	if t.Done {
		panic("sched: Step on finished thread")
	}
	t.Steps++
	t.advance()
}

// Kill abandons a parked thread (its goroutine unwinds and exits).
func (t *Thread) Kill() {
	if !t.Done {
		t.stop()
		t.Done, t.Point = true, nil
	}
}
