package scn

import (
	"encoding/binary"
	"fmt"
	"os"

	"github.com/superfly/ltx"

	"lsverif/refwal"
)

// WALShape summarises the physical WAL of the source.
type WALShape struct {
	PhysFrames      int  // whole frames physically present in the file
	ValidFrames     int  // frames valid under the header salts + checksum chain
	CommittedFrames int  // frames up to and including the last commit frame
	StaleSalts      int  // distinct foreign salts among the frames behind the valid ones
	Uncommitted     bool // valid frames after the last commit frame
	Salt1, Salt2    uint32
	HasHeader       bool
}

// WALShapeOf decodes the shape of a WAL image.
func WALShapeOf(wal []byte, pageSize int) WALShape {
	var w WALShape
	if len(wal) < refwal.HeaderSize {
		return w
	}
	fs := pageSize + refwal.FrameHeaderSize
	w.PhysFrames = (len(wal) - refwal.HeaderSize) / fs
	res, err := refwal.Decode(wal)
	if err != nil {
		return w
	}
	w.HasHeader = true
	w.Salt1, w.Salt2 = res.Salt1, res.Salt2
	w.ValidFrames = len(res.Frames)
	w.CommittedFrames = res.CommittedFrames
	w.Uncommitted = w.ValidFrames > w.CommittedFrames
	salts := map[[2]uint32]bool{}
	for i := w.ValidFrames; i < w.PhysFrames; i++ {
		off := refwal.HeaderSize + i*fs
		s := [2]uint32{binary.BigEndian.Uint32(wal[off+8:]), binary.BigEndian.Uint32(wal[off+12:])}
		if s != [2]uint32{res.Salt1, res.Salt2} {
			salts[s] = true
		}
	}
	w.StaleSalts = len(salts)
	return w
}

// L0Header decodes the header of the newest local L0 file.
func (s *Scn) L0Header() (ltx.Header, bool) {
	fs := ListLevel(s.DB.MetaPath(), 0)
	if len(fs) == 0 {
		return ltx.Header{}, false
	}
	f := fs[len(fs)-1]
	fh, err := os.Open(s.DB.LTXPath(0, f.Min, f.Max))
	if err != nil {
		return ltx.Header{}, false
	}
	defer fh.Close()
	dec := ltx.NewDecoder(fh)
	if err := dec.DecodeHeader(); err != nil {
		return ltx.Header{}, false
	}
	return dec.Header(), true
}

// Key returns the canonical state key used by the merged search layer: every
// quantity litestream's control flow reads, but not page contents.
func (s *Scn) Key() string {
	ps := s.Cfg.PageSize
	fs := int64(ps + 24)
	wal := s.ReadWAL()
	w := WALShapeOf(wal, ps)
	hdr, ok := s.L0Header()
	cursor := "none"
	if ok {
		same := w.HasHeader && hdr.WALSalt1 == w.Salt1 && hdr.WALSalt2 == w.Salt2
		cursor = fmt.Sprintf("%d+%d/%v/c%d", (hdr.WALOffset-32)/fs, hdr.WALSize/fs, same, hdr.Commit)
	}
	ss := s.DB.VerifSyncState()
	sq, fo, rtx, opened := s.DB.VerifHandles()
	var dbPages, freelist int
	if db, err := s.ReadDBFile(); err == nil {
		dbPages = len(db) / ps
	}
	if im, _, err := s.SourceImage(); err == nil && len(im.Data) >= 100 {
		freelist = int(binary.BigEndian.Uint32(im.Data[36:]))
		dbPages = dbPages*1000 + im.Pages()
	}
	lf := ""
	if s.lfArmed != nil && s.lfArmed() {
		lf = " lf=" + s.lfMode
	}
	if s.rfArmed != "" {
		lf += " rf=" + s.rfArmed
	}
	return lf + fmt.Sprintf("ls=%v/%v%v%v%v app=%v tx=%v rd=%v cur=%s ss=%v,%v,%v,%d wal=%d/%d/%d/%d/%v db=%d fl=%v loc=%s rem=%s",
		s.LSOpen, sq, fo, rtx, opened, s.AppUp, s.InTx, s.InRd, cursor,
		ss.TruncatePassiveFailed, ss.SyncedSinceCheckpoint, ss.SyncedToWALEnd, (ss.LastSyncedWALOffset-32)/fs,
		w.PhysFrames, w.ValidFrames, w.CommittedFrames, w.StaleSalts, w.Uncommitted,
		dbPages, freelist > 0, Shape(s.DB.MetaPath()), Shape(s.ReplicaDir))
}
