// Package scn is the scenario driver: it runs operation histories against the
// real litestream packages (compiled from /repo's working tree) on a scratch
// directory and offers the oracles shared by the history-exploring checks.
package scn

import (
	"bytes"
	"context"
	"crypto/sha256"
	"database/sql"
	"encoding/hex"
	"encoding/json"
	"errors"
	"fmt"
	"io"
	"log/slog"
	"net"
	"net/http"
	"os"
	"path/filepath"
	"sort"
	"strconv"
	"strings"
	"sync/atomic"
	"time"

	"github.com/benbjohnson/litestream"
	"github.com/benbjohnson/litestream/file"
	"github.com/superfly/ltx"
	_ "modernc.org/sqlite"

	"lsverif/refwal"
)

func init() {
	// litestream logs through slog.Default(); keep exploration output clean.
	slog.SetDefault(slog.New(slog.NewTextHandler(io.Discard, &slog.HandlerOptions{Level: slog.LevelError + 4})))
}

// ScratchRoot is where scenario directories are created.
var ScratchRoot = func() string {
	if d := os.Getenv("LSMC_SCRATCH"); d != "" {
		return d
	}
	return "/dev/shm"
}()

var dirSeq atomic.Int64

// Config holds the configuration dimensions of a scenario.
type Config struct {
	PageSize           int    `json:"page_size"`
	AutoVacuum         string `json:"auto_vacuum"` // NONE | FULL | INCREMENTAL
	MinCheckpointPageN int    `json:"min_checkpoint_page_n"`
	TruncatePageN      int    `json:"truncate_page_n"`
	CheckpointInterval int64  `json:"checkpoint_interval_ns"`
	MaxSyncWALFrames   int    `json:"max_sync_wal_frames"` // 0 = unlimited
	MaxSyncLTXFiles    int    `json:"max_sync_ltx_files"`  // 0 = unlimited (applies to RSL op)
	Levels             []int  `json:"levels"`              // compaction levels above 0, e.g. [1,2]
	LevelIntervalNS    int64  `json:"level_interval_ns"`   // interval for every level (1ns = guard open)
	L0RetentionNS      int64  `json:"l0_retention_ns"`
	RetentionEnabled   bool   `json:"retention_enabled"`
	UseStore           bool   `json:"use_store"`
	VerifyCompaction   bool   `json:"verify_compaction"`
	// Prefill rows (payload PageSize/8 bytes each) are inserted when the database is created, so that the table
	// spans several leaf pages from the start: an update of the first row, an insert at the end and litestream's
	// bookkeeping then touch DIFFERENT pages, and a lost page version cannot be masked by a later write that
	// happens to rewrite the same page. 0 in replay files recorded before the field existed.
	Prefill int `json:"prefill"`
	// BusyTimeoutMS is litestream's SQLite busy timeout (0 = fail immediately, the harness default; the
	// product default is 1000). Only the LCW operation needs it to be non-zero.
	BusyTimeoutMS int `json:"busy_timeout_ms,omitempty"`
	// MetaInDBDir: litestream's meta path is the directory that holds the database itself (`meta-path: /data` for
	// `path: /data/app.db`): legal, unvalidated; the LTX files then live in <dir>/ltx next to the database.
	MetaInDBDir bool `json:"meta_in_db_dir,omitempty"`
	// Daemon: litestream objects created from now on run their own monitors (DB monitor and replica monitor at a
	// 1 ms interval), as `litestream replicate` does; used by C05's daemon-mode phase only.
	Daemon bool `json:"daemon,omitempty"`
	// ReplicaFaults makes the RF operation legal: a one-shot failure of the next upload (WriteLTXFile).
	ReplicaFaults bool `json:"replica_faults,omitempty"`
}

// DefaultConfig returns the baseline configuration used by most checks.
func DefaultConfig() Config {
	return Config{
		PageSize:           512,
		AutoVacuum:         "NONE",
		MinCheckpointPageN: 1000,
		TruncatePageN:      0,
		CheckpointInterval: 0,
		Levels:             []int{1, 2},
		LevelIntervalNS:    1,
		L0RetentionNS:      1,
		RetentionEnabled:   true,
		UseStore:           true,
		Prefill:            24,
	}
}

func (c Config) String() string {
	return fmt.Sprintf("ps=%d av=%s min=%d trunc=%d ckint=%d chunk=%d lvls=%v ret=%v",
		c.PageSize, c.AutoVacuum, c.MinCheckpointPageN, c.TruncatePageN, c.CheckpointInterval, c.MaxSyncWALFrames, c.Levels, c.RetentionEnabled)
}

// Scn is one running scenario.
type Scn struct {
	Dir        string
	DBPath     string
	ReplicaDir string
	Cfg        Config

	app   *sql.DB
	w     *sql.Conn // writer connection
	r     *sql.Conn // long reader connection
	InTx  bool
	InRd  bool
	AppUp bool

	DB     *litestream.DB
	Store  *litestream.Store
	Client *file.ReplicaClient
	LSOpen bool // litestream object exists and Open() succeeded and not closed

	fd *os.File // long-lived descriptor on the source db (see DESIGN §1.2)

	rowSeq  int
	ddlN    int
	SeqRoot uint32 // root page of _litestream_seq (0 = unknown / absent)

	History []string
	Trace   []string // op -> outcome, for replay comparison

	// Ledger of committed source states (masked digests), in order.
	Ledger []string
	// LedgerPre[i]: a wall-clock instant known to be NOT LATER than the commit that produced Ledger[i] (the start of
	// the operation, or the instant right before the COMMIT for operations that commit from inside): whatever is
	// replicated of state i is replicated after it.
	LedgerPre  []time.Time
	opStart    time.Time
	commitPre  time.Time
	ledgerSet  map[string]int
	LedgerImgs map[string][]byte // optional: digest -> image (only if KeepImages)
	KeepImages bool

	WrapClient func(inner litestream.ReplicaClient) litestream.ReplicaClient
	ExtOp      func(s *Scn, name, arg string) (Outcome, bool) // check-defined operations
	User       any                                            // per-scenario state of the running check
	LedgerRoot []uint32                                       // seq root page in effect when the ledger entry was recorded
	lastTick   int64
	NoLedger   bool   // worker side: no source bookkeeping
	Remote     Remote // if set, litestream ops are forwarded to a worker process
	RemoteDead bool   // the worker died (killed) during an op
	DistinctMS bool
	TickGapMS  int64              // minimum distance in ms between file-creating operations when DistinctMS is set
	srv        *litestream.Server // control server of the Store (started lazily by the SD operation)
	srvStore   *litestream.Store  // the Store srv was created for
	srvHTTP    *http.Client
	rfArmed    string      // replica upload fault (RF:mode) pending: "" | before | mid
	lfArmed    func() bool // local staging fault (LF:mode) still pending?
	lfMode     string
	savedDB    []byte
	savedWAL   []byte

	closed bool
}

// New creates a fresh scenario: a new WAL-mode database with one table and one
// row, an application connection, and a litestream DB (not yet synced).
func New(cfg Config) (*Scn, error) { return NewOpt(cfg, nil) }

// NewOpt is New with a hook that runs before the litestream objects are built.
func NewOpt(cfg Config, pre func(s *Scn)) (*Scn, error) {
	// Bucketed parents: creating/removing many entries in one shared parent
	// directory serialises on that directory's lock.
	n := dirSeq.Add(1)
	dir := filepath.Join(ScratchRoot, fmt.Sprintf("lsmc-%d", os.Getpid()), fmt.Sprintf("b%d", n%61), strconv.FormatInt(n, 10))
	if err := os.MkdirAll(dir, 0o755); err != nil {
		return nil, err
	}
	s := &Scn{
		Dir:        dir,
		DBPath:     filepath.Join(dir, "db"),
		ReplicaDir: filepath.Join(dir, "replica"),
		Cfg:        cfg,
		ledgerSet:  map[string]int{},
		LedgerImgs: map[string][]byte{},
	}
	if err := s.appOpen(true); err != nil {
		s.Destroy()
		return nil, err
	}
	fd, err := os.Open(s.DBPath)
	if err != nil {
		s.Destroy()
		return nil, err
	}
	s.fd = fd
	s.recordLedger()
	if pre != nil {
		pre(s)
	}
	if err := s.lsNew(); err != nil {
		s.Destroy()
		return nil, err
	}
	return s, nil
}

// Remote executes litestream-side operations in another process (engine E3).
type Remote interface {
	// Do sends one op; returns the outcome string ("ok", "ack", "err:...", "illegal") or an error if the worker died.
	Do(op string) (string, error)
}

// NewAppOnly creates a fresh database and application connections but no
// litestream objects: litestream runs in a worker process (see Attach).
func NewAppOnly(cfg Config) (*Scn, error) {
	n := dirSeq.Add(1)
	dir := filepath.Join(ScratchRoot, fmt.Sprintf("lsmc-%d", os.Getpid()), fmt.Sprintf("b%d", n%61), strconv.FormatInt(n, 10))
	if err := os.MkdirAll(dir, 0o755); err != nil {
		return nil, err
	}
	s := &Scn{
		Dir:        dir,
		DBPath:     filepath.Join(dir, "db"),
		ReplicaDir: filepath.Join(dir, "replica"),
		Cfg:        cfg,
		ledgerSet:  map[string]int{},
		LedgerImgs: map[string][]byte{},
	}
	if err := s.appOpen(true); err != nil {
		s.Destroy()
		return nil, err
	}
	fd, err := os.Open(s.DBPath)
	if err != nil {
		s.Destroy()
		return nil, err
	}
	s.fd = fd
	s.recordLedger()
	return s, nil
}

// Attach builds litestream objects over an existing scenario directory without
// application connections (used by the worker process of engine E3).
func Attach(dir string, cfg Config) (*Scn, error) {
	s := &Scn{
		Dir:        dir,
		DBPath:     filepath.Join(dir, "db"),
		ReplicaDir: filepath.Join(dir, "replica"),
		Cfg:        cfg,
		ledgerSet:  map[string]int{},
		LedgerImgs: map[string][]byte{},
		NoLedger:   true,
	}
	if err := s.lsNew(); err != nil {
		return nil, err
	}
	return s, nil
}

// Destroy releases everything and removes the scenario directory.
func (s *Scn) Destroy() {
	if s.closed {
		return
	}
	s.closed = true
	if s.srv != nil {
		s.srv.Close()
		s.srv = nil
	}
	s.appClose()
	if s.DB != nil {
		s.DB.VerifAbandon()
	}
	if s.fd != nil {
		s.fd.Close()
	}
	os.RemoveAll(s.Dir)
}

func (s *Scn) dsn() string {
	return "file:" + s.DBPath + "?_pragma=busy_timeout(0)&_pragma=wal_autocheckpoint(0)"
}

func (s *Scn) appOpen(create bool) error {
	ctx := context.Background()
	app, err := sql.Open("sqlite", s.dsn())
	if err != nil {
		return err
	}
	s.app = app
	w, err := app.Conn(ctx)
	if err != nil {
		return err
	}
	s.w = w
	if create {
		if _, err := w.ExecContext(ctx, fmt.Sprintf("PRAGMA page_size = %d", s.Cfg.PageSize)); err != nil {
			return err
		}
		av := map[string]int{"NONE": 0, "FULL": 1, "INCREMENTAL": 2}[s.Cfg.AutoVacuum]
		if _, err := w.ExecContext(ctx, fmt.Sprintf("PRAGMA auto_vacuum = %d", av)); err != nil {
			return err
		}
		var mode string
		if err := w.QueryRowContext(ctx, "PRAGMA journal_mode = wal").Scan(&mode); err != nil {
			return err
		}
		if mode != "wal" {
			return fmt.Errorf("journal mode %q", mode)
		}
		if _, err := w.ExecContext(ctx, "CREATE TABLE t (id INTEGER PRIMARY KEY, v TEXT)"); err != nil {
			return err
		}
		if _, err := w.ExecContext(ctx, "INSERT INTO t (v) VALUES ('seed')"); err != nil {
			return err
		}
		if s.Cfg.Prefill > 0 {
			if _, err := w.ExecContext(ctx, "BEGIN"); err != nil {
				return err
			}
			for i := 0; i < s.Cfg.Prefill; i++ {
				if _, err := w.ExecContext(ctx, "INSERT INTO t (v) VALUES (?)", pay(900000+i, s.Cfg.PageSize/8)); err != nil {
					return err
				}
			}
			if _, err := w.ExecContext(ctx, "COMMIT"); err != nil {
				return err
			}
		}
		var ps int
		if err := w.QueryRowContext(ctx, "PRAGMA page_size").Scan(&ps); err != nil {
			return err
		}
		if ps != s.Cfg.PageSize {
			return fmt.Errorf("harness: page size is %d, wanted %d", ps, s.Cfg.PageSize)
		}
	}
	r, err := app.Conn(ctx)
	if err != nil {
		return err
	}
	s.r = r
	s.AppUp = true
	return nil
}

func (s *Scn) appClose() {
	if s.app == nil {
		return
	}
	ctx := context.Background()
	if s.InTx {
		s.w.ExecContext(ctx, "ROLLBACK")
		s.InTx = false
	}
	if s.InRd {
		s.r.ExecContext(ctx, "ROLLBACK")
		s.InRd = false
	}
	if s.r != nil {
		s.r.Close()
	}
	if s.w != nil {
		s.w.Close()
	}
	s.app.Close()
	s.app, s.w, s.r = nil, nil, nil
	s.AppUp = false
}

// Levels returns the compaction levels for the configuration.
func (s *Scn) Levels() litestream.CompactionLevels {
	lv := litestream.CompactionLevels{{Level: 0}}
	for _, l := range s.Cfg.Levels {
		lv = append(lv, &litestream.CompactionLevel{Level: l, Interval: time.Duration(s.Cfg.LevelIntervalNS)})
	}
	return lv
}

func (s *Scn) lsNew() error {
	db := litestream.NewDB(s.DBPath)
	db.MonitorInterval = 0
	if s.Cfg.MetaInDBDir {
		db.SetMetaPath(s.Dir)
	}
	db.BusyTimeout = time.Duration(s.Cfg.BusyTimeoutMS) * time.Millisecond
	db.MinCheckpointPageN = s.Cfg.MinCheckpointPageN
	db.TruncatePageN = s.Cfg.TruncatePageN
	db.CheckpointInterval = time.Duration(s.Cfg.CheckpointInterval)
	db.ShutdownSyncTimeout = 0
	if s.Cfg.MaxSyncWALFrames > 0 {
		db.MaxSyncWALBytes = int64(s.Cfg.MaxSyncWALFrames) * int64(s.Cfg.PageSize+24)
	} else {
		db.MaxSyncWALBytes = 0
	}
	client := file.NewReplicaClient(s.ReplicaDir)
	rep := litestream.NewReplicaWithClient(db, client)
	rep.MonitorEnabled = false
	if s.Cfg.Daemon {
		db.MonitorInterval = time.Millisecond
		rep.MonitorEnabled = true
		rep.SyncInterval = time.Millisecond
	}
	db.Replica = rep
	client.Replica = rep
	s.DB, s.Client = db, client
	if s.WrapClient != nil {
		// engine E4: litestream talks to the replica through a fault-injecting wrapper
		rep.Client = s.WrapClient(client)
	} else if s.Cfg.ReplicaFaults {
		// one-shot upload faults armed by the RF operation
		rep.Client = &rfClient{ReplicaClient: client, s: s}
	}

	if s.Cfg.UseStore {
		st := litestream.NewStore([]*litestream.DB{db}, s.Levels())
		st.CompactionMonitorEnabled = false
		st.L0RetentionCheckInterval = 0
		st.L0Retention = time.Duration(s.Cfg.L0RetentionNS)
		st.RetentionEnabled = s.Cfg.RetentionEnabled
		st.ShutdownSyncTimeout = 0
		st.VerifyCompaction = s.Cfg.VerifyCompaction
		db.L0Retention = st.L0Retention
		db.RetentionEnabled = st.RetentionEnabled
		db.ShutdownSyncTimeout = 0
		db.VerifyCompaction = s.Cfg.VerifyCompaction
		s.Store = st
		if err := st.Open(context.Background()); err != nil {
			return err
		}
	} else {
		db.L0Retention = time.Duration(s.Cfg.L0RetentionNS)
		db.RetentionEnabled = s.Cfg.RetentionEnabled
		s.Store = nil
		if err := db.Open(); err != nil {
			return err
		}
	}
	s.LSOpen = true
	return nil
}

// ---------------------------------------------------------------------------
// Source state

// Image is a database image as a byte slice plus its page size.
type Image struct {
	Data     []byte
	PageSize int
}

func (im *Image) Pages() int { return len(im.Data) / im.PageSize }

func (im *Image) Page(pgno int) []byte {
	return im.Data[(pgno-1)*im.PageSize : pgno*im.PageSize]
}

// ReadDBFile reads the source database file through the long-lived descriptor.
func (s *Scn) ReadDBFile() ([]byte, error) {
	fi, err := s.fd.Stat()
	if err != nil {
		return nil, err
	}
	buf := make([]byte, fi.Size())
	if _, err := s.fd.ReadAt(buf, 0); err != nil && err != io.EOF {
		return nil, err
	}
	return buf, nil
}

// ReadWAL reads the source -wal file (nil if absent).
func (s *Scn) ReadWAL() []byte {
	b, err := os.ReadFile(s.DBPath + "-wal")
	if err != nil {
		return nil
	}
	return b
}

// SourceImage returns the committed state of the source: the database file
// overlaid with every committed WAL frame (what a full checkpoint would yield).
func (s *Scn) SourceImage() (*Image, *refwal.Result, error) {
	db, err := s.ReadDBFile()
	if err != nil {
		return nil, nil, err
	}
	wal := s.ReadWAL()
	if len(wal) < refwal.HeaderSize {
		return &Image{Data: db, PageSize: s.Cfg.PageSize}, nil, nil
	}
	out, res, err := refwal.Apply(db, wal)
	if err != nil {
		// An invalid header means SQLite ignores the WAL.
		return &Image{Data: db, PageSize: s.Cfg.PageSize}, nil, nil
	}
	return &Image{Data: out, PageSize: s.Cfg.PageSize}, res, nil
}

// SourceImageSQLite computes the committed state with real SQLite: copy db and
// -wal aside, open the copy, wal_checkpoint(TRUNCATE), read the file.
func (s *Scn) SourceImageSQLite() (*Image, error) {
	db, err := s.ReadDBFile()
	if err != nil {
		return nil, err
	}
	wal := s.ReadWAL()
	side := filepath.Join(s.Dir, fmt.Sprintf("side-%d", dirSeq.Add(1)))
	if err := os.MkdirAll(side, 0o755); err != nil {
		return nil, err
	}
	defer os.RemoveAll(side)
	p := filepath.Join(side, "db")
	if err := os.WriteFile(p, db, 0o644); err != nil {
		return nil, err
	}
	if wal != nil {
		if err := os.WriteFile(p+"-wal", wal, 0o644); err != nil {
			return nil, err
		}
	}
	c, err := sql.Open("sqlite", "file:"+p+"?_pragma=locking_mode(EXCLUSIVE)&_pragma=wal_autocheckpoint(0)")
	if err != nil {
		return nil, err
	}
	var a, b, d int
	if err := c.QueryRow("PRAGMA wal_checkpoint(TRUNCATE)").Scan(&a, &b, &d); err != nil {
		c.Close()
		return nil, fmt.Errorf("checkpoint copy: %w", err)
	}
	c.Close()
	out, err := os.ReadFile(p)
	if err != nil {
		return nil, err
	}
	return &Image{Data: out, PageSize: s.Cfg.PageSize}, nil
}

// RefreshSeqRoot re-reads the root page of _litestream_seq through the writer
// connection, when one is available.
func (s *Scn) RefreshSeqRoot() {
	if s.w == nil {
		return
	}
	var root int
	err := s.w.QueryRowContext(context.Background(), "SELECT rootpage FROM sqlite_master WHERE name='_litestream_seq'").Scan(&root)
	if err == nil {
		s.SeqRoot = uint32(root)
	} else if errors.Is(err, sql.ErrNoRows) {
		s.SeqRoot = 0
	}
}

// Digest returns the masked digest of an image: the page holding
// _litestream_seq's only row is excluded (C01 carve-out).
func Digest(im *Image, seqRoot uint32) string {
	h := sha256.New()
	fmt.Fprintf(h, "%d:%d:", im.PageSize, len(im.Data))
	n := im.Pages()
	for p := 1; p <= n; p++ {
		if uint32(p) == seqRoot {
			continue
		}
		h.Write(im.Page(p))
	}
	return hex.EncodeToString(h.Sum(nil))[:24]
}

func (s *Scn) recordLedger() {
	if s.NoLedger || s.fd == nil {
		return
	}
	s.RefreshSeqRoot()
	im, _, err := s.SourceImage()
	if err != nil {
		return
	}
	d := Digest(im, s.SeqRoot)
	if len(s.Ledger) > 0 && s.Ledger[len(s.Ledger)-1] == d {
		return
	}
	pre := s.opStart
	if !s.commitPre.IsZero() {
		pre = s.commitPre
	}
	s.commitPre = time.Time{}
	s.LedgerPre = append(s.LedgerPre, pre)
	s.ledgerSet[d] = len(s.Ledger)
	s.Ledger = append(s.Ledger, d)
	s.LedgerRoot = append(s.LedgerRoot, s.SeqRoot)
	if s.KeepImages {
		s.LedgerImgs[d] = im.Data
	}
}

// LedgerIndex returns the last index of a digest in the ledger, or -1.
func (s *Scn) LedgerIndex(d string) int {
	if i, ok := s.ledgerSet[d]; ok {
		return i
	}
	return -1
}

// ---------------------------------------------------------------------------
// Restore

// RestoreOpt selects a restore target.
type RestoreOpt struct {
	TXID      ltx.TXID
	Timestamp time.Time
	Integrity litestream.IntegrityCheckMode
}

// Restore restores from the replica directory alone (fresh Replica, no DB).
func (s *Scn) Restore(o RestoreOpt) (*Image, error) {
	return RestoreFrom(s.ReplicaDir, s.Dir, s.Cfg.PageSize, o)
}

// RestoreFrom restores from a file replica directory into a scratch file under tmpDir.
func RestoreFrom(replicaDir, tmpDir string, pageSize int, o RestoreOpt) (*Image, error) {
	out := filepath.Join(tmpDir, fmt.Sprintf("restore-%d", dirSeq.Add(1)))
	defer func() {
		os.Remove(out)
		os.Remove(out + "-wal")
		os.Remove(out + "-shm")
		os.Remove(out + ".tmp")
	}()
	c := file.NewReplicaClient(replicaDir)
	r := litestream.NewReplicaWithClient(nil, c)
	opt := litestream.NewRestoreOptions()
	opt.OutputPath = out
	opt.TXID = o.TXID
	opt.Timestamp = o.Timestamp
	opt.IntegrityCheck = o.Integrity
	if err := r.Restore(context.Background(), opt); err != nil {
		return nil, err
	}
	b, err := os.ReadFile(out)
	if err != nil {
		return nil, err
	}
	return &Image{Data: b, PageSize: pageSize}, nil
}

// Diff describes the first difference between two images.
type Diff struct {
	Kind     string `json:"kind"` // size | page
	Pgno     int    `json:"pgno,omitempty"`
	WantSize int    `json:"want_size"`
	GotSize  int    `json:"got_size"`
	NPages   int    `json:"differing_pages,omitempty"`
}

func (d *Diff) String() string {
	if d == nil {
		return "equal"
	}
	return fmt.Sprintf("%s pgno=%d want_size=%d got_size=%d differing_pages=%d", d.Kind, d.Pgno, d.WantSize, d.GotSize, d.NPages)
}

// Compare compares two images page by page, ignoring page `skip` (0 = none).
func Compare(want, got *Image, skip uint32) *Diff {
	if len(want.Data) != len(got.Data) {
		return &Diff{Kind: "size", WantSize: len(want.Data), GotSize: len(got.Data)}
	}
	var first, n int
	for p := 1; p <= want.Pages(); p++ {
		if uint32(p) == skip {
			continue
		}
		if !bytes.Equal(want.Page(p), got.Page(p)) {
			if first == 0 {
				first = p
			}
			n++
		}
	}
	if n > 0 {
		return &Diff{Kind: "page", Pgno: first, WantSize: len(want.Data), GotSize: len(got.Data), NPages: n}
	}
	return nil
}

// IntegrityCheck runs PRAGMA integrity_check on an image (written to scratch).
func IntegrityCheck(tmpDir string, im *Image) error {
	p := filepath.Join(tmpDir, fmt.Sprintf("integ-%d", dirSeq.Add(1)))
	if err := os.WriteFile(p, im.Data, 0o644); err != nil {
		return err
	}
	defer func() { os.Remove(p); os.Remove(p + "-wal"); os.Remove(p + "-shm"); os.Remove(p + "-journal") }()
	c, err := sql.Open("sqlite", "file:"+p+"?_pragma=locking_mode(EXCLUSIVE)")
	if err != nil {
		return err
	}
	defer c.Close()
	rows, err := c.Query("PRAGMA integrity_check")
	if err != nil {
		return err
	}
	defer rows.Close()
	var msgs []string
	for rows.Next() {
		var m string
		if err := rows.Scan(&m); err != nil {
			return err
		}
		msgs = append(msgs, m)
	}
	if len(msgs) != 1 || msgs[0] != "ok" {
		return fmt.Errorf("integrity_check: %v", msgs)
	}
	return nil
}

// SeqRows returns the rows of _litestream_seq in an image ("absent" if no table).
func SeqRows(tmpDir string, im *Image) string {
	p := filepath.Join(tmpDir, fmt.Sprintf("seq-%d", dirSeq.Add(1)))
	if err := os.WriteFile(p, im.Data, 0o644); err != nil {
		return "err:" + err.Error()
	}
	defer func() { os.Remove(p); os.Remove(p + "-wal"); os.Remove(p + "-shm"); os.Remove(p + "-journal") }()
	c, err := sql.Open("sqlite", "file:"+p+"?_pragma=locking_mode(EXCLUSIVE)")
	if err != nil {
		return "err:" + err.Error()
	}
	defer c.Close()
	rows, err := c.Query("SELECT id FROM _litestream_seq ORDER BY id")
	if err != nil {
		return "absent"
	}
	defer rows.Close()
	var ids []string
	for rows.Next() {
		var id int
		rows.Scan(&id)
		ids = append(ids, strconv.Itoa(id))
	}
	return strings.Join(ids, ",")
}

// LogicalDump returns a canonical dump of user-visible schema and rows.
func LogicalDump(path string) (string, error) {
	c, err := sql.Open("sqlite", "file:"+path+"?mode=ro&_pragma=busy_timeout(0)")
	if err != nil {
		return "", err
	}
	defer c.Close()
	return LogicalDumpDB(c)
}

type queryer interface {
	QueryContext(ctx context.Context, q string, args ...any) (*sql.Rows, error)
}

// LogicalDumpDB dumps through an existing handle.
func LogicalDumpDB(c queryer) (string, error) {
	ctx := context.Background()
	var sb strings.Builder
	rows, err := c.QueryContext(ctx, "SELECT type, name, tbl_name, coalesce(sql,'') FROM sqlite_master WHERE name NOT LIKE '\\_litestream\\_%' ESCAPE '\\' ORDER BY name")
	if err != nil {
		return "", err
	}
	var tables []string
	for rows.Next() {
		var t, n, tn, q string
		if err := rows.Scan(&t, &n, &tn, &q); err != nil {
			rows.Close()
			return "", err
		}
		fmt.Fprintf(&sb, "S|%s|%s|%s|%s\n", t, n, tn, q)
		if t == "table" {
			tables = append(tables, n)
		}
	}
	rows.Close()
	sort.Strings(tables)
	for _, t := range tables {
		rs, err := c.QueryContext(ctx, "SELECT rowid, * FROM \""+t+"\" ORDER BY rowid")
		if err != nil {
			return "", err
		}
		cols, _ := rs.Columns()
		for rs.Next() {
			vals := make([]any, len(cols))
			ptrs := make([]any, len(cols))
			for i := range vals {
				ptrs[i] = &vals[i]
			}
			if err := rs.Scan(ptrs...); err != nil {
				rs.Close()
				return "", err
			}
			fmt.Fprintf(&sb, "R|%s", t)
			for _, v := range vals {
				switch x := v.(type) {
				case []byte:
					fmt.Fprintf(&sb, "|%x", sha256.Sum256(x))
				case string:
					if len(x) > 40 {
						fmt.Fprintf(&sb, "|%d:%x", len(x), sha256.Sum256([]byte(x)))
					} else {
						fmt.Fprintf(&sb, "|%s", x)
					}
				default:
					fmt.Fprintf(&sb, "|%v", x)
				}
			}
			sb.WriteByte('\n')
		}
		rs.Close()
	}
	return sb.String(), nil
}

// ---------------------------------------------------------------------------
// Replica inspection

// FileRef identifies one replica file.
type FileRef struct {
	Level int
	Min   ltx.TXID
	Max   ltx.TXID
	Size  int64
	MTime time.Time
}

func (f FileRef) String() string { return fmt.Sprintf("L%d[%d,%d]", f.Level, f.Min, f.Max) }

// ListLevel lists the files of a level in a replica dir (or local meta ltx dir) sorted by (Min,Max).
func ListLevel(root string, level int) []FileRef {
	dir := litestream.LTXLevelDir(root, level)
	ents, err := os.ReadDir(dir)
	if err != nil {
		return nil
	}
	var out []FileRef
	for _, e := range ents {
		mn, mx, err := ltx.ParseFilename(e.Name())
		if err != nil {
			continue
		}
		fi, err := e.Info()
		if err != nil {
			continue
		}
		out = append(out, FileRef{Level: level, Min: mn, Max: mx, Size: fi.Size(), MTime: fi.ModTime()})
	}
	sort.Slice(out, func(i, j int) bool {
		if out[i].Min != out[j].Min {
			return out[i].Min < out[j].Min
		}
		return out[i].Max < out[j].Max
	})
	return out
}

// AllLevels lists all levels 0..9 of a replica root.
func AllLevels(root string) map[int][]FileRef {
	m := map[int][]FileRef{}
	for l := 0; l <= litestream.SnapshotLevel; l++ {
		if fs := ListLevel(root, l); len(fs) > 0 {
			m[l] = fs
		}
	}
	return m
}

// Shape returns a compact textual shape of a replica, e.g. "0:[1-5] 1:[1-3][4-5] 9:[1-2]".
func Shape(root string) string {
	var sb strings.Builder
	for l := 0; l <= litestream.SnapshotLevel; l++ {
		fs := ListLevel(root, l)
		if len(fs) == 0 {
			continue
		}
		fmt.Fprintf(&sb, "%d:", l)
		if l == 0 {
			// compress runs
			start, prev := fs[0].Min, fs[0].Max
			for _, f := range fs[1:] {
				if f.Min == prev+1 {
					prev = f.Max
					continue
				}
				fmt.Fprintf(&sb, "[%d-%d]", start, prev)
				start, prev = f.Min, f.Max
			}
			fmt.Fprintf(&sb, "[%d-%d]", start, prev)
		} else {
			for _, f := range fs {
				fmt.Fprintf(&sb, "[%d-%d]", f.Min, f.Max)
			}
		}
		sb.WriteByte(' ')
	}
	return strings.TrimSpace(sb.String())
}

// MaxTXID returns the highest MaxTXID at a level (0 if none).
func MaxTXID(root string, level int) ltx.TXID {
	var m ltx.TXID
	for _, f := range ListLevel(root, level) {
		if f.Max > m {
			m = f.Max
		}
	}
	return m
}

// LocalLTXRoot is the local meta directory of the scenario database.
func (s *Scn) LocalLTXRoot() string { return s.DB.MetaPath() }

// rfClient fails the next WriteLTXFile once when armed by the RF operation: "before" returns an error without
// reading the body, "mid" reads half of it first (the producer is left with an unfinished stream).
type rfClient struct {
	litestream.ReplicaClient
	s *Scn
}

var errRFInjected = errors.New("injected upload failure")

func (c *rfClient) WriteLTXFile(ctx context.Context, level int, minTXID, maxTXID ltx.TXID, r io.Reader) (*ltx.FileInfo, error) {
	mode := c.s.rfArmed
	if mode == "" {
		return c.ReplicaClient.WriteLTXFile(ctx, level, minTXID, maxTXID, r)
	}
	c.s.rfArmed = ""
	if mode == "mid" {
		buf := make([]byte, 256)
		_, _ = io.ReadFull(r, buf)
	}
	return nil, errRFInjected
}

// syncViaServer issues the `sync -wait` request as the command-line client does: POST /sync on the Store's control
// socket (server.go handleSync -> Store.SyncDB). Returns nil when the request was answered 200.
func (s *Scn) syncViaServer(ctx context.Context) error {
	if s.srv == nil || s.srvStore != s.Store {
		if s.srv != nil {
			s.srv.Close()
		}
		srv := litestream.NewServer(s.Store)
		srv.SocketPath = filepath.Join(s.Dir, fmt.Sprintf("ctl-%d.sock", dirSeq.Add(1)))
		if err := srv.Start(); err != nil {
			return fmt.Errorf("harness: control server: %w", err)
		}
		sock := srv.SocketPath
		s.srv, s.srvStore = srv, s.Store
		s.srvHTTP = &http.Client{Transport: &http.Transport{DialContext: func(ctx context.Context, _, _ string) (net.Conn, error) {
			var d net.Dialer
			return d.DialContext(ctx, "unix", sock)
		}}}
	}
	body, _ := json.Marshal(map[string]any{"path": s.DBPath, "wait": true})
	req, err := http.NewRequestWithContext(ctx, "POST", "http://litestream/sync", bytes.NewReader(body))
	if err != nil {
		return err
	}
	req.Header.Set("Content-Type", "application/json")
	resp, err := s.srvHTTP.Do(req)
	if err != nil {
		return err
	}
	defer resp.Body.Close()
	b, _ := io.ReadAll(resp.Body)
	if resp.StatusCode != 200 {
		return fmt.Errorf("sync request: HTTP %d: %s", resp.StatusCode, strings.TrimSpace(string(b)))
	}
	return nil
}
