package scn

import (
	"context"
	"database/sql"
	"fmt"
	"os"
	"path/filepath"
	"strings"
)

// Problem is an oracle verdict (nil = holds).
type Problem struct {
	Kind   string `json:"kind"`
	Detail string `json:"detail"`
}

func (p *Problem) String() string { return p.Kind + ": " + p.Detail }

// HarnessError marks an inconsistency inside the harness's own models; checks
// turn it into exit code 2, never into a VIOLATION.
type HarnessError struct{ Msg string }

func (e *HarnessError) Error() string { return "harness error: " + e.Msg }

// AckOracle is the page-exact restore oracle of C01, evaluated at an
// acknowledged instant: restoring the latest state from the replica alone must
// equal the source's committed state (only the page holding _litestream_seq's
// single row excepted: the row itself is the property's carve-out) and pass integrity_check.
// crossCheck additionally validates the harness's fast source model against
// real SQLite (copy + wal_checkpoint(TRUNCATE)).
func (s *Scn) AckOracle(crossCheck bool) (*Problem, error) {
	s.RefreshSeqRoot()
	src, _, err := s.SourceImage()
	if err != nil {
		return nil, err
	}
	if crossCheck {
		sq, err := s.SourceImageSQLite()
		if err != nil {
			return nil, &HarnessError{"sqlite source image: " + err.Error()}
		}
		if d := Compare(sq, src, 0); d != nil {
			return nil, &HarnessError{"fast source model disagrees with SQLite checkpoint of a copy: " + d.String()}
		}
	}
	rst, err := s.Restore(RestoreOpt{})
	if err != nil {
		return &Problem{"restore-failed", ErrClass(err)}, nil
	}
	if d := Compare(src, rst, s.SeqRoot); d != nil {
		return &Problem{"restore-differs", d.String()}, nil
	}
	// integrity + seq rows on the restored image
	p := filepath.Join(s.Dir, fmt.Sprintf("chk-%d", dirSeq.Add(1)))
	if err := os.WriteFile(p, rst.Data, 0o644); err != nil {
		return nil, err
	}
	defer func() { os.Remove(p); os.Remove(p + "-wal"); os.Remove(p + "-shm"); os.Remove(p + "-journal") }()
	c, err := sql.Open("sqlite", "file:"+p+"?_pragma=locking_mode(EXCLUSIVE)")
	if err != nil {
		return nil, err
	}
	defer c.Close()
	msgs, err := queryStrings(c, "PRAGMA integrity_check")
	if err != nil {
		return &Problem{"integrity-check-failed", ErrClass(err)}, nil
	}
	if len(msgs) != 1 || msgs[0] != "ok" {
		return &Problem{"integrity-check-failed", strings.Join(msgs, "; ")}, nil
	}
	return nil, nil
}

func queryStrings(c *sql.DB, q string) ([]string, error) {
	rows, err := c.Query(q)
	if err != nil {
		return nil, err
	}
	defer rows.Close()
	var out []string
	for rows.Next() {
		var m string
		if err := rows.Scan(&m); err != nil {
			return nil, err
		}
		out = append(out, m)
	}
	return out, rows.Err()
}

func queryStringsConn(c *sql.Conn, q string) ([]string, error) {
	rows, err := c.QueryContext(context.Background(), q)
	if err != nil {
		return nil, err
	}
	defer rows.Close()
	var out []string
	for rows.Next() {
		var m string
		if err := rows.Scan(&m); err != nil {
			return nil, err
		}
		out = append(out, m)
	}
	return out, rows.Err()
}

// MatchLedger returns the indices of ledger entries equal to the image (under
// the _litestream_seq mask that was in effect when each entry was recorded).
func (s *Scn) MatchLedger(im *Image) []int {
	var out []int
	digests := map[uint32]string{}
	for i, d := range s.Ledger {
		r := s.LedgerRoot[i]
		dg, ok := digests[r]
		if !ok {
			dg = Digest(im, r)
			digests[r] = dg
		}
		if dg == d {
			out = append(out, i)
		}
	}
	return out
}

// IsTxNotAvailable reports whether a restore error means "no plan reaches that TXID".
func IsTxNotAvailable(err error) bool {
	return err != nil && (strings.Contains(err.Error(), "transaction not available") || strings.Contains(err.Error(), "no snapshots available") || strings.Contains(err.Error(), "non-contiguous"))
}

// AppState is what an application can observe of a database: a logical dump
// of user-visible schema and rows plus the header-resident pragmas.
type AppState struct {
	Dump    string
	Pragmas string
	Extra   string // litestream bookkeeping tables, integrity, journal mode
}

// ObserveApp reads the application-visible state through the writer connection.
func (s *Scn) ObserveApp() (*AppState, error) {
	if s.w == nil {
		return nil, fmt.Errorf("no application connection")
	}
	st := &AppState{}
	d, err := LogicalDumpDB(s.w)
	if err != nil {
		return nil, err
	}
	st.Dump = d
	var parts []string
	for _, p := range []string{"user_version", "application_id", "auto_vacuum", "page_size", "journal_mode"} {
		v, err := queryStringsConn(s.w, "PRAGMA "+p)
		if err != nil {
			return nil, err
		}
		parts = append(parts, p+"="+strings.Join(v, ","))
	}
	st.Pragmas = strings.Join(parts, " ")
	var ex []string
	if v, err := queryStringsConn(s.w, "SELECT count(*) FROM _litestream_lock"); err == nil {
		ex = append(ex, "lock_rows="+strings.Join(v, ","))
	}
	if v, err := queryStringsConn(s.w, "SELECT id FROM _litestream_seq ORDER BY id"); err == nil {
		ex = append(ex, "seq_ids="+strings.Join(v, ","))
	}
	if !s.InTx {
		v, err := queryStringsConn(s.w, "PRAGMA integrity_check")
		if err != nil {
			return nil, err
		}
		ex = append(ex, "integrity="+strings.Join(v, ";"))
	}
	st.Extra = strings.Join(ex, " ")
	return st, nil
}

// IsAppOp reports whether an operation belongs to the application projection of a history.
func IsAppOp(op string) bool {
	name := op
	if i := strings.IndexByte(op, ':'); i >= 0 {
		name = op[:i]
	}
	switch name {
	case "W1", "W3", "WN", "U", "D", "DL", "DDL", "UV", "VAC", "IVAC", "TXB", "TXC", "TXR", "RDB", "RDE", "CK", "CC", "CO":
		return true
	}
	return false
}

// RecordLedgerNow records the current committed source state in the ledger (used by mid-operation oracles).
func (s *Scn) RecordLedgerNow() { s.recordLedger() }
