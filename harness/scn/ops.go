package scn

import (
	"context"
	"errors"
	"fmt"
	"log/slog"
	"os"
	"os/exec"
	"path/filepath"
	"regexp"
	"strconv"
	"strings"
	"syscall"
	"time"

	"github.com/benbjohnson/litestream"
	"github.com/benbjohnson/litestream/file"
	"github.com/superfly/ltx"
)

// Outcome of one operation.
type Outcome struct {
	Illegal bool  // the driver refused the op in this state (history is pruned)
	Err     error // error returned by the real call
	Ack     bool  // the op is an acknowledgement instant (SW/SD/CL returned nil)
}

func (o Outcome) String() string {
	switch {
	case o.Illegal:
		return "illegal"
	case o.Err != nil:
		return "err:" + ErrClass(o.Err)
	case o.Ack:
		return "ack"
	}
	return "ok"
}

var reNum = regexp.MustCompile(`[0-9a-f]{16}|/[^ :"]+|[0-9]+`)

// ErrClass normalises an error message so that traces are comparable.
func ErrClass(err error) string {
	if err == nil {
		return ""
	}
	m := err.Error()
	m = reNum.ReplaceAllString(m, "#")
	if len(m) > 160 {
		m = m[:160]
	}
	return m
}

func pay(n, size int) string {
	unit := fmt.Sprintf("%06d|", n)
	var sb strings.Builder
	for sb.Len() < size {
		sb.WriteString(unit)
	}
	return sb.String()[:size]
}

// msgHook is a slog handler that calls fn when a record with the given message is logged (see LCB).
type msgHook struct {
	arm   string // if set: fn fires at the first msg AFTER a record with this message
	msg   string
	armed bool
	fn    func()
}

func (h *msgHook) Enabled(context.Context, slog.Level) bool { return true }
func (h *msgHook) WithAttrs([]slog.Attr) slog.Handler       { return h }
func (h *msgHook) WithGroup(string) slog.Handler            { return h }
func (h *msgHook) Handle(_ context.Context, r slog.Record) error {
	switch {
	case h.arm != "" && !h.armed:
		if r.Message == h.arm {
			h.armed = true
		}
	case r.Message == h.msg:
		h.fn()
	}
	return nil
}

// Tick waits until the wall clock's millisecond has advanced past the last
// tick of this scenario, so that consecutive file-creating operations carry
// distinct millisecond timestamps (DESIGN §1.2).
func (s *Scn) Tick() {
	gap := s.TickGapMS
	if gap < 1 {
		gap = 1
	}
	for {
		now := time.Now().UnixMilli()
		if now >= s.lastTick+gap {
			s.lastTick = now
			return
		}
		time.Sleep(50 * time.Microsecond)
	}
}

func (s *Scn) wexec(q string, args ...any) error {
	_, err := s.w.ExecContext(context.Background(), q, args...)
	return err
}

// Do applies one operation of the alphabet and records it.
func (s *Scn) Do(op string) Outcome {
	s.opStart = time.Now()
	o := s.do(op)
	if s.DistinctMS {
		// files stamped during this operation are not later than now: the next tick waits past it
		s.lastTick = time.Now().UnixMilli()
	}
	if !o.Illegal {
		s.History = append(s.History, op)
		s.Trace = append(s.Trace, op+"="+o.String())
	}
	return o
}

// Run applies a list of operations, stopping at the first illegal one.
func (s *Scn) Run(ops []string) (Outcome, int) {
	var o Outcome
	for i, op := range ops {
		o = s.Do(op)
		if o.Illegal {
			return o, i
		}
	}
	return o, len(ops)
}

func (s *Scn) do(op string) Outcome {
	name, arg := op, ""
	if i := strings.IndexByte(op, ':'); i >= 0 {
		name, arg = op[:i], op[i+1:]
	}
	ctx := context.Background()
	ill := Outcome{Illegal: true}

	appWrite := func(f func() error) Outcome {
		if !s.AppUp || s.InTx {
			return ill
		}
		err := f()
		s.recordLedger()
		return Outcome{Err: err}
	}

	if s.ExtOp != nil {
		// operations defined by the running check (followers, VFS files, ...)
		if o, ok := s.ExtOp(s, name, arg); ok {
			return o
		}
	}
	if s.Remote != nil && isLSOp(name) {
		if s.RemoteDead {
			return ill
		}
		res, err := s.Remote.Do(op)
		if err != nil {
			s.RemoteDead = true
			return Outcome{Err: fmt.Errorf("worker died")}
		}
		s.recordLedger()
		switch {
		case res == "ok":
			return Outcome{}
		case res == "ack":
			return Outcome{Ack: true}
		case res == "illegal":
			return ill
		}
		return Outcome{Err: fmt.Errorf("%s", strings.TrimPrefix(res, "err:"))}
	}

	switch name {
	// ---------------- application ----------------
	case "W1":
		return appWrite(func() error {
			s.rowSeq++
			return s.wexec("INSERT INTO t (v) VALUES (?)", pay(s.rowSeq, 60))
		})
	case "W3":
		return appWrite(func() error {
			s.rowSeq++
			return s.wexec("INSERT INTO t (v) VALUES (?)", pay(s.rowSeq, 3*s.Cfg.PageSize))
		})
	case "WN": // insert a row spanning arg pages
		n, _ := strconv.Atoi(arg)
		if n <= 0 {
			return ill
		}
		return appWrite(func() error {
			s.rowSeq++
			return s.wexec("INSERT INTO t (v) VALUES (?)", pay(s.rowSeq, n*s.Cfg.PageSize-s.Cfg.PageSize/2))
		})
	case "U":
		return appWrite(func() error {
			s.rowSeq++
			return s.wexec("UPDATE t SET v = ? WHERE id = (SELECT min(id) FROM t)", pay(s.rowSeq, 60))
		})
	case "D":
		return appWrite(func() error {
			return s.wexec("DELETE FROM t WHERE id > (SELECT min(id) FROM t)")
		})
	case "DL": // delete only the newest row (a partial shrink once vacuumed)
		return appWrite(func() error {
			return s.wexec("DELETE FROM t WHERE id = (SELECT max(id) FROM t) AND id > (SELECT min(id) FROM t)")
		})
	case "DDL":
		return appWrite(func() error {
			k := s.ddlN / 2
			s.ddlN++
			if s.ddlN%2 == 1 {
				if err := s.wexec(fmt.Sprintf("CREATE TABLE x%d (a INTEGER PRIMARY KEY, b TEXT)", k)); err != nil {
					return err
				}
				if err := s.wexec(fmt.Sprintf("CREATE INDEX ix%d ON x%d (b)", k, k)); err != nil {
					return err
				}
				return s.wexec(fmt.Sprintf("INSERT INTO x%d (b) VALUES (?)", k), pay(k, 40))
			}
			return s.wexec(fmt.Sprintf("DROP TABLE x%d", k))
		})
	case "UV": // header-resident pragmas
		return appWrite(func() error {
			s.rowSeq++
			if err := s.wexec(fmt.Sprintf("PRAGMA user_version = %d", s.rowSeq)); err != nil {
				return err
			}
			return s.wexec(fmt.Sprintf("PRAGMA application_id = %d", 1000+s.rowSeq))
		})
	case "VAC":
		if s.InRd {
			// VACUUM with an open reader on another connection is fine in WAL mode.
		}
		return appWrite(func() error { return s.wexec("VACUUM") })
	case "IVAC":
		return appWrite(func() error { return s.wexec("PRAGMA incremental_vacuum") })
	case "TXB":
		if !s.AppUp || s.InTx {
			return ill
		}
		if err := s.wexec("BEGIN IMMEDIATE"); err != nil {
			return Outcome{Err: err}
		}
		s.InTx = true
		_ = s.wexec("PRAGMA cache_size = 1")
		// Touch an existing page first so that the spilled (uncommitted) frames
		// include a new version of a page that already exists in the database.
		s.rowSeq++
		_ = s.wexec("UPDATE t SET v = v || ?", pay(s.rowSeq, 7))
		s.rowSeq++
		n := 30
		if arg != "" {
			n, _ = strconv.Atoi(arg)
		}
		err := s.wexec("INSERT INTO t (v) VALUES (?)", pay(s.rowSeq, n*s.Cfg.PageSize))
		return Outcome{Err: err}
	case "TXC":
		if !s.AppUp || !s.InTx {
			return ill
		}
		err := s.wexec("COMMIT")
		if err == nil {
			s.InTx = false
			_ = s.wexec("PRAGMA cache_size = -2000")
		}
		s.recordLedger()
		return Outcome{Err: err}
	case "TXR":
		if !s.AppUp || !s.InTx {
			return ill
		}
		err := s.wexec("ROLLBACK")
		s.InTx = false
		_ = s.wexec("PRAGMA cache_size = -2000")
		s.recordLedger()
		return Outcome{Err: err}
	case "RDB":
		if !s.AppUp || s.InRd {
			return ill
		}
		if _, err := s.r.ExecContext(ctx, "BEGIN"); err != nil {
			return Outcome{Err: err}
		}
		var n int
		err := s.r.QueryRowContext(ctx, "SELECT count(*) FROM t").Scan(&n)
		s.InRd = true
		return Outcome{Err: err}
	case "RDE":
		if !s.AppUp || !s.InRd {
			return ill
		}
		_, err := s.r.ExecContext(ctx, "ROLLBACK")
		s.InRd = false
		return Outcome{Err: err}
	case "CK":
		if !s.AppUp || s.InTx {
			return ill
		}
		var a, b, c int
		err := s.w.QueryRowContext(ctx, "PRAGMA wal_checkpoint("+arg+")").Scan(&a, &b, &c)
		s.recordLedger()
		return Outcome{Err: err}
	case "CC":
		if !s.AppUp {
			return ill
		}
		s.appClose()
		s.recordLedger()
		return Outcome{}
	case "CO":
		if s.AppUp {
			return ill
		}
		err := s.appOpen(false)
		return Outcome{Err: err}

	// ---------------- litestream ----------------
	case "S":
		if !s.LSOpen {
			return ill
		}
		s.tickIf()
		err := s.DB.Sync(ctx)
		s.recordLedger()
		return Outcome{Err: err}
	case "RS":
		if !s.LSOpen {
			return ill
		}
		err := s.DB.Replica.Sync(ctx)
		if isWaitForData(err) {
			return Outcome{}
		}
		return Outcome{Err: err}
	case "RSL":
		if !s.LSOpen {
			return ill
		}
		err := s.DB.Replica.VerifSyncLimited(ctx, s.Cfg.MaxSyncLTXFiles)
		return Outcome{Err: err}
	case "SW":
		if !s.LSOpen {
			return ill
		}
		s.tickIf()
		err := s.DB.SyncAndWait(ctx)
		s.recordLedger()
		return Outcome{Err: err, Ack: err == nil}
	case "SD":
		if !s.LSOpen || s.Store == nil {
			return ill
		}
		s.tickIf()
		// through the control socket, as `litestream sync -wait` does (server.go handleSync -> Store.SyncDB)
		err := s.syncViaServer(ctx)
		s.recordLedger()
		return Outcome{Err: err, Ack: err == nil}
	case "LC":
		if !s.LSOpen {
			return ill
		}
		s.tickIf()
		err := s.DB.Checkpoint(ctx, arg)
		s.recordLedger()
		return Outcome{Err: err}
	case "SNAP":
		if !s.LSOpen {
			return ill
		}
		s.tickIf()
		var err error
		if s.Store != nil {
			_, err = s.Store.CompactDB(ctx, s.DB, s.Store.SnapshotLevel())
		} else {
			_, err = s.DB.Snapshot(ctx)
		}
		if errors.Is(err, litestream.ErrNoCompaction) || errors.Is(err, litestream.ErrCompactionTooEarly) {
			return Outcome{}
		}
		return Outcome{Err: err}
	case "FSNAP": // forced snapshot (DB.Snapshot), as replicate -force-snapshot
		if !s.LSOpen {
			return ill
		}
		s.tickIf()
		_, err := s.DB.Snapshot(ctx)
		return Outcome{Err: err}
	case "LCW":
		// litestream checkpoint while an application write transaction holds the write lock, the application
		// committing 1.5 busy-timeouts later (i.e. after litestream's first lock attempt has timed out and while a
		// second one, if there is one, is waiting). One fixed interleaving, joined before the operation returns.
		if !s.LSOpen || !s.AppUp || !s.InTx || s.Cfg.BusyTimeoutMS <= 0 || s.Remote != nil {
			return ill
		}
		s.tickIf()
		delay := time.Duration(s.Cfg.BusyTimeoutMS) * time.Millisecond * 3 / 2
		if strings.HasSuffix(arg, ":early") {
			// variant: the commit lands DURING litestream's first lock wait (half a busy timeout after the start),
			// so the wait succeeds and the same executor pass goes on to copy the commit
			arg = strings.TrimSuffix(arg, ":early")
			delay = time.Duration(s.Cfg.BusyTimeoutMS) * time.Millisecond / 2
		}
		commitDone := make(chan error, 1)
		go func() {
			time.Sleep(delay)
			s.commitPre = time.Now()
			commitDone <- s.wexec("COMMIT")
		}()
		err := s.DB.Checkpoint(ctx, arg)
		cerr := <-commitDone
		if cerr == nil {
			s.InTx = false
			_ = s.wexec("PRAGMA cache_size = -2000")
		}
		s.recordLedger()
		if err != nil && cerr == nil {
			return Outcome{} // a checkpoint that gave up on a busy database is not an error of the scenario
		}
		return Outcome{Err: cerr}
	case "LCB":
		// litestream checkpoint with an application write burst in the middle of it: the burst (arg after the mode,
		// default 6 single-row commits) is committed when litestream starts the first sync after its checkpoint
		// PRAGMA (debug messages "checkpoint" then "sync"), i.e. after the WAL was checkpointed/restarted and the
		// write barrier released, before the post-checkpoint copy reads the WAL.
		// One fixed interleaving, executed inside the operation. Depends on the debug message "checkpoint";
		// if the message is never seen the operation is an ordinary LC.
		if !s.LSOpen || !s.AppUp || s.InTx || s.Remote != nil {
			return ill
		}
		mode, n := arg, 6
		if i := strings.IndexByte(arg, ':'); i >= 0 {
			mode = arg[:i]
			n, _ = strconv.Atoi(arg[i+1:])
		}
		s.tickIf()
		fired := false
		old := s.DB.Logger
		s.DB.Logger = slog.New(&msgHook{arm: "checkpoint", msg: "sync", fn: func() {
			if fired {
				return
			}
			fired = true
			for i := 0; i < n; i++ {
				s.rowSeq++
				_ = s.wexec("INSERT INTO t (v) VALUES (?)", pay(s.rowSeq, 60))
			}
		}})
		err := s.DB.Checkpoint(ctx, mode)
		s.DB.Logger = old
		s.recordLedger()
		return Outcome{Err: err}
	case "LCC":
		// litestream PASSIVE/other checkpoint while the APPLICATION is checkpointing too: when litestream starts its
		// second sync of the checkpoint sequence (the "seal" copy made under its write barrier), the application
		// starts wal_checkpoint(RESTART) on its own connection with a 150 ms busy timeout: it takes SQLite's
		// checkpoint lock and then waits for the writer lock, so litestream's own checkpoint PRAGMA finds the
		// checkpoint lock taken. One fixed interleaving, joined before the operation returns.
		if !s.LSOpen || !s.AppUp || s.InTx || s.InRd || s.Remote != nil {
			return ill
		}
		s.tickIf()
		nsync := 0
		started := false
		appDone := make(chan struct{})
		old := s.DB.Logger
		s.DB.Logger = slog.New(&msgHook{msg: "sync", fn: func() {
			nsync++
			if nsync != 2 || started {
				return
			}
			started = true
			go func() {
				defer close(appDone)
				c := context.Background()
				s.r.ExecContext(c, "PRAGMA busy_timeout = 150")
				var a, b, d int
				_ = s.r.QueryRowContext(c, "PRAGMA wal_checkpoint(RESTART)").Scan(&a, &b, &d)
				s.r.ExecContext(c, "PRAGMA busy_timeout = 0")
			}()
			time.Sleep(25 * time.Millisecond) // let the application reach its lock wait
		}})
		err := s.DB.Checkpoint(ctx, arg)
		s.DB.Logger = old
		if started {
			<-appDone
		}
		s.recordLedger()
		if err != nil {
			return Outcome{} // a checkpoint that gave up on a busy database is not an error of the scenario
		}
		return Outcome{}
	case "SCW":
		// A sync with an application commit landing in the middle of it: the sync is paused (hook) where it is about
		// to stage its level-0 file, i.e. after it opened and measured the WAL; the application commits one row; the
		// sync is released and finishes with what it had read. One fixed interleaving, joined before returning.
		if !s.LSOpen || !s.AppUp || s.InTx || s.Remote != nil {
			return ill
		}
		s.tickIf()
		{
			reached, release := s.DB.VerifPauseNextLTXStaging()
			syncDone := make(chan error, 1)
			go func() { syncDone <- s.DB.Sync(ctx) }()
			select {
			case <-reached:
			case err := <-syncDone:
				// nothing to copy: no file was staged, the sync is over; the commit simply follows it
				s.DB.VerifResetLTXStaging()
				s.rowSeq++
				werr := s.wexec("INSERT INTO t (v) VALUES (?)", pay(s.rowSeq, 60))
				s.recordLedger()
				if err == nil {
					err = werr
				}
				return Outcome{Err: err}
			}
			s.rowSeq++
			werr := s.wexec("INSERT INTO t (v) VALUES (?)", pay(s.rowSeq, 60))
			s.recordLedger()
			release()
			err := <-syncDone
			s.recordLedger()
			if err == nil {
				err = werr
			}
			return Outcome{Err: err}
		}
	case "LCF":
		// litestream checkpoint (mode = arg) with an application commit landing while its FIRST level-0 file (the
		// copy that precedes the checkpoint) is being staged, and a one-shot ENOSPC on the open of the NEXT staging
		// file (the copy / boundary snapshot that follows the checkpoint): the checkpoint has then changed the WAL
		// but could not record it. One fixed interleaving with one fault, joined before returning; the failing
		// checkpoint is an unacknowledged operation.
		if !s.LSOpen || !s.AppUp || s.InTx || s.Remote != nil || (s.lfArmed != nil && s.lfArmed()) {
			return ill
		}
		s.tickIf()
		{
			reached, release := s.DB.VerifPauseNextLTXStaging()
			cpDone := make(chan error, 1)
			go func() { cpDone <- s.DB.Checkpoint(ctx, arg) }()
			select {
			case <-reached:
			case err := <-cpDone:
				// nothing was copied before the checkpoint: no pause point, an ordinary checkpoint
				s.DB.VerifResetLTXStaging()
				s.recordLedger()
				return Outcome{Err: err}
			}
			s.rowSeq++
			werr := s.wexec("INSERT INTO t (v) VALUES (?)", pay(s.rowSeq, 60))
			s.recordLedger()
			armed := s.DB.VerifFailNextLTXStaging("open", 0, syscall.ENOSPC)
			release()
			err := <-cpDone
			if armed() {
				s.DB.VerifResetLTXStaging() // the checkpoint staged no second file
			}
			s.recordLedger()
			if err == nil {
				err = werr
			}
			return Outcome{Err: err}
		}
	case "QSNAP":
		// A snapshot REQUESTED while a sync is in flight: the sync is paused (hook) at the point where it has
		// taken the executor and is about to stage its level-0 file; DB.Snapshot is started and queues behind
		// it; time passes; the sync is released, creates its file, and the snapshot then runs and covers it.
		// One fixed interleaving of two daemon operations, joined before the operation returns.
		if !s.LSOpen || s.Remote != nil {
			return ill
		}
		s.tickIf()
		reached, release := s.DB.VerifPauseNextLTXStaging()
		syncDone := make(chan error, 1)
		go func() { syncDone <- s.DB.Sync(ctx) }()
		select {
		case <-reached:
		case err := <-syncDone:
			// nothing to sync: no level-0 file was staged; plain snapshot
			s.DB.VerifResetLTXStaging()
			if err != nil {
				return Outcome{Err: err}
			}
			_, err = s.DB.Snapshot(ctx)
			s.recordLedger()
			return Outcome{Err: err}
		}
		snapDone := make(chan error, 1)
		go func() { _, err := s.DB.Snapshot(ctx); snapDone <- err }()
		for i := 0; i < 2000 && s.DB.SyncDiagnostic().ExecutorWaiterCount == 0; i++ {
			time.Sleep(time.Millisecond)
		}
		time.Sleep(4 * time.Millisecond) // the request is now strictly older than the file the sync is about to create
		release()
		err := <-syncDone
		if e := <-snapDone; err == nil {
			err = e
		}
		s.recordLedger()
		return Outcome{Err: err}
	case "CMP":
		if !s.LSOpen {
			return ill
		}
		l, _ := strconv.Atoi(arg)
		s.tickIf()
		var err error
		if s.Store != nil {
			lvl, lerr := s.Levels().Level(l)
			if lerr != nil {
				return ill
			}
			_, err = s.Store.CompactDB(ctx, s.DB, lvl)
		} else {
			_, err = s.DB.Compact(ctx, l)
		}
		if errors.Is(err, litestream.ErrNoCompaction) || errors.Is(err, litestream.ErrCompactionTooEarly) {
			return Outcome{}
		}
		return Outcome{Err: err}
	case "RETL0A", "RET9A": // arg k: age the first k remote files of the level by 2h (Chtimes), then run the pass with a 1h threshold
		if !s.LSOpen {
			return ill
		}
		lvl := 0
		if name == "RET9A" {
			lvl = litestream.SnapshotLevel
		}
		k, _ := strconv.Atoi(arg)
		fs := ListLevel(s.ReplicaDir, lvl)
		if k > len(fs) {
			return ill
		}
		old := time.Now().Add(-2 * time.Hour)
		for _, f := range fs[:k] {
			if f.MTime.After(old) {
				os.Chtimes(s.ReplicaFilePath(f), old, old)
			}
		}
		if lvl == 0 {
			s.DB.L0Retention = time.Hour
			return Outcome{Err: s.DB.EnforceL0RetentionByTime(ctx)}
		}
		if s.Store != nil {
			s.Store.SnapshotRetention = time.Hour
			return Outcome{Err: s.Store.EnforceSnapshotRetention(ctx, s.DB)}
		}
		floor, err := s.DB.EnforceSnapshotRetention(ctx, time.Now().Add(-time.Hour))
		if err != nil {
			return Outcome{Err: err}
		}
		for _, l := range s.Cfg.Levels {
			if err := s.DB.EnforceRetentionByTXID(ctx, l, floor); err != nil {
				return Outcome{Err: err}
			}
		}
		return Outcome{}
	case "RETL0": // arg k: the first k remote L0 files are older than the threshold
		if !s.LSOpen {
			return ill
		}
		k, _ := strconv.Atoi(arg)
		fs := ListLevel(s.ReplicaDir, 0)
		if k > len(fs) {
			return ill
		}
		if k == 0 {
			s.DB.L0Retention = 1000 * time.Hour
		} else {
			cut := fs[k-1].MTime.Add(s.cutMargin())
			s.DB.L0Retention = time.Since(cut)
		}
		err := s.DB.EnforceL0RetentionByTime(ctx)
		return Outcome{Err: err}
	case "RET9": // arg k: the first k snapshots are older than the cutoff; cascades like the store
		if !s.LSOpen {
			return ill
		}
		k, _ := strconv.Atoi(arg)
		fs := ListLevel(s.ReplicaDir, litestream.SnapshotLevel)
		if k > len(fs) {
			return ill
		}
		var cut time.Time
		if k == 0 {
			cut = time.Unix(0, 0)
		} else {
			cut = fs[k-1].MTime.Add(s.cutMargin())
		}
		if s.Store != nil {
			s.Store.SnapshotRetention = time.Since(cut)
			err := s.Store.EnforceSnapshotRetention(ctx, s.DB)
			return Outcome{Err: err}
		}
		floor, err := s.DB.EnforceSnapshotRetention(ctx, cut)
		if err != nil {
			return Outcome{Err: err}
		}
		for _, l := range s.Cfg.Levels {
			if err := s.DB.EnforceRetentionByTXID(ctx, l, floor); err != nil {
				return Outcome{Err: err}
			}
		}
		return Outcome{}
	case "CL":
		if !s.LSOpen {
			return ill
		}
		s.tickIf()
		// Close performs a replication round only if litestream has initialised
		// the database (its first Sync did). A close before that is a no-op and
		// is not an acknowledgement in the sense of C01.
		inited, _, _, _ := s.DB.VerifHandles()
		var err error
		if s.Store != nil {
			err = s.Store.DisableDB(ctx, s.DBPath)
		} else {
			err = s.DB.Close(ctx)
		}
		s.LSOpen = false
		s.recordLedger()
		return Outcome{Err: err, Ack: err == nil && inited}
	case "START": // re-open the same object (IPC start)
		if s.LSOpen || s.DB == nil {
			return ill
		}
		var err error
		if s.Store != nil {
			err = s.Store.EnableDB(ctx, s.DBPath)
		} else {
			err = s.DB.Open()
		}
		if err == nil {
			s.LSOpen = true
		}
		return Outcome{Err: err}
	case "KILL": // drop the object without a final sync
		if !s.LSOpen {
			return ill
		}
		s.DB.VerifAbandon()
		s.LSOpen = false
		return Outcome{}
	case "NEW": // process restart: brand-new objects on the same paths
		if s.LSOpen {
			return ill
		}
		if s.DB != nil {
			s.DB.VerifAbandon()
		}
		err := s.lsNew()
		return Outcome{Err: err}
	case "RF": // arm a one-shot failure of the next upload to the replica: RF:before | RF:mid
		if !s.Cfg.ReplicaFaults || !s.LSOpen || s.rfArmed != "" || (arg != "before" && arg != "mid") {
			return ill
		}
		s.rfArmed = arg
		return Outcome{}
	case "LF": // arm a one-shot ENOSPC on the next local LTX staging file: LF:open | LF:write | LF:sync
		if s.DB == nil || !s.LSOpen || (s.lfArmed != nil && s.lfArmed()) {
			return ill
		}
		mode, skip := arg, 0
		if i := strings.IndexByte(arg, ':'); i >= 0 { // LF:mode:n = the n-th next staging file
			n, err := strconv.Atoi(arg[i+1:])
			if err != nil || n < 1 {
				return ill
			}
			mode, skip = arg[:i], n-1
		}
		if mode != "open" && mode != "write" && mode != "sync" {
			return ill
		}
		s.lfArmed, s.lfMode = s.DB.VerifFailNextLTXStaging(mode, skip, syscall.ENOSPC), arg
		return Outcome{}
	case "RSET":
		if s.DB == nil {
			return ill
		}
		err := s.DB.ResetLocalState(ctx)
		return Outcome{Err: err}
	case "RSETCLI":
		// the `litestream reset <db>` command (cmd/litestream/reset.go), run as a process while litestream is down;
		// the binary is built from the tree under test by run.sh / setup.sh (illegal if it is not there)
		if s.LSOpen {
			return ill
		}
		cli := filepath.Join(os.Getenv("VERIF_ROOT"), "bin", "litestream-cli")
		if os.Getenv("VERIF_ROOT") == "" {
			cli = "/verif/bin/litestream-cli"
		}
		if _, err := os.Stat(cli); err != nil {
			return ill
		}
		out, err := exec.Command(cli, "reset", s.DBPath).CombinedOutput()
		if err != nil {
			return Outcome{Err: fmt.Errorf("litestream reset: %v: %s", err, strings.TrimSpace(string(out)))}
		}
		return Outcome{}
	case "RMMETA":
		if s.LSOpen {
			return ill
		}
		if s.Cfg.MetaInDBDir {
			return Outcome{Err: os.RemoveAll(s.DB.LTXDir())} // the meta path is the database's own directory
		}
		err := os.RemoveAll(s.DB.MetaPath())
		return Outcome{Err: err}
	case "SAVEDB":
		// Save a consistent copy of db (+wal) for a later SWAPDB.
		db, err := s.ReadDBFile()
		if err != nil {
			return Outcome{Err: err}
		}
		s.savedDB, s.savedWAL = db, s.ReadWAL()
		return Outcome{}
	case "REBUILD":
		// With litestream stopped, the database is replaced by a brand-new one with ANOTHER page size (arg), the local
		// LTX state is cleared and the replica location changes (stop; rebuild the database; litestream reset; start).
		newPS, _ := strconv.Atoi(arg)
		if s.LSOpen || newPS < 512 {
			return ill
		}
		s.appClose()
		s.fd.Close()
		for _, suf := range []string{"", "-wal", "-shm"} {
			os.Remove(s.DBPath + suf)
		}
		if s.Cfg.MetaInDBDir {
			os.RemoveAll(s.DB.LTXDir())
		} else {
			os.RemoveAll(s.DB.MetaPath())
		}
		// the new database replicates to a NEW, empty replica location (the old one holds another database); the
		// litestream DB object stays the same, its Replica is replaced as a changed configuration would do
		s.ReplicaDir += "-next"
		client := file.NewReplicaClient(s.ReplicaDir)
		rep := litestream.NewReplicaWithClient(s.DB, client)
		rep.MonitorEnabled = false
		s.DB.Replica = rep
		client.Replica = rep
		s.Client = client
		s.Cfg.PageSize = newPS
		if err := s.appOpen(true); err != nil {
			return Outcome{Err: err}
		}
		fd, err := os.Open(s.DBPath)
		if err != nil {
			return Outcome{Err: err}
		}
		s.fd = fd
		s.SeqRoot = 0
		s.recordLedger()
		return Outcome{}
	case "SWAPDB":
		if s.LSOpen || s.savedDB == nil {
			return ill
		}
		wasUp := s.AppUp
		s.appClose()
		s.fd.Close()
		os.Remove(s.DBPath + "-shm")
		os.Remove(s.DBPath + "-wal")
		if err := os.WriteFile(s.DBPath+".swap", s.savedDB, 0o644); err != nil {
			return Outcome{Err: err}
		}
		if err := os.Rename(s.DBPath+".swap", s.DBPath); err != nil {
			return Outcome{Err: err}
		}
		if s.savedWAL != nil {
			if err := os.WriteFile(s.DBPath+"-wal", s.savedWAL, 0o644); err != nil {
				return Outcome{Err: err}
			}
		}
		fd, err := os.Open(s.DBPath)
		if err != nil {
			return Outcome{Err: err}
		}
		s.fd = fd
		if wasUp {
			if err := s.appOpen(false); err != nil {
				return Outcome{Err: err}
			}
		}
		// The source has been rolled back: the ledger restarts from this state.
		s.recordLedger()
		return Outcome{}
	}
	panic("scn: unknown op " + op)
}

func isLSOp(name string) bool {
	switch name {
	case "S", "RS", "RSL", "SW", "SD", "LC", "SNAP", "FSNAP", "CMP", "RETL0", "RET9", "RETL0A", "RET9A", "CL", "START", "RSET":
		return true
	}
	return false
}

// cutMargin places an age threshold half a tick gap after a file's millisecond timestamp.
func (s *Scn) cutMargin() time.Duration {
	gap := s.TickGapMS
	if gap < 1 {
		gap = 1
	}
	return time.Duration(gap) * 500 * time.Microsecond
}

func (s *Scn) tickIf() {
	if s.DistinctMS {
		s.Tick()
	}
}

// isWaitForData matches litestream's unexported "no position, waiting for data" error.
func isWaitForData(err error) bool {
	return err != nil && strings.Contains(err.Error(), "no position, waiting for data")
}

// RemoteMaxL0 is the highest L0 TXID on the replica.
func (s *Scn) RemoteMaxL0() ltx.TXID { return MaxTXID(s.ReplicaDir, 0) }

// LocalMaxL0 is the highest local L0 TXID.
func (s *Scn) LocalMaxL0() ltx.TXID { return MaxTXID(s.DB.MetaPath(), 0) }

// ReplicaFilePath returns the path of a replica file.
func (s *Scn) ReplicaFilePath(f FileRef) string {
	return filepath.Join(s.ReplicaDir, "ltx", strconv.Itoa(f.Level), ltx.FormatFilename(f.Min, f.Max))
}
