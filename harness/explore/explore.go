// Package explore implements the explicit-state search over operation
// histories (engine E1): breadth-first, successor = replay of the history on a
// fresh scenario plus one more operation, optional merging by canonical key.
package explore

import (
	"fmt"
	"math/rand"
	"runtime"
	"sort"
	"strings"
	"sync"
	"sync/atomic"
	"time"
)

// Result of executing one history.
type Result struct {
	Legal   bool   // false: the last operation was refused by the driver (subtree pruned)
	Key     string // canonical state key at the end (used when merging); "" = never merge
	Outcome string // outcome class, for distinct-outcome accounting
	Stop    bool   // do not extend this history (terminal)
}

// RunFunc executes one history from the initial state and applies the oracle.
type RunFunc func(hist []string) Result

// Options configures a search.
type Options struct {
	Alphabet []string
	Depth    int
	Seed     [][]string // seed prefixes (each explored to Depth beyond it); nil = one empty seed
	Merge    bool       // expand each canonical key once
	Deadline time.Time  // stop launching work after this instant
	MaxRuns  int64      // 0 = unlimited
	Workers  int
	Shuffle  int64 // VERIF_SEED: permutes the order in which a level is walked
	// Filter, if set, prunes histories before execution (driver-level legality known statically).
	Filter func(hist []string) bool
}

// Stats describes what a search covered.
type Stats struct {
	Runs            int64          `json:"runs"`
	LegalRuns       int64          `json:"legal_runs"`
	Transitions     int64          `json:"transitions"` // operations executed on the implementation
	States          int            `json:"states"`      // distinct canonical keys (merge) or legal histories (exact)
	CompletedDepth  int            `json:"completed_depth"`
	MaxDepth        int            `json:"max_depth"`
	Exhaustive      bool           `json:"exhaustive"`
	CapHit          string         `json:"cap_hit,omitempty"`
	PerLevel        []int          `json:"legal_histories_per_level"`
	Outcomes        map[string]int `json:"-"`
	DistinctOutcome int            `json:"distinct_outcomes"`
	Samples         []string       `json:"-"`
}

// BFS runs the search. Every history of every seed up to Depth is executed
// (exact mode) or every distinct key is expanded once (merge mode).
func BFS(o Options, run RunFunc) *Stats {
	if o.Workers <= 0 {
		o.Workers = runtime.NumCPU()
	}
	st := &Stats{Outcomes: map[string]int{}, Exhaustive: true}
	seeds := o.Seed
	if len(seeds) == 0 {
		seeds = [][]string{nil}
	}
	seen := map[string]bool{}
	var mu sync.Mutex
	level := make([][]string, 0, len(seeds))
	for _, s := range seeds {
		level = append(level, append([]string{}, s...))
	}
	var runs atomic.Int64
	capHit := func() string {
		if !o.Deadline.IsZero() && time.Now().After(o.Deadline) {
			return "time budget"
		}
		if o.MaxRuns > 0 && runs.Load() >= o.MaxRuns {
			return "run budget"
		}
		return ""
	}
	for d := 1; d <= o.Depth; d++ {
		// candidates = level × alphabet
		var cands [][]string
		for _, h := range level {
			for _, a := range o.Alphabet {
				c := make([]string, len(h)+1)
				copy(c, h)
				c[len(h)] = a
				if o.Filter != nil && !o.Filter(c) {
					continue
				}
				cands = append(cands, c)
			}
		}
		if o.Shuffle != 0 {
			r := rand.New(rand.NewSource(o.Shuffle + int64(d)))
			r.Shuffle(len(cands), func(i, j int) { cands[i], cands[j] = cands[j], cands[i] })
		}
		type out struct {
			h []string
			r Result
		}
		results := make([]out, len(cands))
		done := make([]bool, len(cands))
		var idx atomic.Int64
		var wg sync.WaitGroup
		var capped atomic.Value
		for w := 0; w < o.Workers; w++ {
			wg.Add(1)
			go func() {
				defer wg.Done()
				for {
					i := int(idx.Add(1) - 1)
					if i >= len(cands) {
						return
					}
					if c := capHit(); c != "" {
						capped.Store(c)
						return
					}
					runs.Add(1)
					r := run(cands[i])
					results[i] = out{cands[i], r}
					done[i] = true
				}
			}()
		}
		wg.Wait()
		var next [][]string
		legal := 0
		for i := range results {
			if !done[i] {
				continue
			}
			r := results[i].r
			st.Runs++
			if !r.Legal {
				continue
			}
			legal++
			st.LegalRuns++
			st.Transitions += int64(len(results[i].h))
			mu.Lock()
			st.Outcomes[r.Outcome]++
			if len(st.Samples) < 6 && (legal%97 == 1 || len(st.Samples) < 2) {
				st.Samples = append(st.Samples, strings.Join(results[i].h, " ")+" => "+r.Outcome)
			}
			mu.Unlock()
			if r.Stop {
				continue
			}
			if o.Merge && r.Key != "" {
				if seen[r.Key] {
					continue
				}
				seen[r.Key] = true
			}
			next = append(next, results[i].h)
		}
		st.PerLevel = append(st.PerLevel, legal)
		if d > st.MaxDepth && legal > 0 {
			st.MaxDepth = d
		}
		if c := capped.Load(); c != nil {
			st.Exhaustive = false
			st.CapHit = fmt.Sprintf("%s at depth %d (%d of %d candidates run)", c.(string), d, countTrue(done), len(cands))
			break
		}
		st.CompletedDepth = d
		if o.Merge {
			st.States = len(seen)
		} else {
			st.States += legal
		}
		level = next
		if len(level) == 0 {
			break
		}
	}
	st.DistinctOutcome = len(st.Outcomes)
	return st
}

func countTrue(b []bool) int {
	n := 0
	for _, x := range b {
		if x {
			n++
		}
	}
	return n
}

// OutcomeList renders the outcome histogram sorted by count.
func (s *Stats) OutcomeList(max int) []string {
	type kv struct {
		k string
		v int
	}
	var l []kv
	for k, v := range s.Outcomes {
		l = append(l, kv{k, v})
	}
	sort.Slice(l, func(i, j int) bool {
		if l[i].v != l[j].v {
			return l[i].v > l[j].v
		}
		return l[i].k < l[j].k
	})
	var out []string
	for i, e := range l {
		if i >= max {
			break
		}
		out = append(out, fmt.Sprintf("%s ×%d", e.k, e.v))
	}
	return out
}

// Merge adds other's counters into s.
func (s *Stats) Add(o *Stats) {
	s.Runs += o.Runs
	s.LegalRuns += o.LegalRuns
	s.Transitions += o.Transitions
	s.States += o.States
	if o.MaxDepth > s.MaxDepth {
		s.MaxDepth = o.MaxDepth
	}
	if !o.Exhaustive {
		s.Exhaustive = false
		if s.CapHit == "" {
			s.CapHit = o.CapHit
		}
	}
	if s.Outcomes == nil {
		s.Outcomes = map[string]int{}
	}
	for k, v := range o.Outcomes {
		s.Outcomes[k] += v
	}
	s.DistinctOutcome = len(s.Outcomes)
	for _, x := range o.Samples {
		if len(s.Samples) < 8 {
			s.Samples = append(s.Samples, x)
		}
	}
}
