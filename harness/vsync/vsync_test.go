package vsync_test

import (
	"context"
	"fmt"
	"io"
	"sort"
	"strings"
	"testing"

	"lsverif/vsched"
	"lsverif/vsync"
	"lsverif/vsync/vsem"
)

type world struct {
	setup func() []func()
	final func() string
}

func exploreAll(t *testing.T, bound int, mk func() ([]func(), func() string)) (outcomes map[string]int, deadlocks int, execs int64) {
	outcomes = map[string]int{}
	var fin func() string
	e := &vsched.Explorer{Bound: bound}
	e.Exec = func(prefix []int, expect [][]int) *vsched.Execution {
		vsched.Reset()
		vsync.ResetTable()
		var bodies []func()
		bodies, fin = mk()
		for i, b := range bodies {
			vsched.Spawn(fmt.Sprintf("t%d", i), b)
		}
		return vsched.Run(vsched.Options{Choices: prefix, Expect: expect, MaxSteps: 1000})
	}
	e.Check = func(x *vsched.Execution) bool {
		if x.Diverged != "" {
			t.Fatalf("diverged: %s", x.Diverged)
		}
		if x.UnmanagedTouches != 0 {
			t.Fatalf("unmanaged touches: %d\n%v", x.UnmanagedTouches, x.UnmanagedSample)
		}
		for _, th := range x.Threads {
			if th.Panic != "" {
				t.Fatalf("panic in %s: %s\n%s", th.Name, th.Panic, th.Stack)
			}
		}
		if x.Deadlock {
			deadlocks++
			outcomes["deadlock: "+x.Blocked()+" | "+strings.Join(vsync.LockTable(), ", ")]++
			return true
		}
		outcomes[fin()]++
		return true
	}
	e.Explore()
	return outcomes, deadlocks, e.Execs
}

func keys(m map[string]int) []string {
	var ks []string
	for k := range m {
		ks = append(ks, k)
	}
	sort.Strings(ks)
	return ks
}

func TestLockOrderDeadlock(t *testing.T) {
	mk := func() ([]func(), func() string) {
		var a, b vsync.Mutex
		return []func(){
			func() { a.Lock(); b.Lock(); b.Unlock(); a.Unlock() },
			func() { b.Lock(); a.Lock(); a.Unlock(); b.Unlock() },
		}, func() string { return "ok" }
	}
	_, d0, n0 := exploreAll(t, 0, mk)
	out, d1, n1 := exploreAll(t, 1, mk)
	t.Logf("bound0: %d execs %d deadlocks; bound1: %d execs %d deadlocks: %v", n0, d0, n1, d1, keys(out))
	if d0 != 0 || d1 == 0 {
		t.Fatalf("expected the deadlock exactly at bound 1")
	}
}

func TestLostUpdate(t *testing.T) {
	mk := func() ([]func(), func() string) {
		var mu vsync.Mutex
		x := 0
		inc := func() {
			mu.Lock()
			v := x
			mu.Unlock()
			mu.Lock()
			x = v + 1
			mu.Unlock()
		}
		return []func(){inc, inc}, func() string { return fmt.Sprint(x) }
	}
	out, _, n := exploreAll(t, 1, mk)
	t.Logf("%d execs: %v", n, out)
	if out["1"] == 0 || out["2"] == 0 {
		t.Fatalf("expected outcomes 1 and 2, got %v", out)
	}
}

func TestRWRecursiveReadDeadlock(t *testing.T) {
	mk := func() ([]func(), func() string) {
		var m vsync.RWMutex
		return []func(){
			func() { m.RLock(); m.RLock(); m.RUnlock(); m.RUnlock() },
			func() { m.Lock(); m.Unlock() },
		}, func() string { return "ok" }
	}
	out, d, n := exploreAll(t, 1, mk)
	t.Logf("%d execs: %v", n, keys(out))
	if d == 0 {
		t.Fatalf("recursive read lock with a pending writer must deadlock in some schedule")
	}
}

func TestHandOffRUnlock(t *testing.T) {
	// read lock taken by one thread, released by a child thread; TryLock in between fails
	mk := func() ([]func(), func() string) {
		var m vsync.RWMutex
		res := ""
		return []func(){
			func() {
				m.RLock()
				vsync.Go(func() { m.RUnlock() })
			},
			func() {
				if m.TryLock() {
					res = "got"
					m.Unlock()
				} else {
					res = "skipped"
				}
			},
		}, func() string { return res + "/" + strings.Join(vsync.LockTable(), ",") }
	}
	out, d, n := exploreAll(t, 2, mk)
	t.Logf("%d execs: %v", n, out)
	if d != 0 || out["got/"] == 0 || out["skipped/"] == 0 || len(out) != 2 {
		t.Fatalf("unexpected: %v", out)
	}
}

func TestSemaphoreCancel(t *testing.T) {
	mk := func() ([]func(), func() string) {
		s := vsem.NewWeighted(1)
		ctx, cancel := context.WithCancel(context.Background())
		var r1, r2 string
		return []func(){
			func() {
				if err := s.Acquire(context.Background(), 1); err != nil {
					r1 = "err"
					return
				}
				cancel()
				vsched.Yield("y", "y")
				s.Release(1)
				r1 = "ok"
			},
			func() {
				if err := s.Acquire(ctx, 1); err != nil {
					r2 = "cancelled"
					return
				}
				s.Release(1)
				r2 = "ok"
			},
		}, func() string { return r1 + "/" + r2 + "/" + fmt.Sprint(s.Held()) }
	}
	out, d, n := exploreAll(t, 2, mk)
	t.Logf("%d execs: %v", n, out)
	if d != 0 || out["ok/cancelled/0"] == 0 || out["ok/ok/0"] == 0 {
		t.Fatalf("unexpected: %v", out)
	}
	// an already-cancelled context fails even when the semaphore is free
	s := vsem.NewWeighted(1)
	ctx, cancel := context.WithCancel(context.Background())
	cancel()
	if err := s.Acquire(ctx, 1); err == nil {
		t.Fatalf("Acquire on a done context must fail")
	}
}

func TestPipe(t *testing.T) {
	mk := func() ([]func(), func() string) {
		pr, pw := vsync.Pipe()
		var got []byte
		var rerr, werr error
		return []func(){
			func() {
				_, werr = pw.Write([]byte("hello "))
				if werr == nil {
					_, werr = pw.Write([]byte("world"))
				}
				pw.Close()
			},
			func() {
				buf := make([]byte, 4)
				for {
					n, err := pr.Read(buf)
					got = append(got, buf[:n]...)
					if err != nil {
						rerr = err
						return
					}
				}
			},
		}, func() string { return fmt.Sprintf("%s/%v/%v", got, rerr, werr) }
	}
	out, d, n := exploreAll(t, 2, mk)
	t.Logf("%d execs: %v", n, out)
	if d != 0 || len(out) != 1 || out[fmt.Sprintf("hello world/%v/%v", io.EOF, nil)] == 0 {
		t.Fatalf("unexpected: %v", out)
	}
	// reader closes early: writer gets ErrClosedPipe
	mk2 := func() ([]func(), func() string) {
		pr, pw := vsync.Pipe()
		var werr error
		return []func(){
			func() { _, werr = pw.Write([]byte("hello")) },
			func() { buf := make([]byte, 2); pr.Read(buf); pr.Close() },
		}, func() string { return fmt.Sprint(werr) }
	}
	out, d, _ = exploreAll(t, 2, mk2)
	if d != 0 || len(out) != 1 || out[io.ErrClosedPipe.Error()] == 0 {
		t.Fatalf("unexpected: %v", out)
	}
}

func TestWaitGroupOnce(t *testing.T) {
	mk := func() ([]func(), func() string) {
		var wg vsync.WaitGroup
		var once vsync.Once
		n := 0
		wg.Add(2)
		return []func(){
			func() { once.Do(func() { n++ }); wg.Done() },
			func() { once.Do(func() { n++ }); wg.Done() },
			func() { wg.Wait(); n += 10 },
		}, func() string { return fmt.Sprint(n) }
	}
	out, d, n := exploreAll(t, 2, mk)
	t.Logf("%d execs: %v", n, out)
	if d != 0 || len(out) != 1 || out["11"] == 0 {
		t.Fatalf("unexpected: %v", out)
	}
}

// Unmanaged use: the shims are plain primitives.
func TestUnmanaged(t *testing.T) {
	vsched.Reset()
	var mu vsync.Mutex
	var rw vsync.RWMutex
	var wg vsync.WaitGroup
	s := vsem.NewWeighted(1)
	x := 0
	for i := 0; i < 50; i++ {
		wg.Add(1)
		go func() {
			defer wg.Done()
			mu.Lock()
			x++
			mu.Unlock()
			rw.RLock()
			rw.RUnlock()
			rw.Lock()
			x++
			rw.Unlock()
			s.Acquire(context.Background(), 1)
			x++
			s.Release(1)
		}()
	}
	wg.Wait()
	if x != 150 {
		t.Fatalf("x=%d", x)
	}
	pr, pw := vsync.Pipe()
	go func() { pw.Write([]byte("abcdef")); pw.Close() }()
	b, err := io.ReadAll(pr)
	if err != nil || string(b) != "abcdef" {
		t.Fatalf("%q %v", b, err)
	}
}
