package vsync

import (
	"io/fs"
	"os"
	"path/filepath"
	"strings"

	"lsverif/vsched"
)

// File-system and SQL scheduling points (inserted by tools/rewrite with
// -fs-points / -sql-points). The wrappers have the signatures of the functions
// they replace: they add a scheduling point and call the real function.

func fsPoint(op, name string) {
	if t := vsched.Cur(); t != nil {
		obj := op + ":" + short(name)
		t.Point("fs", obj, nil, vsched.Preemptible("fs", obj))
	}
}

var pathRoot string

// SetPathRoot sets the directory (the scenario directory of the running execution) that is
// cut off file names in fs points, so that schedules read the same in every execution.
func SetPathRoot(dir string) { pathRoot = filepath.Clean(dir) + string(filepath.Separator) }

func short(p string) string {
	p = filepath.Clean(p)
	if pathRoot != "" && strings.HasPrefix(p, pathRoot) {
		return p[len(pathRoot):]
	}
	d, f := filepath.Split(p)
	return filepath.Join(filepath.Base(d), f)
}

func OsRename(a, b string) error                { fsPoint("rename", b); return os.Rename(a, b) }
func OsRemove(a string) error                   { fsPoint("remove", a); return os.Remove(a) }
func OsRemoveAll(a string) error                { fsPoint("removeall", a); return os.RemoveAll(a) }
func OsReadDir(a string) ([]os.DirEntry, error) { fsPoint("readdir", a); return os.ReadDir(a) }
func OsOpen(a string) (*os.File, error)         { fsPoint("open", a); return os.Open(a) }
func OsCreate(a string) (*os.File, error)       { fsPoint("create", a); return os.Create(a) }
func OsStat(a string) (os.FileInfo, error)      { fsPoint("stat", a); return os.Stat(a) }
func OsOpenFile(a string, flag int, perm fs.FileMode) (*os.File, error) {
	fsPoint("openfile", a)
	return os.OpenFile(a, flag, perm)
}

// P is the SQL scheduling point: the rewriter turns x.ExecContext(...) into
// vsync.P(x).ExecContext(...). It yields (kind "sql") and returns x unchanged.
func P[T any](x T, what string) T {
	if t := vsched.Cur(); t != nil {
		t.Point("sql", what, nil, vsched.Preemptible("sql", what))
	}
	return x
}
