package vsync

import (
	"io"
	"unsafe"

	"lsverif/vsched"
)

// pipe is the shared state of an io.Pipe replacement: a synchronous in-memory
// pipe; a Write blocks until one or more Reads consumed all of it or the read
// side was closed; a Read blocks until a Write is pending or the write side was
// closed.
type pipe struct {
	wbusy    bool   // a Write call is in progress (io.Pipe's wrMu)
	wpending bool   // that Write has offered data not yet fully consumed
	wbuf     []byte // the unconsumed part
	rerr     error  // set when the read side is closed
	werr     error  // set when the write side is closed
	rclosed  bool
	wclosed  bool
}

// PipeReader replaces io.PipeReader.
type PipeReader struct{ p *pipe }

// PipeWriter replaces io.PipeWriter.
type PipeWriter struct{ p *pipe }

// Pipe replaces io.Pipe.
func Pipe() (*PipeReader, *PipeWriter) {
	p := &pipe{}
	return &PipeReader{p}, &PipeWriter{p}
}

func (p *pipe) name() string { return vsched.NameOf(unsafe.Pointer(p), "pipe") }

func (p *pipe) readCloseError() error {
	if p.rclosed {
		return io.ErrClosedPipe
	}
	return p.werr
}

func (p *pipe) writeCloseError() error {
	if p.wclosed {
		return io.ErrClosedPipe
	}
	return p.rerr
}

func (p *pipe) read(b []byte) (int, error) {
	if t := vsched.Cur(); t != nil {
		n := p.name()
		t.Point("pipe.read", n, func() bool {
			big.Lock()
			defer big.Unlock()
			return p.wpending || p.rclosed || p.wclosed
		}, vsched.Preemptible("pipe.read", n))
		big.Lock()
	} else {
		big.Lock()
		for !(p.wpending || p.rclosed || p.wclosed) {
			cond.Wait()
		}
	}
	defer big.Unlock()
	if p.rclosed || p.wclosed {
		// io.Pipe checks done first; a Write cannot be pending once the writer
		// closed (Write returns before Close in the writing goroutine).
		if !(p.wpending && !p.rclosed && len(p.wbuf) > 0) {
			return 0, p.readCloseError()
		}
	}
	nr := copy(b, p.wbuf)
	p.wbuf = p.wbuf[nr:]
	if len(p.wbuf) == 0 {
		p.wpending = false
		cond.Broadcast()
	}
	return nr, nil
}

func (p *pipe) write(b []byte) (int, error) {
	t := vsched.Cur()
	var n string
	if t != nil {
		n = p.name()
		t.Point("pipe.write", n, func() bool {
			big.Lock()
			defer big.Unlock()
			return !p.wbusy || p.rclosed || p.wclosed
		}, vsched.Preemptible("pipe.write", n))
		big.Lock()
	} else {
		big.Lock()
		for p.wbusy && !p.rclosed && !p.wclosed {
			cond.Wait()
		}
	}
	if p.rclosed || p.wclosed {
		err := p.writeCloseError()
		big.Unlock()
		return 0, err
	}
	p.wbusy, p.wpending, p.wbuf = true, true, b
	total := len(b)
	cond.Broadcast()
	big.Unlock()

	if t != nil {
		t.Point("pipe.write-wait", n, func() bool {
			big.Lock()
			defer big.Unlock()
			return !p.wpending || p.rclosed || p.wclosed
		}, false)
		big.Lock()
	} else {
		big.Lock()
		for p.wpending && !p.rclosed && !p.wclosed {
			cond.Wait()
		}
	}
	defer big.Unlock()
	written := total - len(p.wbuf)
	stillPending := p.wpending
	p.wbusy, p.wpending, p.wbuf = false, false, nil
	cond.Broadcast()
	if stillPending {
		return written, p.writeCloseError()
	}
	return written, nil
}

func (p *pipe) closeRead(err error) error {
	if err == nil {
		err = io.ErrClosedPipe
	}
	big.Lock()
	if !p.rclosed {
		p.rclosed = true
		if p.rerr == nil {
			p.rerr = err
		}
	}
	cond.Broadcast()
	big.Unlock()
	return nil
}

func (p *pipe) closeWrite(err error) error {
	if err == nil {
		err = io.EOF
	}
	big.Lock()
	if !p.wclosed {
		p.wclosed = true
		if p.werr == nil {
			p.werr = err
		}
	}
	cond.Broadcast()
	big.Unlock()
	return nil
}

func (r *PipeReader) Read(b []byte) (int, error)     { return r.p.read(b) }
func (r *PipeReader) Close() error                   { return r.p.closeRead(nil) }
func (r *PipeReader) CloseWithError(err error) error { return r.p.closeRead(err) }

func (w *PipeWriter) Write(b []byte) (int, error)    { return w.p.write(b) }
func (w *PipeWriter) Close() error                   { return w.p.closeWrite(nil) }
func (w *PipeWriter) CloseWithError(err error) error { return w.p.closeWrite(err) }
