package vsync

import (
	"io"
	"unsafe"

	"lsverif/vsched"
)

// pipe is the shared state of an io.Pipe replacement: a synchronous in-memory
// pipe; a Write blocks until one or more Reads consumed all of it or the read
// side was closed; a Read blocks until a Write is pending or the write side was
// closed.
type pipe struct {
	wbusy    bool   // a Write call is in progress (io.Pipe's wrMu)
	wpending bool   // that Write has offered data not yet fully consumed
	wbuf     []byte // the unconsumed part
	rerr     error  // set when the read side is closed
	werr     error  // set when the write side is closed
	rclosed  bool
	wclosed  bool
	rthread  int // managed thread that last read / wrote (0 = unknown, else id+1)
	wthread  int
}

// PipeReader replaces io.PipeReader.
type PipeReader struct{ p *pipe }

// PipeWriter replaces io.PipeWriter.
type PipeWriter struct{ p *pipe }

// Pipe replaces io.Pipe.
func Pipe() (*PipeReader, *PipeWriter) {
	p := &pipe{}
	return &PipeReader{p}, &PipeWriter{p}
}

func (p *pipe) name() string { return vsched.NameOf(unsafe.Pointer(p), "pipe") }

// peer names the thread at the other end: the one that last used it, else the most recent
// child of the caller (the goroutine spawned to feed / drain the pipe), else none.
func (p *pipe) peer(t *vsched.Thread, other int) int {
	if other > 0 {
		return other - 1
	}
	return vsched.LastChild(t)
}

func (p *pipe) readCloseError() error {
	if p.rclosed {
		return io.ErrClosedPipe
	}
	return p.werr
}

func (p *pipe) writeCloseError() error {
	if p.wclosed {
		return io.ErrClosedPipe
	}
	return p.rerr
}

func (p *pipe) read(b []byte) (int, error) {
	if t := vsched.Cur(); t != nil {
		n := p.name()
		p.rthread = t.ID + 1
		pred := func() bool {
			big.Lock()
			defer big.Unlock()
			return p.wpending || p.rclosed || p.wclosed
		}
		if vsched.Preemptible("pipe.read", n) {
			t.Point("pipe.read", n, pred, true)
		} else {
			t.BlockPrefer("pipe.read", n, pred, p.peer(t, p.wthread))
		}
		big.Lock()
	} else {
		big.Lock()
		for !(p.wpending || p.rclosed || p.wclosed) {
			cond.Wait()
		}
	}
	defer big.Unlock()
	if p.rclosed {
		return 0, io.ErrClosedPipe
	}
	if !p.wpending {
		// write side closed and nothing offered (a Write returns before its
		// goroutine can close the writer, so no data is lost here)
		return 0, p.werr
	}
	nr := copy(b, p.wbuf)
	p.wbuf = p.wbuf[nr:]
	if len(p.wbuf) == 0 {
		p.wpending = false
		cond.Broadcast()
	}
	return nr, nil
}

func (p *pipe) write(b []byte) (int, error) {
	t := vsched.Cur()
	var n string
	if t != nil {
		n = p.name()
		p.wthread = t.ID + 1
		t.Point("pipe.write", n, func() bool {
			big.Lock()
			defer big.Unlock()
			return !p.wbusy || p.rclosed || p.wclosed
		}, vsched.Preemptible("pipe.write", n))
		big.Lock()
	} else {
		big.Lock()
		for p.wbusy && !p.rclosed && !p.wclosed {
			cond.Wait()
		}
	}
	if p.rclosed || p.wclosed {
		err := p.writeCloseError()
		big.Unlock()
		return 0, err
	}
	p.wbusy, p.wpending, p.wbuf = true, true, b
	total := len(b)
	cond.Broadcast()
	big.Unlock()

	if t != nil {
		t.BlockPrefer("pipe.write-wait", n, func() bool {
			big.Lock()
			defer big.Unlock()
			return !p.wpending || p.rclosed || p.wclosed
		}, p.peer(t, p.rthread))
		big.Lock()
	} else {
		big.Lock()
		for p.wpending && !p.rclosed && !p.wclosed {
			cond.Wait()
		}
	}
	defer big.Unlock()
	written := total - len(p.wbuf)
	stillPending := p.wpending
	p.wbusy, p.wpending, p.wbuf = false, false, nil
	cond.Broadcast()
	if stillPending {
		return written, p.writeCloseError()
	}
	return written, nil
}

func (p *pipe) closeRead(err error) error {
	if err == nil {
		err = io.ErrClosedPipe
	}
	big.Lock()
	if !p.rclosed {
		p.rclosed = true
		if p.rerr == nil {
			p.rerr = err
		}
	}
	cond.Broadcast()
	big.Unlock()
	return nil
}

func (p *pipe) closeWrite(err error) error {
	if err == nil {
		err = io.EOF
	}
	big.Lock()
	if !p.wclosed {
		p.wclosed = true
		if p.werr == nil {
			p.werr = err
		}
	}
	cond.Broadcast()
	big.Unlock()
	return nil
}

func (r *PipeReader) Read(b []byte) (int, error)     { return r.p.read(b) }
func (r *PipeReader) Close() error                   { return r.p.closeRead(nil) }
func (r *PipeReader) CloseWithError(err error) error { return r.p.closeRead(err) }

func (w *PipeWriter) Write(b []byte) (int, error)    { return w.p.write(b) }
func (w *PipeWriter) Close() error                   { return w.p.closeWrite(nil) }
func (w *PipeWriter) CloseWithError(err error) error { return w.p.closeWrite(err) }
