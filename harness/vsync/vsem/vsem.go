// Package vsem replaces golang.org/x/sync/semaphore for the C12 build.
package vsem

import (
	"context"
	"fmt"
	"unsafe"

	"lsverif/vsched"
	"lsverif/vsync"
)

// Weighted mirrors semaphore.Weighted. Semantics kept from x/sync v0.21:
// Acquire on a context that is already done fails with ctx.Err() even when the
// semaphore is free; a blocked Acquire whose context becomes done wakes with
// ctx.Err(); a waiter that is woken by a release and finds its context done
// gives the tokens back and fails. FIFO hand-off is not modelled (see vsync).
type Weighted struct {
	size    int64
	cur     int64
	holders []int
}

// NewWeighted creates a semaphore with the given capacity.
func NewWeighted(n int64) *Weighted { return &Weighted{size: n} }

func (s *Weighted) name() string {
	n := vsched.NameOf(unsafe.Pointer(s), "sem")
	vsync.Track(unsafe.Pointer(s), func() string {
		big, _ := vsync.Big()
		big.Lock()
		defer big.Unlock()
		if s.cur > 0 {
			return fmt.Sprintf("%s held x%d by %v", n, s.cur, s.holders)
		}
		return ""
	})
	return n
}

// Name names a semaphore and registers it in the lock table.
func Name(s *Weighted, name string) {
	vsched.SetName(unsafe.Pointer(s), name)
	s.name()
}

// Held reports the number of tokens currently taken.
func (s *Weighted) Held() int64 {
	big, _ := vsync.Big()
	big.Lock()
	defer big.Unlock()
	return s.cur
}

func (s *Weighted) Acquire(ctx context.Context, n int64) error {
	big, cond := vsync.Big()
	if t := vsched.Cur(); t != nil {
		nm := s.name()
		if n > s.size {
			t.Point("acquire", nm, func() bool { return ctx.Err() != nil }, vsched.Preemptible("acquire", nm))
			return ctx.Err()
		}
		t.Point("acquire", nm, func() bool {
			if ctx.Err() != nil {
				return true
			}
			big.Lock()
			defer big.Unlock()
			return s.size-s.cur >= n
		}, vsched.Preemptible("acquire", nm))
		if err := ctx.Err(); err != nil {
			return err
		}
		big.Lock()
		if s.size-s.cur < n {
			big.Unlock()
			panic("vsem: semaphore taken while its waiter was resumed: " + nm)
		}
		s.cur += n
		s.holders = append(s.holders, t.ID)
		big.Unlock()
		return nil
	}
	// Unmanaged caller: real blocking; cancellation is polled through a helper goroutine.
	if err := ctx.Err(); err != nil {
		return err
	}
	big.Lock()
	if s.size-s.cur >= n {
		s.cur += n
		s.holders = append(s.holders, -1)
		big.Unlock()
		return nil
	}
	stop := make(chan struct{})
	defer close(stop)
	if done := ctx.Done(); done != nil {
		go func() {
			select {
			case <-done:
				big.Lock()
				cond.Broadcast()
				big.Unlock()
			case <-stop:
			}
		}()
	}
	for s.size-s.cur < n {
		if err := ctx.Err(); err != nil {
			big.Unlock()
			return err
		}
		cond.Wait()
	}
	if err := ctx.Err(); err != nil {
		big.Unlock()
		return err
	}
	s.cur += n
	s.holders = append(s.holders, -1)
	big.Unlock()
	return nil
}

func (s *Weighted) TryAcquire(n int64) bool {
	big, _ := vsync.Big()
	t := vsched.Cur()
	id := -1
	if t != nil {
		nm := s.name()
		t.Point("tryacquire", nm, nil, vsched.Preemptible("tryacquire", nm))
		id = t.ID
	}
	big.Lock()
	defer big.Unlock()
	if s.size-s.cur >= n {
		s.cur += n
		s.holders = append(s.holders, id)
		return true
	}
	return false
}

func (s *Weighted) Release(n int64) {
	big, cond := vsync.Big()
	big.Lock()
	s.cur -= n
	if s.cur < 0 {
		big.Unlock()
		panic("semaphore: released more than held")
	}
	if len(s.holders) > 0 {
		// forget one holder: the caller's entry if present, else the oldest
		id := -1
		if t := vsched.CurQuiet(); t != nil {
			id = t.ID
		}
		idx := 0
		for i, h := range s.holders {
			if h == id {
				idx = i
				break
			}
		}
		s.holders = append(s.holders[:idx], s.holders[idx+1:]...)
	}
	cond.Broadcast()
	big.Unlock()
}
