// Package ev writes evidence files, violation replays and handles known findings.
package ev

import (
	"crypto/sha256"
	"encoding/hex"
	"encoding/json"
	"fmt"
	"os"
	"path/filepath"
	"regexp"
	"sort"
	"strconv"
	"sync"
	"time"
)

// Root is the /verif directory.
func Root() string {
	if r := os.Getenv("VERIF_ROOT"); r != "" {
		return r
	}
	return "/verif"
}

// Tier returns "quick" or "thorough".
func Tier() string {
	if t := os.Getenv("VERIF_TIER"); t == "thorough" {
		return "thorough"
	}
	return "quick"
}

// Seed returns VERIF_SEED (default 0). It only permutes enumeration order.
func Seed() int64 {
	n, _ := strconv.ParseInt(os.Getenv("VERIF_SEED"), 10, 64)
	return n
}

// Evidence mirrors EVIDENCE.schema.json.
type Evidence struct {
	PropertyID  string         `json:"property_id"`
	Tier        string         `json:"tier"`
	Seed        int64          `json:"seed"`
	Level       string         `json:"level"`
	Coverage    map[string]any `json:"coverage"`
	Assumptions []string       `json:"assumptions,omitempty"`
	WallS       float64        `json:"wall_s"`
	Violations  int            `json:"violations"`
}

// Write writes /verif/evidence/<id>.json.
func Write(e *Evidence) error {
	// A run that evaluated nothing has decided nothing: it must not leave a passing record behind.
	if n, ok := asInt(e.Coverage["evaluations"]); ok && n < 1 && e.Violations == 0 {
		return fmt.Errorf("HARNESS ERROR (no verdict): %s evaluated nothing (coverage.evaluations = 0)", e.PropertyID)
	}
	dir := filepath.Join(Root(), "evidence")
	if err := os.MkdirAll(dir, 0o755); err != nil {
		return err
	}
	b, err := json.MarshalIndent(e, "", " ")
	if err != nil {
		return err
	}
	return os.WriteFile(filepath.Join(dir, e.PropertyID+".json"), append(b, '\n'), 0o644)
}

func asInt(v any) (int64, bool) {
	switch x := v.(type) {
	case int:
		return int64(x), true
	case int64:
		return x, true
	case int32:
		return int64(x), true
	case uint64:
		return int64(x), true
	case float64:
		return int64(x), true
	}
	return 0, false
}

// Finding is an entry of known_findings.json.
type Finding struct {
	Status   string `json:"status"` // "known" or "fixed"
	Property string `json:"property"`
	Tag      string `json:"tag"`
	Kind     string `json:"kind"`    // violation kind this finding explains
	Pattern  string `json:"pattern"` // regexp over the violation's canonical signature
	What     string `json:"what"`
	Commit   string `json:"commit,omitempty"`
	re       *regexp.Regexp
}

var (
	findingsOnce sync.Once
	findings     []*Finding
)

func loadFindings() {
	b, err := os.ReadFile(filepath.Join(Root(), "known_findings.json"))
	if err != nil {
		return
	}
	var doc struct {
		Findings []*Finding `json:"findings"`
	}
	if err := json.Unmarshal(b, &doc); err != nil {
		fmt.Fprintf(os.Stderr, "known_findings.json: %v\n", err)
		os.Exit(2)
	}
	for _, f := range doc.Findings {
		if f.Status != "known" {
			continue // fixed entries suppress nothing
		}
		re, err := regexp.Compile(f.Pattern)
		if err != nil {
			fmt.Fprintf(os.Stderr, "known_findings.json: bad pattern %q: %v\n", f.Pattern, err)
			os.Exit(2)
		}
		f.re = re
		findings = append(findings, f)
	}
}

// Violation is one property violation found by a check.
type Violation struct {
	Property  string `json:"property"`
	Kind      string `json:"kind"`      // short class, e.g. "restore-differs"
	Signature string `json:"signature"` // canonical, used for known-finding matching: kind + config class + history
	Detail    any    `json:"detail"`    // everything needed to replay
}

// Reporter collects violations of one check run.
type Reporter struct {
	Property string
	mu       sync.Mutex
	known    map[string]int // tag -> count
	knownMsg map[string]string
	unknown  []*Violation
	paths    []string
}

func NewReporter(property string) *Reporter {
	findingsOnce.Do(loadFindings)
	return &Reporter{Property: property, known: map[string]int{}, knownMsg: map[string]string{}}
}

// Report classifies a violation as known finding or new violation. Returns true if new.
func (r *Reporter) Report(v *Violation) bool {
	r.mu.Lock()
	defer r.mu.Unlock()
	v.Property = r.Property
	for _, f := range findings {
		if f.Property == r.Property && (f.Kind == "" || f.Kind == v.Kind) && f.re.MatchString(v.Signature) {
			r.known[f.Tag]++
			r.knownMsg[f.Tag] = f.What
			return false
		}
	}
	r.unknown = append(r.unknown, v)
	return true
}

// Unknown returns the number of non-listed violations so far.
func (r *Reporter) Unknown() int {
	r.mu.Lock()
	defer r.mu.Unlock()
	return len(r.unknown)
}

// KnownCount returns how many violations matched listed findings.
func (r *Reporter) KnownCount() int {
	r.mu.Lock()
	defer r.mu.Unlock()
	n := 0
	for _, c := range r.known {
		n += c
	}
	return n
}

// Finish prints KNOWN-FINDING / VIOLATION lines, writes replay files and
// returns the process exit code.
func (r *Reporter) Finish() int {
	r.mu.Lock()
	defer r.mu.Unlock()
	tags := make([]string, 0, len(r.known))
	for t := range r.known {
		tags = append(tags, t)
	}
	sort.Strings(tags)
	for _, t := range tags {
		fmt.Printf("KNOWN-FINDING: property=%s %s: %s (reproduced %d times)\n", r.Property, t, r.knownMsg[t], r.known[t])
	}
	if len(r.unknown) == 0 {
		return 0
	}
	// Smallest signature first: shortest counterexample leads.
	sort.SliceStable(r.unknown, func(i, j int) bool {
		if len(r.unknown[i].Signature) != len(r.unknown[j].Signature) {
			return len(r.unknown[i].Signature) < len(r.unknown[j].Signature)
		}
		return r.unknown[i].Signature < r.unknown[j].Signature
	})
	if f := os.Getenv("LSMC_DUMP_SIGS"); f != "" {
		var sb []byte
		for _, v := range r.unknown {
			sb = append(sb, (v.Signature + "\n")...)
		}
		os.WriteFile(f, sb, 0o644)
	}
	dir := filepath.Join(Root(), "replays", r.Property)
	os.MkdirAll(dir, 0o755)
	max := 10
	for i, v := range r.unknown {
		if i >= max {
			break
		}
		b, _ := json.MarshalIndent(v, "", " ")
		h := sha256.Sum256(b)
		p := filepath.Join(dir, hex.EncodeToString(h[:6])+".json")
		os.WriteFile(p, append(b, '\n'), 0o644)
		fmt.Printf("VIOLATION property=%s replay=%s\n", r.Property, p)
		fmt.Printf("  kind=%s signature=%s\n", v.Kind, v.Signature)
	}
	if len(r.unknown) > max {
		fmt.Printf("  (+%d further violations not written)\n", len(r.unknown)-max)
	}
	return 1
}

// Timer measures wall time.
type Timer struct{ t0 time.Time }

func Start() Timer                   { return Timer{time.Now()} }
func (t Timer) S() float64           { return float64(time.Since(t.t0).Milliseconds()) / 1000 }
func (t Timer) Since() time.Duration { return time.Since(t.t0) }

// Budget returns the internal time budget for the tier; overridable with LSMC_BUDGET_S.
func Budget(quick, thorough time.Duration) time.Duration {
	if s := os.Getenv("LSMC_BUDGET_S"); s != "" {
		if n, err := strconv.Atoi(s); err == nil {
			return time.Duration(n) * time.Second
		}
	}
	if Tier() == "thorough" {
		return thorough
	}
	return quick
}
