// Package vclock is the clock seam of the C20 check. tools/build.sh compiles litestream's lease code (leaser.go,
// s3/leaser.go) from copies in which time.Now / time.Until / time.Since are replaced by the functions below
// (go build -overlay; /repo itself is untouched). While the clock is real (the default) they ARE the time package's
// functions; once Freeze is called every reading returns the same fixed instant, so "a lease with 500 ms left" stays
// exactly that for a whole execution, however long the machine stalls.
package vclock

import (
	"sync/atomic"
	"time"
)

// Base is the frozen instant: far enough in the future that code which bypasses the seam (reads the real clock)
// disagrees with it by decades, which the check's self-test detects.
var Base = time.Date(2100, 1, 1, 0, 0, 0, 0, time.UTC)

var frozen atomic.Bool

// Freeze switches every later reading to Base; Thaw switches back to the real clock.
func Freeze()      { frozen.Store(true) }
func Thaw()        { frozen.Store(false) }
func Frozen() bool { return frozen.Load() }

func Now() time.Time {
	if frozen.Load() {
		return Base
	}
	return time.Now()
}

func Until(t time.Time) time.Duration { return t.Sub(Now()) }
func Since(t time.Time) time.Duration { return Now().Sub(t) }
