#!/usr/bin/env python3
"""Validate MANIFEST.json and every evidence file against the schemas in /root/.vp (run with python3-vt)."""
import json, glob, sys, jsonschema
ok = True
try:
    jsonschema.validate(json.load(open('/verif/MANIFEST.json')), json.load(open('/root/.vp/MANIFEST.schema.json')))
    print('MANIFEST ok')
except Exception as e:
    ok = False; print('MANIFEST INVALID:', str(e)[:400])
es = json.load(open('/root/.vp/EVIDENCE.schema.json'))
for f in sorted(glob.glob('/verif/evidence/*.json')):
    try:
        jsonschema.validate(json.load(open(f)), es); print(f, 'ok')
    except Exception as e:
        ok = False; print(f, 'INVALID:', str(e)[:400])
sys.exit(0 if ok else 1)
