/*
 * killat - ptrace supervisor that records / counts file-system-mutating
 * system calls issued inside one directory tree by a tracee (all threads and
 * children), and can SIGKILL the whole tracee immediately before the K-th one.
 *
 *   killat record <tracefile> <rootdir> -- <cmd> [args...]
 *   killat count  <rootdir> -- <cmd> [args...]
 *   killat kill <K> <rootdir> -- <cmd> [args...]
 *
 * x86_64 Linux only.  Nothing is ever written to stdout; diagnostics go to
 * stderr prefixed "killat: ".  Exit status: the main tracee's status (or
 * 128+signal); 99 when the tracee was killed before call #K; 98 on killat's
 * own errors.
 *
 * Recorded calls (counted ones + close + read-only open inside rootdir) are
 * SERIALISED: while one is in flight (between its entry and exit stop) any
 * other thread arriving at the entry of a recorded call is held stopped.
 * Hence the global sequence is a total order of non-overlapping calls, trace
 * lines are emitted in order at the exit stop, and "kill K" leaves exactly
 * the effects of counted calls 1..K-1.
 *
 * Trace line: "<seq|-> <tid> <name> <key=value ...> = <ret>", ret is the
 * result or -errno, "?" if the thread died inside the call.  "-" marks the
 * recorded-but-not-counted calls (close, read-only open).
 *
 * Environment (testing aids): KILLAT_STATS=1 prints a stats line at the end;
 * KILLAT_NO_SYSCALL_INFO=1 forces the GETREGS entry/exit toggle instead of
 * PTRACE_GET_SYSCALL_INFO.
 *
 * Build: gcc -O2 -Wall -o killat killat.c
 */
#define _GNU_SOURCE
#include <errno.h>
#include <fcntl.h>
#include <limits.h>
#include <signal.h>
#include <stdarg.h>
#include <stdint.h>
#include <stdio.h>
#include <stdlib.h>
#include <string.h>
#include <unistd.h>
#include <sys/ptrace.h>
#include <sys/stat.h>
#include <sys/syscall.h>
#include <sys/types.h>
#include <sys/uio.h>
#include <sys/user.h>
#include <sys/wait.h>

#ifndef SYS_renameat2
#define SYS_renameat2 316
#endif
#ifndef SYS_copy_file_range
#define SYS_copy_file_range 326
#endif
#ifndef SYS_pwritev2
#define SYS_pwritev2 328
#endif
#ifndef SYS_io_uring_setup
#define SYS_io_uring_setup 425
#endif
#ifndef SYS_openat2
#define SYS_openat2 437
#endif
#ifndef SYS_fchmodat2
#define SYS_fchmodat2 452
#endif
#ifndef AT_REMOVEDIR
#define AT_REMOVEDIR 0x200
#endif

#define MY_PTRACE_GET_SYSCALL_INFO 0x420e
struct my_syscall_info {
	uint8_t op; /* 0 none, 1 entry, 2 exit, 3 seccomp */
	uint8_t pad[3];
	uint32_t arch;
	uint64_t ip, sp;
	union {
		struct { uint64_t nr; uint64_t args[6]; } entry;
		struct { int64_t rval; uint8_t is_error; } exit;
		struct { uint64_t nr; uint64_t args[6]; uint32_t ret_data; } seccomp;
	};
};

#define EXIT_KILLED 99
#define EXIT_ERROR 98
#define PBUF (2 * PATH_MAX + 16)
#define DETMAX 40000

enum { MODE_RECORD, MODE_COUNT, MODE_KILL, MODE_FAIL };

struct sc {
	int entry;
	long nr;
	unsigned long a[6];
	long ret;
};

struct rec {
	int recorded, counted;
	int cfr_fd; /* copy_file_range: output descriptor (-1 otherwise) */
	long seq;
	const char *name;
	int len;
	char details[DETMAX];
};

struct tstate {
	pid_t tid, tgid;
	int need_initial_stop; /* auto-attach SIGSTOP not yet swallowed */
	int in_syscall;        /* toggle, used only without GET_SYSCALL_INFO */
	int held;              /* stopped at entry, queued for the gate */
	int have_pending;      /* recorded call in flight (owns the gate) */
	int fail_pending;      /* MODE_FAIL: this call was turned into a no-op, its result is forged at the exit stop */
	int cfr_open;          /* the thread's previous counted call was a copy_file_range ... */
	int cfr_fd;            /* ... onto this descriptor */
	struct rec pending;
};

static int mode;
static long kill_k;
static long fail_errno; /* MODE_FAIL: the K-th counted call does not execute and returns -fail_errno */
static char rootdir[PATH_MAX];
static size_t rootlen;
static FILE *trace;
static long counter;
static pid_t main_pid;
static int main_status = 1;
static int use_info = 1;

static struct tstate **ts;
static int nts, capts;
static pid_t gate_tid;
static pid_t *queue;
static int nq, capq;
static long stat_held, stat_tids, stat_stops;

static void die(const char *fmt, ...)
{
	va_list ap;
	va_start(ap, fmt);
	fprintf(stderr, "killat: ");
	vfprintf(stderr, fmt, ap);
	fprintf(stderr, "\n");
	va_end(ap);
	if (main_pid > 0)
		kill(main_pid, SIGKILL);
	exit(EXIT_ERROR);
}

static void warn_once(long nr, const char *name)
{
	static unsigned char seen[1024];
	if (nr < 0 || nr >= 1024 || seen[nr])
		return;
	seen[nr] = 1;
	fprintf(stderr, "killat: warning: undecoded possibly-mutating syscall %s (%ld); not counted\n", name, nr);
}

/* ---------- per-tid state ---------- */

static struct tstate *find(pid_t tid)
{
	for (int i = 0; i < nts; i++)
		if (ts[i]->tid == tid)
			return ts[i];
	return NULL;
}

static pid_t read_tgid(pid_t tid)
{
	char p[64], line[256];
	pid_t tg = tid;
	snprintf(p, sizeof p, "/proc/%d/status", tid);
	FILE *f = fopen(p, "re");
	if (!f)
		return tid;
	while (fgets(line, sizeof line, f))
		if (!strncmp(line, "Tgid:", 5)) {
			tg = atoi(line + 5);
			break;
		}
	fclose(f);
	return tg > 0 ? tg : tid;
}

static struct tstate *add(pid_t tid)
{
	if (nts == capts) {
		capts = capts ? capts * 2 : 64;
		ts = realloc(ts, capts * sizeof *ts);
		if (!ts)
			die("out of memory");
	}
	struct tstate *t = calloc(1, sizeof *t);
	if (!t)
		die("out of memory");
	t->tid = tid;
	t->tgid = read_tgid(tid);
	ts[nts++] = t;
	stat_tids++;
	return t;
}

static void enqueue(pid_t tid)
{
	if (nq == capq) {
		capq = capq ? capq * 2 : 64;
		queue = realloc(queue, capq * sizeof *queue);
		if (!queue)
			die("out of memory");
	}
	queue[nq++] = tid;
}

static void release_gate(void);

static void drop(struct tstate *t)
{
	int had_gate = (gate_tid == t->tid);
	if (t->have_pending && trace) {
		/* thread died (exit_group/kill by a sibling) inside a recorded call */
		struct rec *p = &t->pending;
		if (p->counted)
			fprintf(trace, "%ld %d %s %s = ?\n", p->seq, t->tid, p->name, p->details);
		else
			fprintf(trace, "- %d %s %s = ?\n", t->tid, p->name, p->details);
	}
	for (int i = 0; i < nq; i++)
		if (queue[i] == t->tid) {
			memmove(queue + i, queue + i + 1, (nq - i - 1) * sizeof *queue);
			nq--;
			i--;
		}
	for (int i = 0; i < nts; i++)
		if (ts[i] == t) {
			ts[i] = ts[--nts];
			break;
		}
	free(t);
	if (had_gate) {
		gate_tid = 0;
		release_gate();
	}
}

static void resume(struct tstate *t, int sig)
{
	if (ptrace(PTRACE_SYSCALL, t->tid, 0, (void *)(long)sig) < 0 && errno != ESRCH)
		fprintf(stderr, "killat: PTRACE_SYSCALL %d: %s\n", t->tid, strerror(errno));
}

/* ---------- reading tracee memory / proc ---------- */

static long read_mem(pid_t tid, unsigned long addr, void *buf, size_t len)
{
	struct iovec l = { buf, len }, r = { (void *)addr, len };
	ssize_t n = process_vm_readv(tid, &l, 1, &r, 1, 0);
	if (n > 0)
		return n;
	size_t got = 0;
	while (got < len) {
		unsigned long a = addr + got, base = a & ~7UL;
		errno = 0;
		long w = ptrace(PTRACE_PEEKDATA, tid, (void *)base, 0);
		if (w == -1 && errno)
			break;
		size_t off = a - base, c = 8 - off;
		if (c > len - got)
			c = len - got;
		memcpy((char *)buf + got, (char *)&w + off, c);
		got += c;
	}
	return got ? (long)got : -1;
}

/* returns string length, or -1 */
static long read_str(pid_t tid, unsigned long addr, char *buf, size_t max)
{
	size_t got = 0;
	if (!addr)
		return -1;
	while (got < max - 1) {
		size_t chunk = 4096 - ((addr + got) & 4095);
		if (chunk > max - 1 - got)
			chunk = max - 1 - got;
		long n = read_mem(tid, addr + got, buf + got, chunk);
		if (n <= 0)
			return -1;
		char *z = memchr(buf + got, 0, n);
		if (z)
			return z - buf;
		got += n;
		if ((size_t)n < chunk)
			return -1;
	}
	return -1;
}

/* lexical normalisation of an absolute path, in place */
static void normalise(char *p)
{
	char *src = p, *dst = p;
	while (*src) {
		while (*src == '/')
			src++;
		if (!*src)
			break;
		char *e = src;
		while (*e && *e != '/')
			e++;
		size_t n = e - src;
		if (n == 1 && src[0] == '.') {
		} else if (n == 2 && src[0] == '.' && src[1] == '.') {
			while (dst > p && *--dst != '/')
				;
		} else {
			*dst++ = '/';
			memmove(dst, src, n);
			dst += n;
		}
		src = e;
	}
	if (dst == p)
		*dst++ = '/';
	*dst = 0;
}

static int inside(const char *p)
{
	if (rootlen == 1)
		return p[0] == '/';
	if (strncmp(p, rootdir, rootlen))
		return 0;
	return p[rootlen] == 0 || p[rootlen] == '/';
}

static int proc_link(pid_t tid, const char *what, int fd, char *out)
{
	char p[64];
	if (fd >= 0)
		snprintf(p, sizeof p, "/proc/%d/fd/%d", tid, fd);
	else
		snprintf(p, sizeof p, "/proc/%d/%s", tid, what);
	ssize_t n = readlink(p, out, PATH_MAX - 1);
	if (n <= 0)
		return -1;
	out[n] = 0;
	static const char del[] = " (deleted)";
	size_t dl = sizeof del - 1;
	if ((size_t)n > dl && !strcmp(out + n - dl, del))
		out[n - dl] = 0;
	return out[0] == '/' ? 0 : -1;
}

static int fd_path(pid_t tid, int fd, char *out)
{
	if (fd < 0)
		return -1;
	return proc_link(tid, NULL, fd, out);
}

static int fd_isdir(pid_t tid, int fd)
{
	char p[64];
	struct stat sb;
	snprintf(p, sizeof p, "/proc/%d/fd/%d", tid, fd);
	return stat(p, &sb) == 0 && S_ISDIR(sb.st_mode);
}

static void fd_pos(pid_t tid, int fd, long long *pos, int *flags)
{
	char p[64], line[128];
	*pos = -1;
	*flags = 0;
	snprintf(p, sizeof p, "/proc/%d/fdinfo/%d", tid, fd);
	FILE *f = fopen(p, "re");
	if (!f)
		return;
	while (fgets(line, sizeof line, f)) {
		if (!strncmp(line, "pos:", 4))
			*pos = strtoll(line + 4, NULL, 10);
		else if (!strncmp(line, "flags:", 6))
			*flags = (int)strtol(line + 6, NULL, 8);
	}
	fclose(f);
}

/* resolve (dirfd, user string) to a normalised absolute path; addr==0 means
 * the object dirfd itself. */
static int resolve_at(pid_t tid, int dirfd, unsigned long addr, char *out)
{
	char s[PATH_MAX];
	long n = 0;
	s[0] = 0;
	if (addr) {
		n = read_str(tid, addr, s, sizeof s);
		if (n < 0)
			return -1;
	}
	if (s[0] == '/') {
		memcpy(out, s, n + 1);
	} else {
		char base[PATH_MAX];
		int r = (dirfd == AT_FDCWD) ? proc_link(tid, "cwd", -1, base) : fd_path(tid, dirfd, base);
		if (r < 0)
			return -1;
		snprintf(out, PBUF, "%s/%s", base, s);
	}
	normalise(out);
	return 0;
}

/* ---------- building the details string ---------- */

static void ap(struct rec *r, const char *fmt, ...)
{
	va_list v;
	va_start(v, fmt);
	int room = DETMAX - r->len;
	int n = vsnprintf(r->details + r->len, room, fmt, v);
	va_end(v);
	if (n >= room)
		n = room - 1;
	if (n > 0)
		r->len += n;
}

static void ap_path(struct rec *r, const char *key, const char *p)
{
	ap(r, "%s%s=", r->len ? " " : "", key);
	for (; *p; p++) {
		unsigned char c = *p;
		if (c <= 0x20 || c == 0x7f || c == '\\')
			ap(r, "\\x%02x", c);
		else
			ap(r, "%c", c);
	}
}

static void ap_oflags(struct rec *r, int f)
{
	static const char *acc[] = { "O_RDONLY", "O_WRONLY", "O_RDWR", "O_ACCMODE" };
	static const struct { int v; const char *n; } tab[] = {
		{ O_CREAT, "O_CREAT" }, { O_EXCL, "O_EXCL" }, { O_TRUNC, "O_TRUNC" },
		{ O_APPEND, "O_APPEND" }, { O_NOCTTY, "O_NOCTTY" }, { O_NONBLOCK, "O_NONBLOCK" },
		{ 04010000, "O_SYNC" }, { 010000, "O_DSYNC" }, { 040000, "O_DIRECT" },
		{ 0100000, "O_LARGEFILE" }, { 020200000, "O_TMPFILE" }, { 0200000, "O_DIRECTORY" },
		{ 0400000, "O_NOFOLLOW" }, { 01000000, "O_NOATIME" }, { 02000000, "O_CLOEXEC" },
		{ 010000000, "O_PATH" },
	};
	ap(r, " flags=%s", acc[f & 3]);
	f &= ~3;
	for (size_t i = 0; i < sizeof tab / sizeof tab[0]; i++)
		if ((f & tab[i].v) == tab[i].v) {
			ap(r, "|%s", tab[i].n);
			f &= ~tab[i].v;
		}
	if (f)
		ap(r, "|0x%x", f);
}

static void done(struct rec *r, const char *name, int counted)
{
	r->recorded = 1;
	r->counted = counted;
	r->name = name;
}

/* emits "fd=N path=P [isdir=1]" if fd resolves inside rootdir */
static int ap_fd(struct rec *r, pid_t tid, int fd)
{
	char p[PATH_MAX];
	if (fd_path(tid, fd, p) < 0 || !inside(p))
		return -1;
	ap(r, "fd=%d", fd);
	ap_path(r, "path", p);
	if (fd_isdir(tid, fd))
		ap(r, " isdir=1");
	return 0;
}

static void ap_pos(struct rec *r, pid_t tid, int fd)
{
	long long pos;
	int fl;
	fd_pos(tid, fd, &pos, &fl);
	ap(r, " pos=%lld", pos);
	if (fl & O_APPEND)
		ap(r, " append=1");
}

static unsigned long iov_total(pid_t tid, unsigned long addr, unsigned long cnt)
{
	struct iovec iov[64];
	unsigned long tot = 0;
	if (cnt > 1024)
		cnt = 1024;
	while (cnt) {
		unsigned long c = cnt > 64 ? 64 : cnt;
		if (read_mem(tid, addr, iov, c * sizeof iov[0]) != (long)(c * sizeof iov[0]))
			break;
		for (unsigned long i = 0; i < c; i++)
			tot += iov[i].iov_len;
		addr += c * sizeof iov[0];
		cnt -= c;
	}
	return tot;
}

static void dec_open(struct rec *r, const char *name, pid_t tid, int dirfd, unsigned long addr,
		     int flags, unsigned mode)
{
	char p[PBUF];
	if (resolve_at(tid, dirfd, addr, p) < 0 || !inside(p))
		return;
	ap_path(r, "path", p);
	ap_oflags(r, flags);
	if ((flags & O_CREAT) || (flags & 020200000) == 020200000)
		ap(r, " mode=%#o", mode & 07777);
	done(r, name, (flags & (O_CREAT | O_TRUNC | O_WRONLY | O_RDWR | O_APPEND)) != 0);
}

/* one path argument */
static int dec_path1(struct rec *r, const char *name, pid_t tid, int dirfd, unsigned long addr)
{
	char p[PBUF];
	if (resolve_at(tid, dirfd, addr, p) < 0 || !inside(p))
		return -1;
	ap_path(r, "path", p);
	done(r, name, 1);
	return 0;
}

/* old/new path pair; counted if either lies inside rootdir */
static int dec_path2(struct rec *r, const char *name, pid_t tid, int fd1, unsigned long a1, int fd2,
		     unsigned long a2)
{
	char p1[PBUF], p2[PBUF];
	if (resolve_at(tid, fd1, a1, p1) < 0 || resolve_at(tid, fd2, a2, p2) < 0)
		return -1;
	if (!inside(p1) && !inside(p2))
		return -1;
	ap_path(r, "old", p1);
	ap_path(r, "new", p2);
	done(r, name, 1);
	return 0;
}

static void dec_symlink(struct rec *r, const char *name, pid_t tid, unsigned long target, int dirfd,
			unsigned long linkpath)
{
	char p[PBUF], t[PATH_MAX];
	if (resolve_at(tid, dirfd, linkpath, p) < 0 || !inside(p))
		return;
	if (read_str(tid, target, t, sizeof t) < 0)
		t[0] = 0;
	ap_path(r, "target", t);
	ap_path(r, "path", p);
	done(r, name, 1);
}

static void decode(struct tstate *t, const struct sc *s, struct rec *r)
{
	pid_t tid = t->tid;
	const unsigned long *a = s->a;
	r->recorded = r->counted = 0;
	r->cfr_fd = -1;
	r->seq = 0;
	r->name = NULL;
	r->len = 0;
	r->details[0] = 0;

	switch (s->nr) {
	case SYS_open:
		dec_open(r, "open", tid, AT_FDCWD, a[0], (int)a[1], (unsigned)a[2]);
		break;
	case SYS_creat:
		dec_open(r, "creat", tid, AT_FDCWD, a[0], O_CREAT | O_WRONLY | O_TRUNC, (unsigned)a[1]);
		break;
	case SYS_openat:
		dec_open(r, "openat", tid, (int)a[0], a[1], (int)a[2], (unsigned)a[3]);
		break;
	case SYS_openat2: {
		uint64_t how[3] = { 0, 0, 0 };
		if (read_mem(tid, a[2], how, sizeof how) >= 16)
			dec_open(r, "openat2", tid, (int)a[0], a[1], (int)how[0], (unsigned)how[1]);
		break;
	}
	case SYS_close:
		if (ap_fd(r, tid, (int)a[0]) == 0)
			done(r, "close", 0);
		break;
	case SYS_write:
		if (ap_fd(r, tid, (int)a[0]) == 0) {
			ap_pos(r, tid, (int)a[0]);
			ap(r, " len=%lu", a[2]);
			done(r, "write", 1);
		}
		break;
	case SYS_pwrite64:
		if (ap_fd(r, tid, (int)a[0]) == 0) {
			ap(r, " off=%ld len=%lu", (long)a[3], a[2]);
			done(r, "pwrite64", 1);
		}
		break;
	case SYS_writev:
		if (ap_fd(r, tid, (int)a[0]) == 0) {
			ap_pos(r, tid, (int)a[0]);
			ap(r, " len=%lu iovcnt=%lu", iov_total(tid, a[1], a[2]), a[2]);
			done(r, "writev", 1);
		}
		break;
	case SYS_pwritev:
	case SYS_pwritev2:
		if (ap_fd(r, tid, (int)a[0]) == 0) {
			if ((long)a[3] == -1)
				ap_pos(r, tid, (int)a[0]);
			else
				ap(r, " off=%ld", (long)a[3]);
			ap(r, " len=%lu iovcnt=%lu", iov_total(tid, a[1], a[2]), a[2]);
			if (s->nr == SYS_pwritev2)
				ap(r, " flags=0x%x", (unsigned)a[5]);
			done(r, s->nr == SYS_pwritev ? "pwritev" : "pwritev2", 1);
		}
		break;
	case SYS_ftruncate:
		if (ap_fd(r, tid, (int)a[0]) == 0) {
			ap(r, " len=%ld", (long)a[1]);
			done(r, "ftruncate", 1);
		}
		break;
	case SYS_truncate:
		if (dec_path1(r, "truncate", tid, AT_FDCWD, a[0]) == 0)
			ap(r, " len=%ld", (long)a[1]);
		break;
	case SYS_fallocate:
		if (ap_fd(r, tid, (int)a[0]) == 0) {
			ap(r, " mode=0x%x off=%ld len=%ld", (unsigned)a[1], (long)a[2], (long)a[3]);
			done(r, "fallocate", 1);
		}
		break;
	case SYS_rename:
		dec_path2(r, "rename", tid, AT_FDCWD, a[0], AT_FDCWD, a[1]);
		break;
	case SYS_renameat:
		dec_path2(r, "renameat", tid, (int)a[0], a[1], (int)a[2], a[3]);
		break;
	case SYS_renameat2:
		if (dec_path2(r, "renameat2", tid, (int)a[0], a[1], (int)a[2], a[3]) == 0) {
			unsigned f = (unsigned)a[4];
			if (f == 0)
				ap(r, " flags=0");
			else if (f == 1)
				ap(r, " flags=RENAME_NOREPLACE");
			else if (f == 2)
				ap(r, " flags=RENAME_EXCHANGE");
			else
				ap(r, " flags=0x%x", f);
		}
		break;
	case SYS_unlink:
		dec_path1(r, "unlink", tid, AT_FDCWD, a[0]);
		break;
	case SYS_unlinkat:
		if (dec_path1(r, "unlinkat", tid, (int)a[0], a[1]) == 0) {
			unsigned f = (unsigned)a[2];
			if (f == 0)
				ap(r, " flags=0");
			else if (f == AT_REMOVEDIR)
				ap(r, " flags=AT_REMOVEDIR");
			else
				ap(r, " flags=0x%x", f);
		}
		break;
	case SYS_mkdir:
		if (dec_path1(r, "mkdir", tid, AT_FDCWD, a[0]) == 0)
			ap(r, " mode=%#o", (unsigned)a[1] & 07777);
		break;
	case SYS_mkdirat:
		if (dec_path1(r, "mkdirat", tid, (int)a[0], a[1]) == 0)
			ap(r, " mode=%#o", (unsigned)a[2] & 07777);
		break;
	case SYS_rmdir:
		dec_path1(r, "rmdir", tid, AT_FDCWD, a[0]);
		break;
	case SYS_fsync:
	case SYS_fdatasync:
		if (ap_fd(r, tid, (int)a[0]) == 0)
			done(r, s->nr == SYS_fsync ? "fsync" : "fdatasync", 1);
		break;
	case SYS_sync_file_range:
		if (ap_fd(r, tid, (int)a[0]) == 0) {
			ap(r, " off=%ld len=%ld flags=0x%x", (long)a[1], (long)a[2], (unsigned)a[3]);
			done(r, "sync_file_range", 1);
		}
		break;
	case SYS_fchmod:
		if (ap_fd(r, tid, (int)a[0]) == 0) {
			ap(r, " mode=%#o", (unsigned)a[1] & 07777);
			done(r, "fchmod", 1);
		}
		break;
	case SYS_chmod:
		if (dec_path1(r, "chmod", tid, AT_FDCWD, a[0]) == 0)
			ap(r, " mode=%#o", (unsigned)a[1] & 07777);
		break;
	case SYS_fchmodat:
	case SYS_fchmodat2:
		if (dec_path1(r, s->nr == SYS_fchmodat ? "fchmodat" : "fchmodat2", tid, (int)a[0], a[1]) == 0)
			ap(r, " mode=%#o", (unsigned)a[2] & 07777);
		break;
	case SYS_fchown:
		if (ap_fd(r, tid, (int)a[0]) == 0) {
			ap(r, " uid=%d gid=%d", (int)a[1], (int)a[2]);
			done(r, "fchown", 1);
		}
		break;
	case SYS_chown:
	case SYS_lchown:
		if (dec_path1(r, s->nr == SYS_chown ? "chown" : "lchown", tid, AT_FDCWD, a[0]) == 0)
			ap(r, " uid=%d gid=%d", (int)a[1], (int)a[2]);
		break;
	case SYS_fchownat:
		if (dec_path1(r, "fchownat", tid, (int)a[0], a[1]) == 0)
			ap(r, " uid=%d gid=%d flags=0x%x", (int)a[2], (int)a[3], (unsigned)a[4]);
		break;
	case SYS_utimensat:
		if (dec_path1(r, "utimensat", tid, (int)a[0], a[1]) == 0)
			ap(r, " flags=0x%x", (unsigned)a[3]);
		break;
	case SYS_utimes:
		dec_path1(r, "utimes", tid, AT_FDCWD, a[0]);
		break;
	case SYS_futimesat:
		dec_path1(r, "futimesat", tid, (int)a[0], a[1]);
		break;
	case SYS_link:
		dec_path2(r, "link", tid, AT_FDCWD, a[0], AT_FDCWD, a[1]);
		break;
	case SYS_linkat:
		if (dec_path2(r, "linkat", tid, (int)a[0], a[1], (int)a[2], a[3]) == 0)
			ap(r, " flags=0x%x", (unsigned)a[4]);
		break;
	case SYS_symlink:
		dec_symlink(r, "symlink", tid, a[0], AT_FDCWD, a[1]);
		break;
	case SYS_symlinkat:
		dec_symlink(r, "symlinkat", tid, a[0], (int)a[1], a[2]);
		break;
	case SYS_copy_file_range:
		if (ap_fd(r, tid, (int)a[2]) == 0) {
			char p[PATH_MAX];
			ap(r, " infd=%d", (int)a[0]);
			if (fd_path(tid, (int)a[0], p) == 0)
				ap_path(r, "inpath", p);
			ap(r, " len=%lu", a[4]);
			r->cfr_fd = (int)a[2];
			done(r, "copy_file_range", 1);
		}
		break;

	/* not decoded: warn once so the framework knows its count is incomplete */
	case SYS_sendfile: {
		char p[PATH_MAX];
		if (fd_path(tid, (int)a[0], p) == 0 && inside(p))
			warn_once(s->nr, "sendfile");
		break;
	}
	case SYS_splice: {
		char p[PATH_MAX];
		if (fd_path(tid, (int)a[2], p) == 0 && inside(p))
			warn_once(s->nr, "splice");
		break;
	}
	case SYS_sync: warn_once(s->nr, "sync"); break;
	case SYS_syncfs: warn_once(s->nr, "syncfs"); break;
	case SYS_msync: warn_once(s->nr, "msync"); break;
	case SYS_mknod: warn_once(s->nr, "mknod"); break;
	case SYS_mknodat: warn_once(s->nr, "mknodat"); break;
	case SYS_setxattr: warn_once(s->nr, "setxattr"); break;
	case SYS_lsetxattr: warn_once(s->nr, "lsetxattr"); break;
	case SYS_fsetxattr: warn_once(s->nr, "fsetxattr"); break;
	case SYS_removexattr: warn_once(s->nr, "removexattr"); break;
	case SYS_lremovexattr: warn_once(s->nr, "lremovexattr"); break;
	case SYS_fremovexattr: warn_once(s->nr, "fremovexattr"); break;
	case SYS_io_uring_setup: warn_once(s->nr, "io_uring_setup"); break;
	default:
		break;
	}
}

/* ---------- syscall stops ---------- */

static int get_sc(struct tstate *t, struct sc *s)
{
	if (use_info) {
		struct my_syscall_info in;
		memset(&in, 0, sizeof in);
		long n = ptrace(MY_PTRACE_GET_SYSCALL_INFO, t->tid, (void *)sizeof in, &in);
		if (n >= 0 && (in.op == 1 || in.op == 2)) {
			s->entry = in.op == 1;
			if (s->entry) {
				s->nr = (long)in.entry.nr;
				for (int i = 0; i < 6; i++)
					s->a[i] = in.entry.args[i];
				s->ret = 0;
			} else {
				s->nr = -1;
				s->ret = (long)in.exit.rval;
			}
			return 0;
		}
		if (n < 0 && errno == ESRCH)
			return -1;
		if (n < 0 && (errno == EIO || errno == EINVAL)) {
			fprintf(stderr, "killat: PTRACE_GET_SYSCALL_INFO unavailable, using entry/exit toggle\n");
			use_info = 0;
		} else if (n >= 0) {
			return -1; /* op none/seccomp: not a syscall stop we understand */
		}
	}
	struct user_regs_struct regs;
	if (ptrace(PTRACE_GETREGS, t->tid, 0, &regs) < 0)
		return -1;
	t->in_syscall = !t->in_syscall;
	s->entry = t->in_syscall;
	s->nr = (long)regs.orig_rax;
	s->a[0] = regs.rdi;
	s->a[1] = regs.rsi;
	s->a[2] = regs.rdx;
	s->a[3] = regs.r10;
	s->a[4] = regs.r8;
	s->a[5] = regs.r9;
	s->ret = (long)regs.rax;
	return 0;
}

static void do_kill(struct tstate *t, const struct rec *r) __attribute__((noreturn));
static void do_kill(struct tstate *t, const struct rec *r)
{
	/* belt and braces: turn the stopped call into an invalid syscall so it
	 * cannot execute even if the thread were somehow resumed */
	struct user_regs_struct regs;
	if (ptrace(PTRACE_GETREGS, t->tid, 0, &regs) == 0) {
		regs.orig_rax = (unsigned long long)-1;
		ptrace(PTRACE_SETREGS, t->tid, 0, &regs);
	}
	for (int i = 0; i < nts; i++) {
		kill(ts[i]->tgid, SIGKILL);
		kill(ts[i]->tid, SIGKILL); /* signals the whole thread group too */
	}
	for (;;) {
		int st;
		pid_t p = waitpid(-1, &st, __WALL);
		if (p < 0) {
			if (errno == EINTR)
				continue;
			break;
		}
		if (WIFSTOPPED(st))
			kill(p, SIGKILL); /* late auto-attached child: never resume it */
	}
	fprintf(stderr, "killat: killed before #%ld %s %s\n", r->seq, r->name, r->details);
	exit(EXIT_KILLED);
}

/* t is stopped at the entry of recorded call r and the gate is free */
static void admit(struct tstate *t, struct rec *r)
{
	/* A copy loop (Go's io.Copy between two files) issues copy_file_range until it returns 0; whether the data goes
	 * in one call plus a terminating empty one, or in one call alone, varies from run to run. The calls of one loop
	 * count as ONE kill point (the first): the later ones are traced uncounted, so indices stay stable. */
	if (r->counted && r->cfr_fd >= 0) {
		if (t->cfr_open && t->cfr_fd == r->cfr_fd)
			r->counted = 0;
		t->cfr_open = 1;
		t->cfr_fd = r->cfr_fd;
	} else if (r->counted) {
		t->cfr_open = 0;
	}
	if (r->counted) {
		r->seq = ++counter;
		if (mode == MODE_KILL && r->seq == kill_k)
			do_kill(t, r);
		if (mode == MODE_FAIL && r->seq == kill_k) {
			/* fault injection: replace the call by an invalid one (it does not execute) and
			 * forge its result at the exit stop */
			struct user_regs_struct regs;
			if (ptrace(PTRACE_GETREGS, t->tid, 0, &regs) == 0) {
				regs.orig_rax = (unsigned long long)-1;
				if (ptrace(PTRACE_SETREGS, t->tid, 0, &regs) == 0)
					t->fail_pending = 1;
			}
			if (!t->fail_pending)
				die("fail: cannot rewrite call #%ld", r->seq);
			fprintf(stderr, "killat: failing #%ld %s %s with errno %ld\n", r->seq, r->name, r->details, fail_errno);
		}
	}
	t->pending = *r;
	t->have_pending = 1;
	t->held = 0;
	gate_tid = t->tid;
	resume(t, 0);
}

static void release_gate(void)
{
	static struct rec r;
	while (!gate_tid && nq) {
		pid_t tid = queue[0];
		memmove(queue, queue + 1, (--nq) * sizeof *queue);
		struct tstate *t = find(tid);
		if (!t)
			continue;
		/* still stopped at syscall entry: re-read the arguments and decode
		 * again, the fd table / cwd may have changed while it was held */
		struct sc s;
		int ok;
		if (use_info) {
			ok = get_sc(t, &s) == 0 && s.entry;
		} else {
			struct user_regs_struct regs;
			ok = ptrace(PTRACE_GETREGS, t->tid, 0, &regs) == 0;
			if (ok) {
				s.entry = 1;
				s.nr = (long)regs.orig_rax;
				s.a[0] = regs.rdi; s.a[1] = regs.rsi; s.a[2] = regs.rdx;
				s.a[3] = regs.r10; s.a[4] = regs.r8; s.a[5] = regs.r9;
			}
		}
		t->held = 0;
		if (!ok)
			continue; /* died while held; waitpid will report it */
		decode(t, &s, &r);
		if (r.recorded)
			admit(t, &r);
		else
			resume(t, 0);
	}
}

static void on_syscall_stop(struct tstate *t)
{
	static struct rec r;
	struct sc s;
	if (get_sc(t, &s) < 0) {
		if (errno != ESRCH)
			resume(t, 0);
		return;
	}
	if (s.entry) {
		decode(t, &s, &r);
		if (!r.recorded) {
			resume(t, 0);
		} else if (gate_tid) {
			stat_held++;
			t->held = 1;
			enqueue(t->tid);
		} else {
			admit(t, &r);
		}
		return;
	}
	/* exit stop */
	if (t->have_pending) {
		struct rec *p = &t->pending;
		if (t->fail_pending) {
			struct user_regs_struct regs;
			if (ptrace(PTRACE_GETREGS, t->tid, 0, &regs) == 0) {
				regs.rax = (unsigned long long)(-fail_errno);
				ptrace(PTRACE_SETREGS, t->tid, 0, &regs);
			}
			s.ret = -fail_errno;
			t->fail_pending = 0;
		}
		if (s.ret <= -512 && s.ret >= -516)
			fprintf(stderr, "killat: warning: #%ld %s returned ERESTART (%ld); the restart will be counted again\n",
				p->seq, p->name, s.ret);
		if (trace) {
			if (p->counted)
				fprintf(trace, "%ld %d %s %s = %ld\n", p->seq, t->tid, p->name, p->details, s.ret);
			else
				fprintf(trace, "- %d %s %s = %ld\n", t->tid, p->name, p->details, s.ret);
		}
		t->have_pending = 0;
		if (gate_tid == t->tid)
			gate_tid = 0;
	}
	resume(t, 0);
	release_gate();
}

static void on_exec(struct tstate *t)
{
	unsigned long old = 0;
	ptrace(PTRACE_GETEVENTMSG, t->tid, 0, &old);
	/* every other thread of this process is gone; the exec'ing thread now
	 * has tid == tgid */
	for (int i = 0; i < nts;) {
		struct tstate *o = ts[i];
		if (o != t && (o->tgid == t->tid || o->tid == (pid_t)old)) {
			drop(o);
			i = 0;
		} else {
			i++;
		}
	}
	/* if a non-leader exec'ed, t is the dead leader's state: clear it */
	for (int i = 0; i < nq; i++)
		if (queue[i] == t->tid) {
			memmove(queue + i, queue + i + 1, (nq - i - 1) * sizeof *queue);
			nq--;
			i--;
		}
	t->tgid = t->tid;
	t->in_syscall = 1; /* the execve exit stop follows */
	t->need_initial_stop = 0;
	t->held = 0;
	t->have_pending = 0;
	if (gate_tid == t->tid) {
		gate_tid = 0;
		release_gate();
	}
}

static void usage(void)
{
	fprintf(stderr,
		"killat: usage:\n"
		"  killat record <tracefile> <rootdir> -- <cmd> [args...]\n"
		"  killat count <rootdir> -- <cmd> [args...]\n"
		"  killat kill <K> <rootdir> -- <cmd> [args...]\n"
		"  killat fail <K> <errno> <tracefile> <rootdir> -- <cmd> [args...]\n");
	exit(EXIT_ERROR);
}

int main(int argc, char **argv)
{
	const char *tracefile = NULL, *rootarg;
	int i = 2;
	if (argc < 2)
		usage();
	if (!strcmp(argv[1], "record")) {
		mode = MODE_RECORD;
		if (argc < 6)
			usage();
		tracefile = argv[i++];
	} else if (!strcmp(argv[1], "count")) {
		mode = MODE_COUNT;
		if (argc < 5)
			usage();
	} else if (!strcmp(argv[1], "kill")) {
		mode = MODE_KILL;
		if (argc < 6)
			usage();
		char *e;
		kill_k = strtol(argv[i++], &e, 10);
		if (*e || kill_k < 1)
			die("kill: K must be an integer >= 1");
	} else if (!strcmp(argv[1], "fail")) {
		mode = MODE_FAIL;
		if (argc < 8)
			usage();
		char *e;
		kill_k = strtol(argv[i++], &e, 10);
		if (*e || kill_k < 1)
			die("fail: K must be an integer >= 1");
		fail_errno = strtol(argv[i++], &e, 10);
		if (*e || fail_errno < 1 || fail_errno > 4095)
			die("fail: errno must be an integer in 1..4095");
		tracefile = argv[i++];
	} else {
		usage();
	}
	rootarg = argv[i++];
	if (i >= argc || strcmp(argv[i], "--") || i + 1 >= argc)
		usage();
	char **cmd = argv + i + 1;
	if (!realpath(rootarg, rootdir))
		die("rootdir %s: %s", rootarg, strerror(errno));
	rootlen = strlen(rootdir);
	if (tracefile) {
		trace = fopen(tracefile, "we");
		if (!trace)
			die("cannot open %s: %s", tracefile, strerror(errno));
		setvbuf(trace, NULL, _IOLBF, 0);
	}
	signal(SIGPIPE, SIG_IGN);
	if (getenv("KILLAT_NO_SYSCALL_INFO")) /* testing aid: force the GETREGS toggle path */
		use_info = 0;

	pid_t pid = fork();
	if (pid < 0)
		die("fork: %s", strerror(errno));
	if (pid == 0) {
		signal(SIGPIPE, SIG_DFL);
		if (ptrace(PTRACE_TRACEME, 0, 0, 0) < 0) {
			fprintf(stderr, "killat: PTRACE_TRACEME: %s\n", strerror(errno));
			_exit(127);
		}
		raise(SIGSTOP);
		execvp(cmd[0], cmd);
		fprintf(stderr, "killat: exec %s: %s\n", cmd[0], strerror(errno));
		_exit(127);
	}
	main_pid = pid;
	int st;
	if (waitpid(pid, &st, __WALL) < 0 || !WIFSTOPPED(st))
		die("child did not stop");
	if (ptrace(PTRACE_SETOPTIONS, pid, 0,
		   (void *)(long)(PTRACE_O_TRACESYSGOOD | PTRACE_O_TRACECLONE | PTRACE_O_TRACEFORK |
				  PTRACE_O_TRACEVFORK | PTRACE_O_TRACEEXEC | PTRACE_O_EXITKILL)) < 0)
		die("PTRACE_SETOPTIONS: %s", strerror(errno));
	struct tstate *t = add(pid);
	resume(t, 0);

	for (;;) {
		pid_t tid = waitpid(-1, &st, __WALL);
		if (tid < 0) {
			if (errno == EINTR)
				continue;
			if (errno == ECHILD)
				break;
			die("waitpid: %s", strerror(errno));
		}
		t = find(tid);
		if (WIFEXITED(st) || WIFSIGNALED(st)) {
			if (tid == main_pid)
				main_status = WIFEXITED(st) ? WEXITSTATUS(st) : 128 + WTERMSIG(st);
			if (t)
				drop(t);
			continue;
		}
		if (!WIFSTOPPED(st))
			continue;
		if (!t) {
			/* new thread/child seen before its parent's clone event */
			t = add(tid);
			t->need_initial_stop = 1;
		}
		int sig = WSTOPSIG(st);
		unsigned ev = (unsigned)st >> 16;
		if (ev) {
			if (ev == PTRACE_EVENT_CLONE || ev == PTRACE_EVENT_FORK || ev == PTRACE_EVENT_VFORK) {
				unsigned long nt = 0;
				if (ptrace(PTRACE_GETEVENTMSG, tid, 0, &nt) == 0 && nt && !find((pid_t)nt))
					add((pid_t)nt)->need_initial_stop = 1;
			} else if (ev == PTRACE_EVENT_EXEC) {
				on_exec(t);
			}
			resume(t, 0);
			continue;
		}
		if (sig == (SIGTRAP | 0x80)) {
			stat_stops++;
			on_syscall_stop(t);
			continue;
		}
		if (t->need_initial_stop && sig == SIGSTOP) {
			t->need_initial_stop = 0;
			t->tgid = read_tgid(tid);
			resume(t, 0);
			continue;
		}
		/* signal-delivery stop: forward (Go needs its SIGURG etc.) */
		resume(t, sig);
	}

	if (trace)
		fclose(trace);
	fprintf(stderr, "killat: finished with %ld counted calls\n", counter);
	if (getenv("KILLAT_STATS"))
		fprintf(stderr, "killat: stats tids=%ld syscall_stops=%ld held_at_gate=%ld\n", stat_tids, stat_stops,
			stat_held);
	return main_status;
}
