/* selftest helper: chelper <rootdir> <outside-file>
 * main thread:  write outside file + stdout, then in rootdir (cwd): create
 *               ./a.tmp, write 3 chunks, fsync, close
 * 2nd thread:   rename a.tmp -> a, open rootdir, fsync it, unlinkat(dirfd,"a"),
 *               close dirfd, write to stdout
 * Raw syscalls are used so the syscall names in the trace are fixed. */
#define _GNU_SOURCE
#include <fcntl.h>
#include <pthread.h>
#include <stdio.h>
#include <stdlib.h>
#include <string.h>
#include <unistd.h>
#include <sys/stat.h>
#include <sys/syscall.h>

static const char *root;

static void ck(long r, const char *what)
{
	if (r < 0) {
		perror(what);
		exit(3);
	}
}

static void *second(void *arg)
{
	(void)arg;
	char newp[4096]; /* "../<rootname>//./a": exercises lexical normalisation */
	snprintf(newp, sizeof newp, "../%s//./a", strrchr(root, '/') + 1);
	ck(syscall(SYS_rename, "a.tmp", newp), "rename");
	int d = (int)syscall(SYS_openat, AT_FDCWD, root, O_RDONLY | O_DIRECTORY);
	ck(d, "open dir");
	ck(syscall(SYS_fsync, d), "fsync dir");
	ck(syscall(SYS_unlinkat, d, "a", 0), "unlinkat");
	ck(syscall(SYS_close, d), "close dir");
	ck(syscall(SYS_write, 1, "thread out\n", 11), "stdout");
	return NULL;
}

int main(int argc, char **argv)
{
	if (argc != 3)
		return 2;
	root = argv[1];
	int o = (int)syscall(SYS_openat, AT_FDCWD, argv[2], O_WRONLY | O_CREAT | O_TRUNC, 0644);
	ck(o, "open outside");
	ck(syscall(SYS_write, o, "outside\n", 8), "write outside");
	ck(syscall(SYS_fsync, o), "fsync outside");
	ck(syscall(SYS_close, o), "close outside");
	ck(syscall(SYS_write, 1, "hello from chelper\n", 19), "stdout");
	ck(chdir(root), "chdir");
	ck(mkdir("/dev/null/x", 0755) == -1 ? 0 : -1, "mkdir outside should fail");
	int fd = (int)syscall(SYS_openat, AT_FDCWD, "./a.tmp", O_WRONLY | O_CREAT | O_TRUNC, 0644);
	ck(fd, "open a.tmp");
	ck(syscall(SYS_write, fd, "AAAAA\n", 6), "write1");
	ck(syscall(SYS_write, fd, "BBBBB\n", 6), "write2");
	ck(syscall(SYS_write, fd, "CCCCC\n", 6), "write3");
	ck(syscall(SYS_fsync, fd), "fsync");
	ck(syscall(SYS_close, fd), "close");
	pthread_t th;
	if (pthread_create(&th, NULL, second, NULL))
		return 4;
	pthread_join(th, NULL);
	return 0;
}
