/* selftest helper: stress <rootdir>
 * 4 unsynchronised threads each create t<i> (O_APPEND) and write 50 single
 * bytes, while the main thread posix_spawn()s `sh -c 'echo hi > child'`
 * (vfork+exec child process).  Every counted call adds exactly one "unit" of
 * visible effect, so after `kill K` the units present must equal K-1. */
#define _GNU_SOURCE
#include <fcntl.h>
#include <pthread.h>
#include <spawn.h>
#include <stdio.h>
#include <stdlib.h>
#include <unistd.h>
#include <sys/wait.h>

extern char **environ;
static const char *root;

static void *worker(void *arg)
{
	char p[4096];
	snprintf(p, sizeof p, "%s/t%ld", root, (long)arg);
	int fd = open(p, O_WRONLY | O_CREAT | O_APPEND, 0644);
	if (fd < 0)
		exit(3);
	for (int i = 0; i < 50; i++)
		if (write(fd, "x", 1) != 1)
			exit(3);
	close(fd);
	return NULL;
}

int main(int argc, char **argv)
{
	pthread_t th[4];
	if (argc != 2 || chdir(argv[1]))
		return 2;
	root = argv[1];
	for (long i = 0; i < 4; i++)
		pthread_create(&th[i], NULL, worker, (void *)i);
	pid_t pid;
	char *av[] = { "sh", "-c", "echo hi > child", NULL };
	if (posix_spawn(&pid, "/bin/sh", NULL, NULL, av, environ))
		return 4;
	int st;
	waitpid(pid, &st, 0);
	for (int i = 0; i < 4; i++)
		pthread_join(th[i], NULL);
	return WIFEXITED(st) ? WEXITSTATUS(st) : 5;
}
