module gohelper

go 1.23
