// selftest helper: gohelper <rootdir>. Echoes stdin lines to stdout; on "go"
// four goroutines (each on its own OS thread) take turns to create, write,
// fsync and rename their own file in rootdir; "quit" exits.
package main

import (
	"bufio"
	"fmt"
	"os"
	"path/filepath"
	"runtime"
	"sync"
)

func check(err error) {
	if err != nil {
		fmt.Fprintln(os.Stderr, "gohelper:", err)
		os.Exit(3)
	}
}

func work(root string) {
	var mu sync.Mutex
	cond := sync.NewCond(&mu)
	turn := 0
	var wg sync.WaitGroup
	for i := 0; i < 4; i++ {
		wg.Add(1)
		go func(i int) {
			defer wg.Done()
			runtime.LockOSThread()
			mu.Lock()
			defer mu.Unlock()
			for turn != i {
				cond.Wait()
			}
			name := filepath.Join(root, fmt.Sprintf("f%d", i))
			f, err := os.Create(name + ".tmp")
			check(err)
			_, err = f.WriteString(fmt.Sprintf("data %d\n", i))
			check(err)
			check(f.Sync())
			check(f.Close())
			check(os.Rename(name+".tmp", name))
			turn++
			cond.Broadcast()
		}(i)
	}
	wg.Wait()
}

func main() {
	in := bufio.NewScanner(os.Stdin)
	for in.Scan() {
		line := in.Text()
		fmt.Println("echo:", line)
		switch line {
		case "go":
			work(os.Args[1])
			fmt.Println("done")
		case "quit":
			return
		}
	}
}
