#!/bin/bash
# killat self-test. Builds killat + helpers, prints PASS/FAIL lines, exits
# non-zero on any failure. Scratch: /dev/shm/killat-dev/selftest.$$ (removed).
set -u
HERE=$(cd "$(dirname "$0")" && pwd)
BASE=/dev/shm/killat-dev
S=$BASE/selftest.$$
KILLAT=$HERE/killat
fail=0
pass() { echo "PASS: $*"; }
bad() { echo "FAIL: $*"; fail=1; }
check() { # check <description> <actual> <expected>
	if [ "$2" == "$3" ]; then pass "$1"; else bad "$1"; echo "  expected: $3"; echo "  actual:   $2"; fi
}
T_LAST=$(date +%s%N)
section() { # section <title>: print title and how long the previous section took
	local now; now=$(date +%s%N)
	[ -n "${SECNAME:-}" ] && echo "   (section took $(((now - T_LAST) / 1000000)) ms)"
	T_LAST=$now; SECNAME=$1
	echo "== $1"
}
cleanup() { rm -rf "$S"; rmdir "$BASE" 2>/dev/null; }
trap cleanup EXIT
mkdir -p "$S" || exit 1

make -s -C "$HERE" killat || { echo "FAIL: build killat"; exit 1; }
gcc -O1 -Wall -pthread -o "$S/chelper" "$HERE/testdata/chelper.c" || { echo "FAIL: build chelper"; exit 1; }
gcc -O1 -Wall -pthread -o "$S/stress" "$HERE/testdata/stress.c" || { echo "FAIL: build stress"; exit 1; }

# normalise a trace: rootdir -> R, tid -> T, fd numbers -> F
norm() { # norm <trace> <rootdir>
	sed -E -e "s#$2#R#g" -e 's/^([0-9]+|-) [0-9]+ /\1 T /' -e 's/fd=[0-9]+/fd=F/g' \
		-e '/ (open|openat|creat) /s/= [0-9]+$/= F/' "$1"
}
# describe the regular files of a directory: "name:content-with-|-for-newline;" sorted
state() {
	local d=$1 f out=""
	for f in $(ls -A "$d" | sort); do out+="$f:$(tr '\n' '|' <"$d/$f");"; done
	echo "$out"
}

############################################################################
section "1. record C helper (2 threads)"
T=$S/t1; R=$T/root; mkdir -p "$R" "$T/out"
"$KILLAT" record "$T/trace" "$R" -- "$S/chelper" "$R" "$T/out/outside.txt" >"$T/stdout" 2>"$T/stderr"
check "record: exit status 0" "$?" "0"
read -r -d '' EXPECT <<'EOF'
1 T openat path=R/a.tmp flags=O_WRONLY|O_CREAT|O_TRUNC mode=0644 = F
2 T write fd=F path=R/a.tmp pos=0 len=6 = 6
3 T write fd=F path=R/a.tmp pos=6 len=6 = 6
4 T write fd=F path=R/a.tmp pos=12 len=6 = 6
5 T fsync fd=F path=R/a.tmp = 0
- T close fd=F path=R/a.tmp = 0
6 T rename old=R/a.tmp new=R/a = 0
- T openat path=R flags=O_RDONLY|O_DIRECTORY = F
7 T fsync fd=F path=R isdir=1 = 0
8 T unlinkat path=R/a flags=0 = 0
- T close fd=F path=R isdir=1 = 0
EOF
check "record: trace is exactly the expected sequence (outside file, stdout, failed outside mkdir not recorded)" \
	"$(norm "$T/trace" "$R")" "$EXPECT"
check "record: two distinct tids in trace" "$(awk '{print $2}' "$T/trace" | sort -u | wc -l)" "2"
check "record: tracee stdout passed through, killat wrote nothing to stdout" \
	"$(cat "$T/stdout")" "hello from chelper"$'\n'"thread out"
check "record: stderr summary" "$(cat "$T/stderr")" "killat: finished with 8 counted calls"
check "record: outside file written" "$(cat "$T/out/outside.txt")" "outside"
"$KILLAT" count "$R" -- "$S/chelper" "$R" "$T/out/outside.txt" >/dev/null 2>"$T/stderr2"
check "count: stderr summary" "$(cat "$T/stderr2")" "killat: finished with 8 counted calls"

############################################################################
section "2. kill K for every K (C helper)"
A='AAAAA|'; B='BBBBB|'; C='CCCCC|'
expstate=("" "" "a.tmp:;" "a.tmp:$A;" "a.tmp:$A$B;" "a.tmp:$A$B$C;" "a.tmp:$A$B$C;" "a:$A$B$C;" "a:$A$B$C;")
expname=("" openat write write write fsync rename fsync unlinkat)
for K in 1 2 3 4 5 6 7 8; do
	T=$S/t2.$K; R=$T/root; mkdir -p "$R" "$T/out"
	"$KILLAT" kill $K "$R" -- "$S/chelper" "$R" "$T/out/outside.txt" >"$T/stdout" 2>"$T/stderr"
	rc=$?
	msg=$(sed -E "s#$R#R#g" "$T/stderr" | cut -d' ' -f1-5)
	got="rc=$rc state=$(state "$R") outside=$(cat "$T/out/outside.txt" 2>&1) msg=$msg"
	want="rc=99 state=${expstate[$K]} outside=outside msg=killat: killed before #$K ${expname[$K]}"
	check "kill $K: call #$K (${expname[$K]}) did not execute, calls 1..$((K - 1)) did" "$got" "$want"
done
T=$S/t2.9; R=$T/root; mkdir -p "$R" "$T/out"
"$KILLAT" kill 9 "$R" -- "$S/chelper" "$R" "$T/out/outside.txt" >/dev/null 2>"$T/stderr"
check "kill 9 (> N): tracee finishes normally" "rc=$? state=$(state "$R") $(cat "$T/stderr")" \
	"rc=0 state= killat: finished with 8 counted calls"
"$KILLAT" count "$S" -- sh -c 'exit 7' 2>/dev/null
check "exit status of tracee is propagated" "$?" "7"
"$KILLAT" count "$S" -- sh -c 'kill -TERM $$' 2>/dev/null
check "signal death is reported as 128+sig" "$?" "143"

############################################################################
section "3. Go helper (goroutines on 4 locked OS threads, stdio passthrough)"
GH=$S/gohelper
(cd "$HERE/testdata/gohelper" && GOFLAGS=-mod=mod GOPROXY=off go build -o "$GH" .) || bad "go build gohelper"
if [ -x "$GH" ]; then
	for i in 1 2; do
		R=$S/t3.$i; mkdir -p "$R"
		t0=$(date +%s%N)
		printf 'ping\ngo\nquit\n' | "$KILLAT" record "$S/t3.trace$i" "$R" -- "$GH" "$R" >"$S/t3.out$i" 2>"$S/t3.err$i"
		rc=$?
		t1=$(date +%s%N)
		[ $i == 1 ] && rec_ms=$(((t1 - t0) / 1000000))
		check "go record $i: exit 0 and stdin/stdout passthrough" "rc=$rc $(tr '\n' ',' <"$S/t3.out$i")" \
			"rc=0 echo: ping,echo: go,done,echo: quit,"
	done
	N=$(awk '$1!="-"' "$S/t3.trace1" | wc -l)
	check "go record: 16 counted calls (4 x openat,write,fsync,renameat)" \
		"$N $(cat "$S/t3.err1")" "16 killat: finished with 16 counted calls"
	check "go record: two runs give identical normalised traces" \
		"$(norm "$S/t3.trace1" "$S/t3.1")" "$(norm "$S/t3.trace2" "$S/t3.2")"
	check "go record: counted seqs are 1..N in file order" \
		"$(awk '$1!="-"{n++; if ($1!=n) print "bad", $0}' "$S/t3.trace1")" ""
	check "go record: more than one tid issues calls" \
		"$([ "$(awk '{print $2}' "$S/t3.trace1" | sort -u | wc -l)" -ge 2 ] && echo yes)" "yes"
	allok=1
	for K in $(seq 1 "$N"); do
		R=$S/t3k.$K; mkdir -p "$R"
		printf 'ping\ngo\nquit\n' | "$KILLAT" kill "$K" "$R" -- "$GH" "$R" >"$S/t3k.out" 2>"$S/t3k.err"
		rc=$?
		# expected state from the trace prefix: files renamed, tmp files created-but-not-renamed
		want=$(awk -v K="$K" -v root="$S/t3.1/" '$1!="-" && $1<K {
			for (i=4;i<=NF;i++) { split($i,kv,"="); v[kv[1]]=kv[2] }
			if ($3=="openat") { p=v["path"]; sub(root,"",p); c[p]="" }
			if ($3=="write") { p=v["path"]; sub(root,"",p); c[p]="data" }
			if ($3=="renameat") { o=v["old"]; n=v["new"]; sub(root,"",o); sub(root,"",n); c[n]=c[o]; delete c[o] }
		} END { for (p in c) print p ":" c[p] }' "$S/t3.trace1" | sort | tr '\n' ';')
		got=$(for f in $(ls -A "$R" | sort); do echo "$f:$(cut -c1-4 "$R/$f")"; done | tr '\n' ';')
		renames=$(ls -A "$R" | grep -c -v '\.tmp$')
		wantren=$(awk -v K="$K" '$1!="-" && $1<K && $3=="renameat"' "$S/t3.trace1" | wc -l)
		if [ $rc != 99 ] || [ "$got" != "$want" ] || [ "$renames" != "$wantren" ] ||
			! grep -q "^killat: killed before #$K " "$S/t3k.err" || ! grep -q '^echo: go$' "$S/t3k.out"; then
			bad "go kill $K: rc=$rc renames=$renames/$wantren state='$got' want='$want' err=$(cat "$S/t3k.err")"
			allok=0
		fi
	done
	[ $allok == 1 ] && pass "go kill K=1..$N: exit 99, completed renames and file states match the trace prefix"
	R=$S/t3k.end; mkdir -p "$R"
	printf 'ping\ngo\nquit\n' | "$KILLAT" kill $((N + 1)) "$R" -- "$GH" "$R" >/dev/null 2>"$S/t3k.err"
	check "go kill N+1: finishes normally" "rc=$? $(cat "$S/t3k.err")" "rc=0 killat: finished with $N counted calls"
fi

############################################################################
section "4. concurrency: 4 unsynchronised threads + vfork/exec child; serialisation gate"
R=$S/t4; mkdir -p "$R"
"$KILLAT" record "$S/t4.trace" "$R" -- "$S/stress" "$R" 2>"$S/t4.err"
check "stress record: exit 0, 206 counted calls" "rc=$? $(cat "$S/t4.err")" "rc=0 killat: finished with 206 counted calls"
check "stress record: counted seqs are 1..N in file order, none missing" \
	"$(awk '$1!="-"{n++; if ($1!=n) print "bad", $0} END{print n}' "$S/t4.trace")" "206"
check "stress record: calls of the exec'ed child process are recorded" \
	"$(grep -c "openat path=$R/child flags=O_WRONLY|O_CREAT|O_TRUNC" "$S/t4.trace")" "1"
units() { # visible effect units in dir: files + bytes in t*, child: exists + non-empty
	local d=$1 u=0 f
	for f in "$d"/t[0-3]; do [ -e "$f" ] && u=$((u + 1 + $(stat -c %s "$f"))); done
	[ -e "$d/child" ] && u=$((u + 1)) && [ -s "$d/child" ] && u=$((u + 1))
	echo $u
}
allok=1
for K in 1 2 3 $(seq 5 7 200) 203 204 205 206; do
	R=$S/t4k.$K; mkdir -p "$R"
	"$KILLAT" kill "$K" "$R" -- "$S/stress" "$R" 2>"$S/t4k.err"
	rc=$?; u=$(units "$R")
	if [ $rc != 99 ] || [ "$u" != $((K - 1)) ]; then bad "stress kill $K: rc=$rc units=$u want $((K - 1))"; allok=0; fi
	rm -rf "$R"
done
[ $allok == 1 ] && pass "stress kill (34 values of K): exactly K-1 counted calls took effect, exit 99"
check "no tracee left behind" "$(pgrep -f "$S/" | wc -l)" "0"

############################################################################
section "5. timing"
echo "INFO: 'killat record' of the Go helper took ${rec_ms:-?} ms"

if [ $fail == 0 ]; then echo "ALL PASS"; else echo "SOME TESTS FAILED"; fi
exit $fail
