#!/bin/bash
# usage: run.sh <check> <quick|thorough> [extra args]
# Rebuilds the harness against /repo's current working tree (hooks on: -tags verif) and runs one check.
set -u
cd "$(dirname "$0")"
export GOFLAGS=-mod=mod GOPROXY=off
export VERIF_ROOT="$(pwd)"
check="$1"; tier="${2:-quick}"; shift; shift || true
export VERIF_TIER="$tier"
mkdir -p bin evidence
[ -x killat/killat ] || make -C killat >/dev/null
bin=lsmc
if [ "$check" = c17 ]; then
  # scaled lock-page geometry: separate build (patched copy of the ltx module + overlays), see tools/build_c17.sh
  ./tools/build_c17.sh /repo "$VERIF_ROOT/bin/lsmc-c17" || { echo "BUILD FAILED (c17 variant)"; exit 2; }
  exec ./bin/lsmc-c17 c17 "$@"
fi
if [ "$check" = c12 ]; then
  # schedule explorer: litestream rebuilt from rewritten sources (sync -> scheduler shims) via a generated overlay
  ./tools/build_c12.sh /repo "$VERIF_ROOT/bin/lsmc-c12" || { echo "BUILD FAILED (c12 variant)"; exit 2; }
  exec ./bin/lsmc-c12 c12 "$@"
fi
case "$check" in
  c18) export LSMC_TAGS=vfs; bin=lsmc-vfs ;;   # VFS code needs -tags vfs (cgo)
  c10|c04) # C10's command-line half drives the real `litestream restore` binary, C04 the `litestream reset` command; built from the tree under test
       ( cd /repo && go build -o "$VERIF_ROOT/bin/litestream-cli" ./cmd/litestream ) || { echo "BUILD FAILED (cmd/litestream)"; exit 2; } ;;
esac
./tools/build.sh /repo "$VERIF_ROOT/harness" "$VERIF_ROOT/bin/$bin" || { echo "BUILD FAILED (harness or /repo does not compile with -tags verif)"; exit 2; }
exec ./bin/$bin "$check" "$@"
