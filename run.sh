#!/bin/bash
# usage: run.sh <check> <quick|thorough> [extra args]
# Rebuilds the harness against /repo's current working tree (hooks on: -tags verif) and runs one check.
set -u
cd "$(dirname "$0")"
export GOFLAGS=-mod=mod GOPROXY=off
export VERIF_ROOT="$(pwd)"
check="$1"; tier="${2:-quick}"; shift; shift || true
export VERIF_TIER="$tier"
mkdir -p bin evidence
[ -x killat/killat ] || make -C killat >/dev/null
./tools/build.sh /repo "$VERIF_ROOT/harness" "$VERIF_ROOT/bin/lsmc" || { echo "BUILD FAILED (harness or /repo does not compile with -tags verif)"; exit 2; }
exec ./bin/lsmc "$check" "$@"
