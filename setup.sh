#!/bin/bash
# Builds the verification framework offline from files on disk and warms the Go build cache.
set -eu
cd "$(dirname "$0")"
export GOFLAGS=-mod=mod GOPROXY=off
mkdir -p bin evidence
make -C killat >/dev/null
( cd harness && go build -tags verif -o ../bin/lsmc ./cmd/lsmc )
echo "setup ok"
