#!/bin/bash
# Builds the verification framework offline from files on disk and warms the Go build cache
# (including the -race, vfs/cgo, scaled-ltx and overlay-rewritten variants, whose first build is slow).
set -eu
cd "$(dirname "$0")"
export GOFLAGS=-mod=mod GOPROXY=off
mkdir -p bin evidence
make -C killat >/dev/null
./tools/build.sh /repo "$(pwd)/harness" "$(pwd)/bin/lsmc"
LSMC_TAGS=vfs ./tools/build.sh /repo "$(pwd)/harness" "$(pwd)/bin/lsmc-vfs"
./tools/build_c17.sh /repo "$(pwd)/bin/lsmc-c17"
./tools/build_c12.sh /repo "$(pwd)/bin/lsmc-c12"
here="$(pwd)"; ( cd /repo && go build -o "$here/bin/litestream-cli" ./cmd/litestream )
echo "setup ok"
