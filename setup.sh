#!/bin/bash
# Builds the verification framework offline from files on disk and warms the Go build cache.
set -eu
cd "$(dirname "$0")"
export GOFLAGS=-mod=mod GOPROXY=off
mkdir -p bin evidence
make -C killat >/dev/null
./tools/build.sh /repo "$(pwd)/harness" "$(pwd)/bin/lsmc"
echo "setup ok"
